import CacheVerif.Deep.Janitor
import CacheVerif.Generated.DeepCtor
import CacheVerif.Proofs.DeepSource
import CacheVerif.Proofs.LeafCache
/-!
# The janitor goroutine of both files, as printed from the working tree, *is* "one `DeleteExpired` pass per tick"

For the goroutine and the finalizer `tools/go2deep` prints from `newXsyncMap` / `newXsyncMapOf` on every run:
started iff the machine-translated guard holds; a tick is exactly one step `.deleteExpired` of the cache model at the
clock of the tick (through `DeepSource.step`: the text of `DeleteExpired` itself); the event the finalizer produces
ends the goroutine and changes nothing; the function literal does not capture the object the finalizer is attached to.
-/
namespace DeepJanitor
open Deep Spec Model
variable {K V : Type} [DecidableEq K] [Inhabited V]

/-- a statement that only calls a method of the cache object: what the interpreter does with it -/
theorem exec_self_stmt (T : Twin K V) (m : String) (w : W K V) :
    execL T (FUEL + 3) [] [.exprS (.self m [])] w = (runMethod T FUEL m [] w).map fun r => (none, r.2) := by
  simp only [FUEL, execL, execS, evalE, evalArgs, runMethod]
  cases T.methods.lookup m with
  | none => rfl
  | some d =>
    dsimp only
    cases callDecl T 60 d [] [] w with
    | none => rfl
    | some r => rfl

/-- a bare `return` -/
theorem exec_return (T : Twin K V) (w : W K V) :
    execL T (FUEL + 3) [] [.ret []] w = some (some [], w) := by
  simp [FUEL, execL, execS, evalArgs]

/-- the run of a method behind an API step -/
theorem runMethod_of_step (T : Twin K V) (s : CSt K V) (p : CSt K V × Model.Res K V)
    (h : deepStep T s .deleteExpired = some p) :
    ∃ vs w, runMethod T FUEL "DeleteExpired" [] (ofSt s) = some (vs, w) ∧ stOf w = p.1 ∧ w.cbs = p.2.cbs := by
  simp only [deepStep, encode] at h
  split at h
  · cases h
  · rename_i vs w hrun
    split at h
    · rename_i out _
      simp only [Option.some.injEq] at h
      subst h
      exact ⟨vs, w, hrun, rfl, rfl⟩
    · cases h

/-- the configuration struct as the field valuation the guard is evaluated in -/
def fields (c : Gen.Config) : String → Int
  | "CleanupInterval" => c.cleanupInterval
  | "DefaultExpiration" => c.defaultExpiration
  | "MinCapacity" => c.minCapacity
  | _ => 0

section twin
variable (T : Twin K V) (j : GoLoop) (fin : Finalizer)

/-- **a tick is one `DeleteExpired` pass** at the clock of the tick, whenever the tick clause of the printed goroutine is
`c.DeleteExpired()` and `T` is the interpreter instance of one of the two files -/
theorem tick_is_pass (hT : DeepSource.IsTwin T)
    (hj : j.clauseFor fin (.tick 0) = some [.exprS (.self "DeleteExpired" [])]) (s : CSt K V) (δ : Int) :
    janitorEvent T j fin s (.tick δ) =
      some (false, (Model.Cache.step { s with now := s.now + δ } .deleteExpired).1,
        (Model.Cache.step { s with now := s.now + δ } .deleteExpired).2.cbs) := by
  have hj' : j.clauseFor fin (.tick δ) = some [.exprS (.self "DeleteExpired" [])] := hj
  obtain ⟨vs, w, hrun, hst, hcb⟩ := runMethod_of_step T _ _ (DeepSource.step { s with now := s.now + δ } .deleteExpired T hT)
  simp only [janitorEvent, hj', exec_self_stmt]
  rw [hrun]
  simp only [Option.map_some, Option.isSome_none]
  rw [hst, hcb]

/-- **the finalizer's event ends the goroutine** and touches nothing, whenever the stop clause is a bare `return` -/
theorem stop_returns (hj : j.clauseFor fin .stop = some [.ret []]) (s : CSt K V) :
    janitorEvent T j fin s .stop = some (true, s, []) := by
  simp only [janitorEvent, hj, exec_return]
  rfl

/-- any number of ticks, then the finalizer: the cache goes through exactly the `DeleteExpired` passes of the model, one
per tick at that tick's clock, the callbacks of all passes are delivered in order, and the goroutine has returned -/
theorem ticks_then_stop (hT : DeepSource.IsTwin T)
    (hj : j.clauseFor fin (.tick 0) = some [.exprS (.self "DeleteExpired" [])])
    (hs : j.clauseFor fin .stop = some [.ret []]) (δs : List Int) (s : CSt K V) :
    janitorRun T j fin s (δs.map .tick ++ [.stop]) =
      some (true,
        δs.foldl (fun s δ => (Model.Cache.step { s with now := s.now + δ } .deleteExpired).1) s,
        (δs.foldl (fun (acc : CSt K V × List (Nat × K × V)) δ =>
          ((Model.Cache.step { acc.1 with now := acc.1.now + δ } .deleteExpired).1,
           acc.2 ++ (Model.Cache.step { acc.1 with now := acc.1.now + δ } .deleteExpired).2.cbs)) (s, [])).2) := by
  suffices h : ∀ (δs : List Int) (s : CSt K V) (pre : List (Nat × K × V)),
      (janitorRun T j fin s (δs.map .tick ++ [.stop])).map (fun r => (r.1, r.2.1, pre ++ r.2.2)) =
      some (true,
        δs.foldl (fun s δ => (Model.Cache.step { s with now := s.now + δ } .deleteExpired).1) s,
        (δs.foldl (fun (acc : CSt K V × List (Nat × K × V)) δ =>
          ((Model.Cache.step { acc.1 with now := acc.1.now + δ } .deleteExpired).1,
           acc.2 ++ (Model.Cache.step { acc.1 with now := acc.1.now + δ } .deleteExpired).2.cbs)) (s, pre)).2) by
    have := h δs s []
    cases hr : janitorRun T j fin s (δs.map .tick ++ [.stop]) with
    | none => rw [hr] at this; cases this
    | some r =>
      rw [hr] at this
      simp only [Option.map_some, List.nil_append] at this
      exact this
  intro δs
  induction δs with
  | nil =>
    intro s pre
    simp only [List.map_nil, List.nil_append, janitorRun, stop_returns T j fin hs, List.foldl_nil, Option.map_some,
      List.append_nil]
  | cons δ δs ih =>
    intro s pre
    simp only [List.map_cons, List.cons_append, janitorRun, tick_is_pass T j fin hT hj, List.foldl_cons]
    have := ih (Model.Cache.step { s with now := s.now + δ } .deleteExpired).1
      (pre ++ (Model.Cache.step { s with now := s.now + δ } .deleteExpired).2.cbs)
    cases hr : janitorRun T j fin (Model.Cache.step { s with now := s.now + δ } .deleteExpired).1 (δs.map .tick ++ [.stop]) with
    | none => rw [hr] at this; cases this
    | some r =>
      rw [hr] at this
      simp only [Option.map_some, List.append_assoc] at this ⊢
      exact this

/-- **no pass after the finalizer**: whatever events follow the finalizer's, the goroutine has returned and receives
none of them -/
theorem nothing_after_stop (hT : DeepSource.IsTwin T)
    (hj : j.clauseFor fin (.tick 0) = some [.exprS (.self "DeleteExpired" [])])
    (hs : j.clauseFor fin .stop = some [.ret []]) (δs : List Int) (more : List JEv) (s : CSt K V) :
    janitorRun T j fin s (δs.map .tick ++ .stop :: more) = janitorRun T j fin s (δs.map .tick ++ [.stop]) := by
  induction δs generalizing s with
  | nil => simp only [List.map_nil, List.nil_append, janitorRun, stop_returns T j fin hs]
  | cons δ δs ih =>
    simp only [List.map_cons, List.cons_append, janitorRun, tick_is_pass T j fin hT hj]
    rw [ih]

end twin

/-! ### the two files -/

theorem map_tick_clause : Gen.Deep.xsyncMap_janitor.clauseFor Gen.Deep.xsyncMap_finalizer (.tick 0) =
    some [.exprS (.self "DeleteExpired" [])] := by rfl
theorem map_stop_clause : Gen.Deep.xsyncMap_janitor.clauseFor Gen.Deep.xsyncMap_finalizer .stop = some [.ret []] := by rfl
theorem mapOf_tick_clause : Gen.Deep.xsyncMapOf_janitor.clauseFor Gen.Deep.xsyncMapOf_finalizer (.tick 0) =
    some [.exprS (.self "DeleteExpired" [])] := by rfl
theorem mapOf_stop_clause : Gen.Deep.xsyncMapOf_janitor.clauseFor Gen.Deep.xsyncMapOf_finalizer .stop = some [.ret []] := by rfl

/-- the goroutine is started iff the machine-translated guard of the constructor holds; its period is the interval -/
theorem map_started (c : Gen.Config) :
    Gen.Deep.xsyncMap_janitor.started (fields c) = some (Gen.newXsyncMap_janitor c) ∧
    Gen.Deep.xsyncMap_janitor.period (fields c) = some c.cleanupInterval := by
  constructor <;> rfl
theorem mapOf_started (c : Gen.Config) :
    Gen.Deep.xsyncMapOf_janitor.started (fields c) = some (Gen.newXsyncMapOf_janitor c) ∧
    Gen.Deep.xsyncMapOf_janitor.period (fields c) = some c.cleanupInterval := by
  constructor <;> rfl

/-- the goroutine does not keep the finalizer's object alive, and stops its ticker when it returns -/
theorem map_collectable : Gen.Deep.xsyncMap_finalizer.target ∉ Gen.Deep.xsyncMap_janitor.captures ∧
    Gen.Deep.xsyncMap_janitor.deferStop = true := by decide
theorem mapOf_collectable : Gen.Deep.xsyncMapOf_finalizer.target ∉ Gen.Deep.xsyncMapOf_janitor.captures ∧
    Gen.Deep.xsyncMapOf_janitor.deferStop = true := by decide

end DeepJanitor
