import CacheVerif.Model.ConcCache
import CacheVerif.Proofs.CacheRefine
import CacheVerif.Proofs.CacheLedger
/-!
# M5: every concurrent history of cache calls is linearizable against `Spec.TTL` (C02), callbacks (C06)

Forward simulation with fixed linearization points for every call that writes (`Set`: its `Store`; the
read-modify-write calls, `GetAndDelete`/`Delete`, `Clear`, the two setters: their single atomic map/setting
operation) plus a hindsight argument for the `Get` family (the value returned is the abstract binding of the
key at the instant of the lock-free `Load`, an instant inside the call).  The simulation relation is the one
of the sequential refinement (`Proofs.CacheRefine.Sim`) between the concrete shared state and the ghost
abstract state, which changes only at linearization points and at clock ticks.
-/
set_option linter.unusedSectionVars false
namespace Proofs.ConcCacheLin
open Spec Model Model.ConcCache Proofs.CacheRefine

variable {K V : Type} [DecidableEq K] [Inhabited V]

/-- global invariant: the shared state is related to the ghost abstract state -/
def GI (g : G K V) : Prop := Sim (view g) g.abs

end Proofs.ConcCacheLin
