import CacheVerif.Model.ConcCache
import CacheVerif.Proofs.CacheRefine
import CacheVerif.Proofs.CacheLedger
/-!
# M5: every concurrent history of cache calls is linearizable against `Spec.TTL` (C02), callbacks (C06)

Forward simulation with fixed linearization points for every call that writes (`Set`: its `Store`; the
read-modify-write calls, `GetAndDelete`/`Delete`, `Clear`, the two setters: their single atomic map/setting
operation) plus a hindsight argument for the `Get` family (the value returned is the abstract binding of the
key at the instant of the lock-free `Load`, an instant inside the call).  The simulation relation is the one
of the sequential refinement (`Proofs.CacheRefine.Sim`) between the concrete shared state and the ghost
abstract state, which changes only at linearization points and at clock ticks.

Owicki–Gries shape: a global invariant `GI` (the simulation relation), a per-thread local invariant `LI` (it
mentions, of the globals, only the clock, which no thread step changes and which only grows), `li_self` /
`gi_tstep` for the stepping thread, `li_other` / `li_mono` for the others and for clock ticks, lifted to
`Inv` / `inv_step` / `inv_reach`.

Main results: `gi_init`, `gi_step`, `gi_reach` (invariant); `lp_result`, `lp_setStore` (linearization points
return the spec's answer and advance the ghost abstract state by the spec step); `abs_frame` (no other step
changes the abstract state); `get_load`, `get_hindsight` (hindsight for the `Get` family); `get_ttl_clock`,
`getWithTTL_second_clock` (`GetWithTTL` reads the clock a second time: value and flag are those of the hindsight /
linearization point, the lifetime is that binding's, against the later clock); `gd_compute`,
`de_compute`, `erased_step`, `ledger_only_removed`, `never_removes_live` (callbacks, C06); `no_step_blocks`
(C13 at cache level); `reach_tstep` (the step-level theorems apply to every step of every run); `fi_reach`,
`fired_prefix`, `fired_eq_erased_at_ret`, `ledger_fired_coupled` (C06: per call, what fired is exactly what was
removed, once each, in order).
-/
set_option linter.unusedSectionVars false
set_option linter.unusedVariables false
namespace Proofs.ConcCacheLin
open Spec Model Model.ConcCache Proofs.CacheRefine Proofs.LeafCache

variable {K V : Type} [DecidableEq K] [Inhabited V]

/-- global invariant: the shared state is related to the ghost abstract state -/
def GI (g : G K V) : Prop := Sim (view g) g.abs

/-- storing an item that is already expired is, logically, an erase -/
theorem sim_store_dead (s : Cache.St K V) (a : TTL.St K V) (h : Sim s a) (k : K) (i : Item V)
    (hl : TTL.expired i.e s.now = true) :
    Sim { s with items := s.items.set k i } { a with live := a.live.erase k } := by
  have he : 0 ≤ i.e := by simp [TTL.expired] at hl; omega
  refine ⟨WF_set s h.wf k i he, AMap.WF_erase _ _ h.awf, h.now, h.dflt, h.cb, ?_⟩
  intro k'
  rw [lget_set, AMap.get_erase, h.get k', hl]; simp

inductive Cls where | set | get | rmw | gd | de | clear | count | sd | sc
  deriving DecidableEq

def opCls : COp K V → Cls
  | .set .. => .set
  | .get _ | .getWithExpiration _ | .getWithTTL _ => .get
  | .getOrSet .. | .getAndSet .. | .getAndRefresh .. | .getOrCompute .. | .compute .. => .rmw
  | .getAndDelete _ | .delete _ => .gd
  | .deleteExpired => .de
  | .clear => .clear
  | .count => .count
  | .setDefaultExpiration _ => .sd
  | .setEvictedCallback _ => .sc

def pcCls : Pc → Option Cls
  | .idle | .ret => none
  | .setReadDflt | .setReadClock | .setStore => some .set
  | .getLoad | .getChkClock | .getCompute | .getTTLClock => some .get
  | .rmw => some .rmw
  | .gdCompute | .gdReadCb | .gdFire => some .gd
  | .deReadCb | .deReadClock | .deVisit | .deCompute | .deFire => some .de
  | .clClear => some .clear
  | .cntSize => some .count
  | .sdStore => some .sd
  | .scStore => some .sc

def dePass : Pc → Bool
  | .deVisit | .deCompute | .deFire => true
  | _ => false

structure LI (now : Int) (l : L K V) : Prop where
  cls : ∀ c, pcCls l.pc = some c → ∃ op, l.op = some op ∧ opCls op = c
  setD : ∀ k v d, l.op = some (.set k v d) →
      (l.pc = .setReadDflt → d = Gen.DefaultExpiration) ∧
      ((l.pc = .setReadClock ∨ l.pc = .setStore) → d ≠ Gen.DefaultExpiration → l.d = d)
  setE : l.pc = .setStore → ∃ t0, 0 ≤ t0 ∧ t0 ≤ now ∧ l.e = if l.d > 0 then t0 + l.d else 0
  hind : l.pc = .getChkClock → ∃ i, l.loaded = some i ∧ l.nowAtLoad ≤ now ∧
      l.absAtLoad = if TTL.expired i.e l.nowAtLoad then none else some i
  pass : dePass l.pc = true → l.passNow ≤ now
  cur : l.pc = .deCompute → l.cur.isSome = true
  rem : (l.pc = .gdReadCb ∨ l.pc = .gdFire) → ∀ k, opKey l = some k → ∃ i, l.removed = some i ∧ (k, i.v) ∈ l.erased
  que : ∀ p ∈ l.queue, p ∈ l.erased
  cmp : l.pc = .getCompute → l.nowAtLoad ≤ now
  /-- `GetWithTTL` about to read the clock a second time: it holds the item `i` it found (`loaded`), which has an
  expiration instant, and `i` was unexpired at the clock value `t0` the call read when it found it
  (`nowAtLoad ≤ t0 ≤ now`: the clock check of the hit path, or the double-checked `Compute`) -/
  ttl : l.pc = .getTTLClock → ∃ i k t0, l.loaded = some i ∧ l.op = some (.getWithTTL k) ∧ 0 < i.e ∧
      l.nowAtLoad ≤ t0 ∧ t0 ≤ now ∧ TTL.expired i.e t0 = false

theorem li_init (now : Int) : LI now (L.init : L K V) := by
  refine ⟨?_, ?_, ?_, ?_, ?_, ?_, ?_, ?_, ?_, ?_⟩ <;> simp [L.init, pcCls, dePass]

theorem li_mono (now now' : Int) (l : L K V) (h : now ≤ now') (hl : LI now l) : LI now' l := by
  obtain ⟨h1, h2, h3, h4, h5, h6, h7, h8, h9, h10⟩ := hl
  refine ⟨h1, h2, ?_, ?_, ?_, h6, h7, h8, ?_, ?_⟩
  · intro hp; obtain ⟨t0, a, b, c⟩ := h3 hp; exact ⟨t0, a, by omega, c⟩
  · intro hp; obtain ⟨i, a, b, c⟩ := h4 hp; exact ⟨i, a, by omega, c⟩
  · intro hp; have := h5 hp; omega
  · intro hp; have := h9 hp; omega
  · intro hp; obtain ⟨i, k, t0, a, b, c, d, e, f⟩ := h10 hp; exact ⟨i, k, t0, a, b, c, d, by omega, f⟩

theorem li_startOp (now : Int) (l : L K V) (op : COp K V) : LI now (startOp l op) := by
  cases op
  case set k v d =>
    by_cases hd : d = Gen.DefaultExpiration <;>
      (refine ⟨?_, ?_, ?_, ?_, ?_, ?_, ?_, ?_, ?_, ?_⟩ <;> simp [startOp, pcCls, dePass, opCls, hd])
  all_goals (refine ⟨?_, ?_, ?_, ?_, ?_, ?_, ?_, ?_, ?_, ?_⟩ <;> simp [startOp, pcCls, dePass, opCls])

theorem tstep_now (t : Tid) (g : G K V) (l : L K V) (c : Choice K V) (g' : G K V) (l' : L K V)
    (hs : tstep t g l c = some (g', l')) : g'.now = g.now := by
  cases hpc : l.pc <;> simp only [tstep, hpc] at hs <;>
    (repeat' split at hs) <;>
    simp only [Option.some.injEq, reduceCtorEq, Prod.mk.injEq] at hs <;>
    obtain ⟨rfl, rfl⟩ := hs <;> rfl

macro "li_auto " hs:ident : tactic =>
  `(tactic| ((repeat' split at $hs:ident) <;>
    simp only [Option.some.injEq, reduceCtorEq, Prod.mk.injEq] at $hs:ident <;>
    rcases $hs:ident with ⟨hg', hl'⟩ <;> subst hg' <;> subst hl' <;>
    (refine ⟨?_, ?_, ?_, ?_, ?_, ?_, ?_, ?_, ?_, ?_⟩ <;> simp_all [pcCls, dePass, opKey])))


/-! ## The local invariant is preserved by the thread's own steps -/

theorem load_true {α : Type} [Inhabited α] (m : AMap K α) (k : K) (i : α) (h : m.load k = (i, true)) : m.get k = some i := by
  unfold AMap.load at h
  split at h
  · rename_i v hv
    simp only [Prod.mk.injEq, and_true] at h
    rw [hv, h]
  · simp at h

theorem load_false {α : Type} [Inhabited α] (m : AMap K α) (k : K) (i : α) (h : m.load k = (i, false)) : m.get k = none := by
  unfold AMap.load at h
  split at h
  · simp at h
  · assumption

theorem compute_congr {α : Type} [Inhabited α] (m : AMap K α) (k : K) (f f' : Option α → α × Bool)
    (h : ∀ o, f o = f' o) : m.compute k f = m.compute k f' := by
  have : f = f' := funext h
  rw [this]

/-- the closure `get` passes to `Compute` (double check, or delete) -/
def getFn (s : Cache.St K V) : Option (Item V) → Item V × Bool := fun o =>
  match o with
  | some i' => if !Cache.expired s i' then (i', false) else (default, true)
  | none => (default, true)

theorem getFn_spec (s : Cache.St K V) (m : AMap K (Item V)) (k : K) :
    m.compute k (getFn s) =
      match m.get k with
      | none => (m, (default, false))
      | some i => if TTL.expired i.e s.now then (m.erase k, (i, false)) else (m.set k i, (i, true)) := by
  cases hg : m.get k with
  | none => simp [AMap.compute, hg, getFn]
  | some i =>
    by_cases he : TTL.expired i.e s.now = true <;> simp [AMap.compute, hg, getFn, expired_eq, he]

/-- the two outcomes of `afterHit`: the call returns with `hitResult`, or (`GetWithTTL`, entry with an expiration
instant) it goes on to read the clock a second time, holding the item found -/
theorem afterHit_cases (l : L K V) (op : COp K V) (i : Item V) (now : Int) :
    ((¬ ∃ k, op = .getWithTTL k ∧ 0 < i.e) ∧
        afterHit l op i now = { l with pc := .ret, result := some (hitResult op i now) }) ∨
    (∃ k, op = .getWithTTL k ∧ 0 < i.e ∧ afterHit l op i now = { l with pc := .getTTLClock, loaded := some i }) := by
  by_cases h0 : 0 < i.e <;> cases op <;> simp [afterHit, h0]

theorem afterHit_erased (l : L K V) (op : COp K V) (i : Item V) (now : Int) : (afterHit l op i now).erased = l.erased := by
  rcases afterHit_cases l op i now with ⟨_, h⟩ | ⟨_, _, _, h⟩ <;> rw [h]
theorem afterHit_fired (l : L K V) (op : COp K V) (i : Item V) (now : Int) : (afterHit l op i now).fired = l.fired := by
  rcases afterHit_cases l op i now with ⟨_, h⟩ | ⟨_, _, _, h⟩ <;> rw [h]

/-- `get`'s double-checked `Compute`, exactly: a fresh item stays in place and the call goes on as after a hit
(`afterHit`); an expired item is deleted, and then (or when the key is absent) the call returns a miss -/
theorem getCompute_step (t : Tid) (g : G K V) (l : L K V) (c : Choice K V) (g' : G K V) (l' : L K V)
    (hpc : l.pc = .getCompute) (hs : tstep t g l c = some (g', l')) :
    ∃ k op, opKey l = some k ∧ l.op = some op ∧
      g' = { g with items := (g.items.compute k (getFn (view g))).1 } ∧
      match g.items.get k with
      | none => g'.items = g.items ∧ l' = { l with pc := .ret, result := some (missResult op) }
      | some i =>
        if TTL.expired i.e g.now then
          g'.items = g.items.erase k ∧ l' = { l with pc := .ret, result := some (missResult op) }
        else g'.items = g.items.set k i ∧ l' = afterHit l op i g.now := by
  simp only [tstep, hpc] at hs
  split at hs
  · rename_i k op hk ho
    rw [compute_congr (f' := getFn (view g))] at hs
    case h => intro o; cases o <;> rfl
    simp only [Option.some.injEq, Prod.mk.injEq] at hs
    obtain ⟨rfl, rfl⟩ := hs
    refine ⟨k, op, hk, ho, rfl, ?_⟩
    rw [getFn_spec]
    cases hgk : g.items.get k with
    | none => simp
    | some i => by_cases he : TTL.expired i.e g.now = true <;> simp [he, view]
  · cases hs

theorem li_self_setReadDflt (t : Tid) (g : G K V) (l : L K V) (c : Choice K V) (g' : G K V) (l' : L K V)
    (hg : GI g) (hl : LI g.now l) (hpc : l.pc = .setReadDflt) (hs : tstep t g l c = some (g', l')) : LI g.now l' := by
  have hnow := hg.wf.now0
  obtain ⟨h1, h2, h3, h4, h5, h6, h7, h8, h9, h10⟩ := hl
  simp only [tstep, hpc] at hs
  li_auto hs
  intro k v d ho hd
  exact absurd (h2 k v d ho) hd

theorem li_self_setReadClock (t : Tid) (g : G K V) (l : L K V) (c : Choice K V) (g' : G K V) (l' : L K V)
    (hg : GI g) (hl : LI g.now l) (hpc : l.pc = .setReadClock) (hs : tstep t g l c = some (g', l')) : LI g.now l' := by
  have hnow := hg.wf.now0
  obtain ⟨h1, h2, h3, h4, h5, h6, h7, h8, h9, h10⟩ := hl
  simp only [tstep, hpc] at hs
  simp only [Option.some.injEq, Prod.mk.injEq] at hs
  obtain ⟨rfl, rfl⟩ := hs
  refine ⟨?_, ?_, ?_, ?_, ?_, ?_, ?_, ?_, ?_, ?_⟩ <;> simp [pcCls, dePass, opKey]
  · exact h1 _ (by simp [hpc, pcCls])
  · exact fun k v d ho => (h2 k v d ho).2 (Or.inl hpc)
  · exact ⟨g.now, hnow, Int.le_refl _, rfl⟩
  · exact fun a b => h8 (a, b)

theorem li_self_setStore (t : Tid) (g : G K V) (l : L K V) (c : Choice K V) (g' : G K V) (l' : L K V)
    (hg : GI g) (hl : LI g.now l) (hpc : l.pc = .setStore) (hs : tstep t g l c = some (g', l')) : LI g.now l' := by
  have hnow := hg.wf.now0
  obtain ⟨h1, h2, h3, h4, h5, h6, h7, h8, h9, h10⟩ := hl
  simp only [tstep, hpc] at hs
  li_auto hs

theorem li_self_getLoad (t : Tid) (g : G K V) (l : L K V) (c : Choice K V) (g' : G K V) (l' : L K V)
    (hg : GI g) (hl : LI g.now l) (hpc : l.pc = .getLoad) (hs : tstep t g l c = some (g', l')) : LI g.now l' := by
  have hnow := hg.wf.now0
  obtain ⟨h1, h2, h3, h4, h5, h6, h7, h8, h9, h10⟩ := hl
  simp only [tstep, hpc] at hs
  li_auto hs
  rename_i k op x i hk ho hld
  have := load_true _ _ _ hld
  rw [hg.get k, lget]

  simp only [view, this]

  by_cases he : TTL.expired i.e g.now = true <;> simp [he]

theorem li_self_getChkClock (t : Tid) (g : G K V) (l : L K V) (c : Choice K V) (g' : G K V) (l' : L K V)
    (hg : GI g) (hl : LI g.now l) (hpc : l.pc = .getChkClock) (hs : tstep t g l c = some (g', l')) : LI g.now l' := by
  have hnow := hg.wf.now0
  obtain ⟨h1, h2, h3, h4, h5, h6, h7, h8, h9, h10⟩ := hl
  obtain ⟨i, hi, hn, ha⟩ := h4 hpc
  obtain ⟨op, ho, hc⟩ := h1 _ (by rw [hpc]; rfl)
  simp only [tstep, hpc, hi, ho, item_expired_eq] at hs
  split at hs
  · rename_i he
    simp only [Option.some.injEq, Prod.mk.injEq] at hs
    obtain ⟨rfl, rfl⟩ := hs
    rcases afterHit_cases l op i g.now with ⟨_, h⟩ | ⟨k, rfl, hpos, h⟩ <;> rw [h]
    · refine ⟨?_, ?_, ?_, ?_, ?_, ?_, ?_, ?_, ?_, ?_⟩ <;> simp_all [pcCls, dePass, opKey]
    · refine ⟨?_, ?_, ?_, ?_, ?_, ?_, ?_, ?_, ?_, ?_⟩ <;> simp_all [pcCls, dePass, opKey, opCls]
      exact ⟨g.now, hn, Int.le_refl _, he⟩
  · simp only [Option.some.injEq, Prod.mk.injEq] at hs
    obtain ⟨rfl, rfl⟩ := hs
    refine ⟨?_, ?_, ?_, ?_, ?_, ?_, ?_, ?_, ?_, ?_⟩ <;> simp_all [pcCls, dePass, opKey]

theorem li_self_getCompute (t : Tid) (g : G K V) (l : L K V) (c : Choice K V) (g' : G K V) (l' : L K V)
    (hg : GI g) (hl : LI g.now l) (hpc : l.pc = .getCompute) (hs : tstep t g l c = some (g', l')) : LI g.now l' := by
  have hnow := hg.wf.now0
  obtain ⟨h1, h2, h3, h4, h5, h6, h7, h8, h9, h10⟩ := hl
  have hn := h9 hpc
  obtain ⟨k, op, hk, ho, _, hm⟩ := getCompute_step t g l c g' l' hpc hs
  have hmiss : LI g.now { l with pc := .ret, result := some (missResult op) } := by
    refine ⟨?_, ?_, ?_, ?_, ?_, ?_, ?_, ?_, ?_, ?_⟩ <;> simp_all [pcCls, dePass, opKey]
  cases hgk : g.items.get k with
  | none => rw [hgk] at hm; rw [hm.2]; exact hmiss
  | some i =>
    rw [hgk] at hm
    by_cases he : TTL.expired i.e g.now = true
    · simp only [he, if_true] at hm; rw [hm.2]; exact hmiss
    · simp only [he, Bool.false_eq_true, if_false] at hm
      rw [hm.2]
      rcases afterHit_cases l op i g.now with ⟨_, h⟩ | ⟨k', rfl, hpos, h⟩ <;> rw [h]
      · refine ⟨?_, ?_, ?_, ?_, ?_, ?_, ?_, ?_, ?_, ?_⟩ <;> simp_all [pcCls, dePass, opKey]
      · refine ⟨?_, ?_, ?_, ?_, ?_, ?_, ?_, ?_, ?_, ?_⟩ <;> simp_all [pcCls, dePass, opKey, opCls]
        exact ⟨g.now, hn, Int.le_refl _, by simpa using he⟩

theorem li_self_getTTLClock (t : Tid) (g : G K V) (l : L K V) (c : Choice K V) (g' : G K V) (l' : L K V)
    (hg : GI g) (hl : LI g.now l) (hpc : l.pc = .getTTLClock) (hs : tstep t g l c = some (g', l')) : LI g.now l' := by
  have hnow := hg.wf.now0
  obtain ⟨h1, h2, h3, h4, h5, h6, h7, h8, h9, h10⟩ := hl
  simp only [tstep, hpc] at hs
  li_auto hs

theorem li_self_rmw (t : Tid) (g : G K V) (l : L K V) (c : Choice K V) (g' : G K V) (l' : L K V)
    (hg : GI g) (hl : LI g.now l) (hpc : l.pc = .rmw) (hs : tstep t g l c = some (g', l')) : LI g.now l' := by
  have hnow := hg.wf.now0
  obtain ⟨h1, h2, h3, h4, h5, h6, h7, h8, h9, h10⟩ := hl
  simp only [tstep, hpc] at hs
  li_auto hs

theorem li_self_gdCompute (t : Tid) (g : G K V) (l : L K V) (c : Choice K V) (g' : G K V) (l' : L K V)
    (hg : GI g) (hl : LI g.now l) (hpc : l.pc = .gdCompute) (hs : tstep t g l c = some (g', l')) : LI g.now l' := by
  have hnow := hg.wf.now0
  obtain ⟨h1, h2, h3, h4, h5, h6, h7, h8, h9, h10⟩ := hl
  clear h3 h4 h9 h10
  simp only [tstep, hpc] at hs
  li_auto hs

theorem li_self_gdReadCb (t : Tid) (g : G K V) (l : L K V) (c : Choice K V) (g' : G K V) (l' : L K V)
    (hg : GI g) (hl : LI g.now l) (hpc : l.pc = .gdReadCb) (hs : tstep t g l c = some (g', l')) : LI g.now l' := by
  have hnow := hg.wf.now0
  obtain ⟨h1, h2, h3, h4, h5, h6, h7, h8, h9, h10⟩ := hl
  simp only [tstep, hpc] at hs
  li_auto hs

theorem li_self_gdFire (t : Tid) (g : G K V) (l : L K V) (c : Choice K V) (g' : G K V) (l' : L K V)
    (hg : GI g) (hl : LI g.now l) (hpc : l.pc = .gdFire) (hs : tstep t g l c = some (g', l')) : LI g.now l' := by
  have hnow := hg.wf.now0
  obtain ⟨h1, h2, h3, h4, h5, h6, h7, h8, h9, h10⟩ := hl
  simp only [tstep, hpc] at hs
  li_auto hs

theorem li_self_deReadCb (t : Tid) (g : G K V) (l : L K V) (c : Choice K V) (g' : G K V) (l' : L K V)
    (hg : GI g) (hl : LI g.now l) (hpc : l.pc = .deReadCb) (hs : tstep t g l c = some (g', l')) : LI g.now l' := by
  have hnow := hg.wf.now0
  obtain ⟨h1, h2, h3, h4, h5, h6, h7, h8, h9, h10⟩ := hl
  simp only [tstep, hpc] at hs
  li_auto hs

theorem li_self_deReadClock (t : Tid) (g : G K V) (l : L K V) (c : Choice K V) (g' : G K V) (l' : L K V)
    (hg : GI g) (hl : LI g.now l) (hpc : l.pc = .deReadClock) (hs : tstep t g l c = some (g', l')) : LI g.now l' := by
  have hnow := hg.wf.now0
  obtain ⟨h1, h2, h3, h4, h5, h6, h7, h8, h9, h10⟩ := hl
  simp only [tstep, hpc] at hs
  li_auto hs

theorem li_self_deVisit (t : Tid) (g : G K V) (l : L K V) (c : Choice K V) (g' : G K V) (l' : L K V)
    (hg : GI g) (hl : LI g.now l) (hpc : l.pc = .deVisit) (hs : tstep t g l c = some (g', l')) : LI g.now l' := by
  have hnow := hg.wf.now0
  obtain ⟨h1, h2, h3, h4, h5, h6, h7, h8, h9, h10⟩ := hl
  simp only [tstep, hpc] at hs
  li_auto hs

theorem li_self_deCompute (t : Tid) (g : G K V) (l : L K V) (c : Choice K V) (g' : G K V) (l' : L K V)
    (hg : GI g) (hl : LI g.now l) (hpc : l.pc = .deCompute) (hs : tstep t g l c = some (g', l')) : LI g.now l' := by
  have hnow := hg.wf.now0
  obtain ⟨h1, h2, h3, h4, h5, h6, h7, h8, h9, h10⟩ := hl
  simp only [tstep, hpc] at hs
  li_auto hs
  intro a b h
  rcases h with h | h
  · exact Or.inl (h8 a b h)
  · exact Or.inr h

theorem li_self_deFire (t : Tid) (g : G K V) (l : L K V) (c : Choice K V) (g' : G K V) (l' : L K V)
    (hg : GI g) (hl : LI g.now l) (hpc : l.pc = .deFire) (hs : tstep t g l c = some (g', l')) : LI g.now l' := by
  have hnow := hg.wf.now0
  obtain ⟨h1, h2, h3, h4, h5, h6, h7, h8, h9, h10⟩ := hl
  simp only [tstep, hpc] at hs
  li_auto hs

theorem li_self_clClear (t : Tid) (g : G K V) (l : L K V) (c : Choice K V) (g' : G K V) (l' : L K V)
    (hg : GI g) (hl : LI g.now l) (hpc : l.pc = .clClear) (hs : tstep t g l c = some (g', l')) : LI g.now l' := by
  have hnow := hg.wf.now0
  obtain ⟨h1, h2, h3, h4, h5, h6, h7, h8, h9, h10⟩ := hl
  simp only [tstep, hpc] at hs
  li_auto hs

theorem li_self_cntSize (t : Tid) (g : G K V) (l : L K V) (c : Choice K V) (g' : G K V) (l' : L K V)
    (hg : GI g) (hl : LI g.now l) (hpc : l.pc = .cntSize) (hs : tstep t g l c = some (g', l')) : LI g.now l' := by
  have hnow := hg.wf.now0
  obtain ⟨h1, h2, h3, h4, h5, h6, h7, h8, h9, h10⟩ := hl
  simp only [tstep, hpc] at hs
  li_auto hs

theorem li_self_sdStore (t : Tid) (g : G K V) (l : L K V) (c : Choice K V) (g' : G K V) (l' : L K V)
    (hg : GI g) (hl : LI g.now l) (hpc : l.pc = .sdStore) (hs : tstep t g l c = some (g', l')) : LI g.now l' := by
  have hnow := hg.wf.now0
  obtain ⟨h1, h2, h3, h4, h5, h6, h7, h8, h9, h10⟩ := hl
  simp only [tstep, hpc] at hs
  li_auto hs

theorem li_self_scStore (t : Tid) (g : G K V) (l : L K V) (c : Choice K V) (g' : G K V) (l' : L K V)
    (hg : GI g) (hl : LI g.now l) (hpc : l.pc = .scStore) (hs : tstep t g l c = some (g', l')) : LI g.now l' := by
  have hnow := hg.wf.now0
  obtain ⟨h1, h2, h3, h4, h5, h6, h7, h8, h9, h10⟩ := hl
  simp only [tstep, hpc] at hs
  li_auto hs

theorem li_self_ret (t : Tid) (g : G K V) (l : L K V) (c : Choice K V) (g' : G K V) (l' : L K V)
    (hg : GI g) (hl : LI g.now l) (hpc : l.pc = .ret) (hs : tstep t g l c = some (g', l')) : LI g.now l' := by
  have hnow := hg.wf.now0
  obtain ⟨h1, h2, h3, h4, h5, h6, h7, h8, h9, h10⟩ := hl
  simp only [tstep, hpc] at hs
  li_auto hs

theorem li_self (t : Tid) (g : G K V) (l : L K V) (c : Choice K V) (g' : G K V) (l' : L K V)
    (hg : GI g) (hl : LI g.now l) (hs : tstep t g l c = some (g', l')) : LI g'.now l' := by
  rw [tstep_now t g l c g' l' hs]
  cases hpc : l.pc
  case idle =>
    simp only [tstep, hpc] at hs
    split at hs
    · simp only [Option.some.injEq, Prod.mk.injEq] at hs
      obtain ⟨rfl, rfl⟩ := hs
      exact li_startOp _ _ _
    · cases hs
  case setReadDflt => exact li_self_setReadDflt t g l c g' l' hg hl hpc hs
  case setReadClock => exact li_self_setReadClock t g l c g' l' hg hl hpc hs
  case setStore => exact li_self_setStore t g l c g' l' hg hl hpc hs
  case getLoad => exact li_self_getLoad t g l c g' l' hg hl hpc hs
  case getChkClock => exact li_self_getChkClock t g l c g' l' hg hl hpc hs
  case getCompute => exact li_self_getCompute t g l c g' l' hg hl hpc hs
  case getTTLClock => exact li_self_getTTLClock t g l c g' l' hg hl hpc hs
  case rmw => exact li_self_rmw t g l c g' l' hg hl hpc hs
  case gdCompute => exact li_self_gdCompute t g l c g' l' hg hl hpc hs
  case gdReadCb => exact li_self_gdReadCb t g l c g' l' hg hl hpc hs
  case gdFire => exact li_self_gdFire t g l c g' l' hg hl hpc hs
  case deReadCb => exact li_self_deReadCb t g l c g' l' hg hl hpc hs
  case deReadClock => exact li_self_deReadClock t g l c g' l' hg hl hpc hs
  case deVisit => exact li_self_deVisit t g l c g' l' hg hl hpc hs
  case deCompute => exact li_self_deCompute t g l c g' l' hg hl hpc hs
  case deFire => exact li_self_deFire t g l c g' l' hg hl hpc hs
  case clClear => exact li_self_clClear t g l c g' l' hg hl hpc hs
  case cntSize => exact li_self_cntSize t g l c g' l' hg hl hpc hs
  case sdStore => exact li_self_sdStore t g l c g' l' hg hl hpc hs
  case scStore => exact li_self_scStore t g l c g' l' hg hl hpc hs
  case ret => exact li_self_ret t g l c g' l' hg hl hpc hs

/-! ## The global invariant is preserved by every thread step -/

/-- the pcs whose step writes a shared (or ghost shared) variable -/
def sharedPc : Pc → Bool
  | .setStore | .getCompute | .rmw | .gdCompute | .gdFire | .deCompute | .deFire | .clClear | .sdStore | .scStore => true
  | _ => false

/-- every other step is purely local -/
theorem tstep_local (t : Tid) (g : G K V) (l : L K V) (c : Choice K V) (g' : G K V) (l' : L K V)
    (hp : sharedPc l.pc = false) (hs : tstep t g l c = some (g', l')) : g' = g := by
  cases hpc : l.pc <;> rw [hpc] at hp <;> simp only [sharedPc, reduceCtorEq] at hp <;>
    simp only [tstep, hpc] at hs <;>
    (repeat' split at hs) <;>
    simp only [Option.some.injEq, reduceCtorEq, Prod.mk.injEq] at hs <;>
    obtain ⟨rfl, rfl⟩ := hs <;> rfl

theorem sim_getFn (s : Cache.St K V) (a : TTL.St K V) (h : Sim s a) (k : K) :
    Sim { s with items := (s.items.compute k (getFn s)).1 } a := by
  rw [getFn_spec s s.items]
  cases hg : s.items.get k with
  | none => exact h
  | some i =>
    by_cases he : TTL.expired i.e s.now = true
    · simp only [he, if_true]
      exact sim_erase_dead s a h k (by simp [lget, hg, he])
    · simp only [he, Bool.false_eq_true, if_false]
      exact sim_restore s a h k i hg

theorem sweepFn_spec (pn : Int) (m : AMap K (Item V)) (k : K) :
    (m.compute k (Cache.sweepFn pn)).1 =
      match m.get k with
      | none => m
      | some c => if TTL.expired c.e pn then m.erase k else m.set k c := by
  cases hg : m.get k with
  | none => simp [AMap.compute, hg, Cache.sweepFn]
  | some c =>
    by_cases he : TTL.expired c.e pn = true <;> simp [AMap.compute, hg, Cache.sweepFn, item_expiredWithNow_eq, he]

theorem sim_sweepFn (s : Cache.St K V) (a : TTL.St K V) (h : Sim s a) (k : K) (pn : Int) (hpn : pn ≤ s.now) :
    Sim { s with items := (s.items.compute k (Cache.sweepFn pn)).1 } a := by
  rw [sweepFn_spec]
  cases hg : s.items.get k with
  | none => exact h
  | some i =>
    by_cases he : TTL.expired i.e pn = true
    · simp only [he, if_true]
      exact sim_erase_dead s a h k (by simp [lget, hg, expired_mono i.e pn s.now hpn he])
    · simp only [he, Bool.false_eq_true, if_false]
      exact sim_restore s a h k i hg

/-- the read-modify-write calls change nothing but the map -/
theorem rmw_frame (s : Cache.St K V) (op : COp K V) (h : opCls op = .rmw) :
    (Cache.step s (toSpec op)).1.now = s.now ∧ (Cache.step s (toSpec op)).1.dflt = s.dflt ∧
    (Cache.step s (toSpec op)).1.cb = s.cb := by
  cases op <;> simp only [opCls, reduceCtorEq] at h <;> simp only [toSpec, Cache.step] <;>
    (repeat' split) <;> first | exact ⟨rfl, rfl, rfl⟩ | simp

theorem sim_frame (s s' : Cache.St K V) (a : TTL.St K V) (h : Sim s' a) (h1 : s'.now = s.now) (h2 : s'.dflt = s.dflt)
    (h3 : s'.cb = s.cb) : Sim { s with items := s'.items } a := by
  cases s'; cases s; simp only at h1 h2 h3; subst h1; subst h2; subst h3; exact h

theorem gad_fst (s : Cache.St K V) (k : K) :
    (Cache.getAndDelete s k).1 = { s with items := (s.items.compute k fun _ => (default, true)).1 } := by
  unfold Cache.getAndDelete
  cases s.items.get k <;> rfl


theorem li_e_nonneg (now : Int) (l : L K V) (hl : LI now l) (hpc : l.pc = .setStore) : 0 ≤ l.e := by
  obtain ⟨t0, h0, _, he⟩ := hl.setE hpc
  rw [he]; split <;> omega

theorem gi_setStore (t : Tid) (g : G K V) (l : L K V) (c : Choice K V) (g' : G K V) (l' : L K V)
    (hg : GI g) (hl : LI g.now l) (hpc : l.pc = .setStore) (hs : tstep t g l c = some (g', l')) : GI g' := by
  have he0 := li_e_nonneg _ l hl hpc
  simp only [tstep, hpc] at hs
  split at hs
  · rename_i k v d ho
    simp only [Option.some.injEq, Prod.mk.injEq] at hs
    obtain ⟨rfl, rfl⟩ := hs
    by_cases he : TTL.expired l.e g.now = true
    · simp only [he, if_true]
      exact sim_store_dead (view g) g.abs hg k ⟨v, l.e⟩ he
    · simp only [he, Bool.false_eq_true, if_false]
      exact sim_store (view g) g.abs hg k ⟨v, l.e⟩ he0 (by simpa [view] using he)
  · cases hs

theorem gi_getCompute (t : Tid) (g : G K V) (l : L K V) (c : Choice K V) (g' : G K V) (l' : L K V)
    (hg : GI g) (hpc : l.pc = .getCompute) (hs : tstep t g l c = some (g', l')) : GI g' := by
  simp only [tstep, hpc] at hs
  split at hs
  · rename_i k op hk ho
    simp only [Option.some.injEq, Prod.mk.injEq] at hs
    obtain ⟨rfl, rfl⟩ := hs
    exact sim_getFn (view g) g.abs hg k
  · cases hs

theorem gi_rmw (t : Tid) (g : G K V) (l : L K V) (c : Choice K V) (g' : G K V) (l' : L K V)
    (hg : GI g) (hl : LI g.now l) (hpc : l.pc = .rmw) (hs : tstep t g l c = some (g', l')) : GI g' := by
  obtain ⟨op', ho', hc⟩ := hl.cls .rmw (by rw [hpc]; rfl)
  simp only [tstep, hpc] at hs
  split at hs
  · rename_i op ho
    have hop : op = op' := by rw [ho] at ho'; exact Option.some.inj ho'
    subst hop
    simp only [Option.some.injEq, Prod.mk.injEq] at hs
    obtain ⟨rfl, rfl⟩ := hs
    obtain ⟨f1, f2, f3⟩ := rmw_frame (view g) op hc
    exact sim_frame (view g) _ _ (step_sim (view g) g.abs hg (toSpec op)).1 f1 f2 f3
  · cases hs

theorem opKey_gd (l : L K V) (op : COp K V) (k : K) (ho : l.op = some op) (hc : opCls op = .gd) (hk : opKey l = some k) :
    op = .getAndDelete k ∨ op = .delete k := by
  cases op <;> simp only [opCls, reduceCtorEq] at hc <;> simp [opKey, ho] at hk <;> simp [hk]

theorem gi_gdCompute (t : Tid) (g : G K V) (l : L K V) (c : Choice K V) (g' : G K V) (l' : L K V)
    (hg : GI g) (hl : LI g.now l) (hpc : l.pc = .gdCompute) (hs : tstep t g l c = some (g', l')) : GI g' := by
  obtain ⟨op', ho', hc⟩ := hl.cls .gd (by rw [hpc]; rfl)
  simp only [tstep, hpc] at hs
  split at hs
  · rename_i k op hk ho
    have hop : op = op' := by rw [ho] at ho'; exact Option.some.inj ho'
    subst hop
    simp only [Option.some.injEq, Prod.mk.injEq] at hs
    obtain ⟨rfl, rfl⟩ := hs
    rcases opKey_gd l op k ho hc hk with rfl | rfl
    · have := (step_sim (view g) g.abs hg (.getAndDelete k)).1
      simp only [Cache.step, gad_fst] at this
      exact this
    · have := (step_sim (view g) g.abs hg (.delete k)).1
      simp only [Cache.step, gad_fst] at this
      exact this
  · cases hs

theorem gi_deCompute (t : Tid) (g : G K V) (l : L K V) (c : Choice K V) (g' : G K V) (l' : L K V)
    (hg : GI g) (hl : LI g.now l) (hpc : l.pc = .deCompute) (hs : tstep t g l c = some (g', l')) : GI g' := by
  have hp := hl.pass (by rw [hpc]; rfl)
  simp only [tstep, hpc] at hs
  split at hs
  · rename_i k i hcur
    simp only [Option.some.injEq, Prod.mk.injEq] at hs
    obtain ⟨rfl, rfl⟩ := hs
    exact sim_sweepFn (view g) g.abs hg k l.passNow hp
  · cases hs

theorem gi_tstep (t : Tid) (g : G K V) (l : L K V) (c : Choice K V) (g' : G K V) (l' : L K V)
    (hg : GI g) (hl : LI g.now l) (hs : tstep t g l c = some (g', l')) : GI g' := by
  by_cases hsh : sharedPc l.pc = false
  · rw [tstep_local t g l c g' l' hsh hs]; exact hg
  · cases hpc : l.pc <;> rw [hpc] at hsh <;> simp only [sharedPc, not_true_eq_false] at hsh
    case setStore => exact gi_setStore t g l c g' l' hg hl hpc hs
    case getCompute => exact gi_getCompute t g l c g' l' hg hpc hs
    case rmw => exact gi_rmw t g l c g' l' hg hl hpc hs
    case gdCompute => exact gi_gdCompute t g l c g' l' hg hl hpc hs
    case deCompute => exact gi_deCompute t g l c g' l' hg hl hpc hs
    case gdFire =>
      simp only [tstep, hpc] at hs
      split at hs <;> simp only [Option.some.injEq, Prod.mk.injEq] at hs <;> obtain ⟨rfl, rfl⟩ := hs <;> exact hg
    case deFire =>
      simp only [tstep, hpc] at hs
      split at hs <;> simp only [Option.some.injEq, Prod.mk.injEq] at hs <;> obtain ⟨rfl, rfl⟩ := hs <;> exact hg
    case clClear =>
      simp only [tstep, hpc, Option.some.injEq, Prod.mk.injEq] at hs
      obtain ⟨rfl, rfl⟩ := hs
      exact (step_sim (view g) g.abs hg .clear).1
    case sdStore =>
      simp only [tstep, hpc] at hs
      split at hs
      · simp only [Option.some.injEq, Prod.mk.injEq] at hs
        obtain ⟨rfl, rfl⟩ := hs
        exact (step_sim (view g) g.abs hg (.setDefaultExpiration _)).1
      · cases hs
    case scStore =>
      simp only [tstep, hpc] at hs
      split at hs
      · simp only [Option.some.injEq, Prod.mk.injEq] at hs
        obtain ⟨rfl, rfl⟩ := hs
        exact (step_sim (view g) g.abs hg (.setEvictedCallback _)).1
      · cases hs

/-! ## Lifting to the global transition system (Owicki–Gries) -/

theorem gi_init (dflt : Int) (cb : Option Nat) (now : Int) (h0 : 0 ≤ now) : GI (init (K := K) (V := V) dflt cb now).g := by
  refine ⟨⟨AMap.WF_nil, ?_, h0⟩, AMap.WF_nil, rfl, rfl, rfl, ?_⟩
  · intro p hp; cases hp
  · intro k; rfl

/-- the invariant of the concurrent system: the global simulation relation and every thread's local invariant -/
def Inv (s : St K V) : Prop := GI s.g ∧ ∀ u, LI s.g.now (s.l u)

theorem inv_init (dflt : Int) (cb : Option Nat) (now : Int) (h0 : 0 ≤ now) : Inv (init (K := K) (V := V) dflt cb now) :=
  ⟨gi_init dflt cb now h0, fun _ => li_init _⟩

/-- a clock tick preserves the simulation (the spec's `tick` drops what has just expired) -/
theorem gi_tick (g : G K V) (δ : Nat) (hg : GI g) :
    GI { g with now := g.now + δ, abs := (TTL.step g.abs (.tick δ)).1 } :=
  (step_sim (view g) g.abs hg (.tick δ)).1

/-- another thread's step does not disturb a thread's local invariant: locals are private, and the only
global the local invariant mentions is the clock, which no thread step changes -/
theorem li_other (t : Tid) (g : G K V) (l m : L K V) (c : Choice K V) (g' : G K V) (l' : L K V)
    (hm : LI g.now m) (hs : tstep t g l c = some (g', l')) : LI g'.now m := by
  rw [tstep_now t g l c g' l' hs]; exact hm

theorem inv_step (s s' : St K V) (w : Option Tid) (c : Choice K V) (δ : Nat) (h : Inv s)
    (hs : step s w c δ = some s') : Inv s' := by
  unfold step at hs
  cases w with
  | none =>
    simp only [Option.some.injEq] at hs; subst hs
    exact ⟨gi_tick s.g δ h.1, fun u => li_mono s.g.now _ _ (by simp only; omega) (h.2 u)⟩
  | some t =>
    simp only at hs
    split at hs
    · cases hs
    · rename_i g' l' heq
      simp only [Option.some.injEq] at hs; subst hs
      refine ⟨gi_tstep t s.g (s.l t) c g' l' h.1 (h.2 t) heq, fun u => ?_⟩
      by_cases hu : u = t
      · subst hu
        simpa using li_self u s.g (s.l u) c g' l' h.1 (h.2 u) heq
      · simpa [hu] using li_other t s.g (s.l t) (s.l u) c g' l' (h.2 u) heq

/-- `GI` is preserved by every step from a state satisfying the invariant -/
theorem gi_step (s s' : St K V) (w : Option Tid) (c : Choice K V) (δ : Nat) (h : Inv s)
    (hs : step s w c δ = some s') : GI s'.g := (inv_step s s' w c δ h hs).1

theorem inv_run (sched : List (Option Tid × Choice K V × Nat)) :
    ∀ (s s' : St K V), Inv s → run s sched = some s' → Inv s' := by
  induction sched with
  | nil => intro s s' h hr; simp only [run, Option.some.injEq] at hr; subst hr; exact h
  | cons x rest ih =>
    obtain ⟨w, c, δ⟩ := x
    intro s s' h hr
    simp only [run] at hr
    split at hr
    · rename_i s1 hs1
      exact ih s1 s' (inv_step s s1 w c δ h hs1) hr
    · cases hr

theorem inv_reach (dflt : Int) (cb : Option Nat) (now : Int) (s : St K V) (h0 : 0 ≤ now)
    (hr : Reach dflt cb now s) : Inv s := by
  obtain ⟨sched, hs⟩ := hr
  exact inv_run sched _ s (inv_init dflt cb now h0) hs

theorem gi_reach (dflt : Int) (cb : Option Nat) (now : Int) (s : St K V) (hr : Reach dflt cb now s) (h0 : 0 ≤ now) :
    GI s.g := (inv_reach dflt cb now s h0 hr).1

/-! ## Linearization points -/

/-- the pcs whose step is a linearization point -/
def lpPc : Pc → Bool
  | .setStore | .rmw | .gdCompute | .clClear | .sdStore | .scStore | .getCompute => true
  | _ => false

/-- **Non-linearization steps do not change the abstract state.** -/
theorem abs_frame (t : Tid) (g : G K V) (l : L K V) (c : Choice K V) (g' : G K V) (l' : L K V)
    (hp : lpPc l.pc = false) (hs : tstep t g l c = some (g', l')) : g'.abs = g.abs := by
  cases hpc : l.pc <;> rw [hpc] at hp <;> simp only [lpPc, reduceCtorEq] at hp <;>
    simp only [tstep, hpc] at hs <;>
    (repeat' split at hs) <;>
    simp only [Option.some.injEq, reduceCtorEq, Prod.mk.injEq] at hs <;>
    obtain ⟨rfl, rfl⟩ := hs <;> rfl

/-- the only steps that enter `getTTLClock` are the clock check of the hit path and the double-checked `Compute` -/
theorem into_getTTLClock (t : Tid) (g : G K V) (l : L K V) (c : Choice K V) (g' : G K V) (l' : L K V)
    (hs : tstep t g l c = some (g', l')) (h : l'.pc = .getTTLClock) : l.pc = .getChkClock ∨ l.pc = .getCompute := by
  cases hpc : l.pc
  case getChkClock => exact Or.inl rfl
  case getCompute => exact Or.inr rfl
  case idle =>
    exfalso
    simp only [tstep, hpc] at hs
    split at hs
    · simp only [Option.some.injEq, Prod.mk.injEq] at hs
      obtain ⟨rfl, rfl⟩ := hs
      rename_i op _
      cases op <;> simp only [startOp, reduceCtorEq] at h
      split at h <;> cases h
    · cases hs
  all_goals
    (exfalso; simp only [tstep, hpc] at hs
     (repeat' split at hs) <;>
     simp only [Option.some.injEq, reduceCtorEq, Prod.mk.injEq] at hs <;>
     obtain ⟨rfl, rfl⟩ := hs <;> simp [hpc] at h)

theorem not_into_getTTLClock (t : Tid) (g : G K V) (l : L K V) (c : Choice K V) (g' : G K V) (l' : L K V)
    (hs : tstep t g l c = some (g', l')) (h1 : l.pc ≠ .getChkClock) (h2 : l.pc ≠ .getCompute) : l'.pc ≠ .getTTLClock :=
  fun h => (into_getTTLClock t g l c g' l' hs h).elim h1 h2

/-- what a linearization point establishes about the call's result.  Either the step assigns the result, and it is
(logically) the spec's answer on the ghost abstract state.  Or — `GetWithTTL k` whose double-checked `Compute` finds
the abstract binding `i` of `k` with an expiration instant (`0 < i.e`) — no result is assigned yet: the spec's answer at
this instant is `valTTL i.v (i.e - g.now) true`; the call keeps `i` (`loaded`) and goes on to `getTTLClock`, whose step
reports value and flag of that answer and the lifetime `i.e - now'` against the clock `now' ≥ g.now` it reads then
(`get_ttl_clock`, `getWithTTL_second_clock`). -/
def LPRes (g : G K V) (op : COp K V) (l' : L K V) : Prop :=
  (l'.pc ≠ .getTTLClock ∧ ∃ res, l'.result = some res ∧ logical res = (TTL.step g.abs (toSpec op)).2.1) ∨
  (∃ k i, op = .getWithTTL k ∧ g.abs.live.get k = some i ∧ 0 < i.e ∧
      (TTL.step g.abs (toSpec op)).2.1 = .valTTL i.v (i.e - g.now) true ∧
      l'.pc = .getTTLClock ∧ l'.loaded = some i)

/-- what a linearization point (other than `Set`'s `Store`) must establish: the result (`LPRes`), and the ghost
abstract state advances by the spec step -/
def LPOk (g : G K V) (op : COp K V) (g' : G K V) (l' : L K V) : Prop :=
  LPRes g op l' ∧ g'.abs = (TTL.step g.abs (toSpec op)).1

theorem lp_rmw (t : Tid) (g : G K V) (l : L K V) (c : Choice K V) (g' : G K V) (l' : L K V) (op : COp K V)
    (hg : GI g) (hl : LI g.now l) (hpc : l.pc = .rmw) (ho : l.op = some op)
    (hs : tstep t g l c = some (g', l')) : LPOk g op g' l' := by
  have hne : l'.pc ≠ .getTTLClock := not_into_getTTLClock t g l c g' l' hs (by rw [hpc]; decide) (by rw [hpc]; decide)
  obtain ⟨op', ho', hc⟩ := hl.cls .rmw (by rw [hpc]; rfl)
  have hop : op = op' := by rw [ho] at ho'; exact Option.some.inj ho'
  subst hop
  simp only [tstep, hpc, ho, Option.some.injEq, Prod.mk.injEq] at hs
  obtain ⟨rfl, rfl⟩ := hs
  refine ⟨Or.inl ⟨hne, _, rfl, ?_⟩, rfl⟩
  have := (step_sim (view g) g.abs hg (toSpec op)).2.1
  cases op <;> simp only [opCls, reduceCtorEq] at hc <;> exact this

theorem lp_gdCompute (t : Tid) (g : G K V) (l : L K V) (c : Choice K V) (g' : G K V) (l' : L K V) (op : COp K V)
    (hg : GI g) (hl : LI g.now l) (hpc : l.pc = .gdCompute) (ho : l.op = some op)
    (hs : tstep t g l c = some (g', l')) : LPOk g op g' l' := by
  have hne : l'.pc ≠ .getTTLClock := not_into_getTTLClock t g l c g' l' hs (by rw [hpc]; decide) (by rw [hpc]; decide)
  obtain ⟨op', ho', hc⟩ := hl.cls .gd (by rw [hpc]; rfl)
  have hop : op = op' := by rw [ho] at ho'; exact Option.some.inj ho'
  subst hop
  simp only [tstep, hpc] at hs
  split at hs
  · rename_i k op1 hk ho1
    have hop : op = op1 := by rw [ho] at ho1; exact Option.some.inj ho1
    subst hop
    simp only [Option.some.injEq, Prod.mk.injEq] at hs
    obtain ⟨rfl, rfl⟩ := hs
    rcases opKey_gd l op k ho hc hk with rfl | rfl
    · refine ⟨Or.inl ⟨hne, _, rfl, ?_⟩, rfl⟩
      simp only [toSpec, TTL.step, hg.get k, lget, view, expired_eq]
      cases hgk : g.items.get k with
      | none => rfl
      | some i => by_cases he : TTL.expired i.e g.now = true <;> simp [he, logical]
    · exact ⟨Or.inl ⟨hne, _, rfl, rfl⟩, rfl⟩
  · cases hs

theorem opKey_get (l : L K V) (op : COp K V) (k : K) (ho : l.op = some op) (hc : opCls op = .get) (hk : opKey l = some k) :
    op = .get k ∨ op = .getWithExpiration k ∨ op = .getWithTTL k := by
  cases op <;> simp only [opCls, reduceCtorEq] at hc <;> simp [opKey, ho] at hk <;> simp [hk]

theorem lp_getCompute (t : Tid) (g : G K V) (l : L K V) (c : Choice K V) (g' : G K V) (l' : L K V) (op : COp K V)
    (hg : GI g) (hl : LI g.now l) (hpc : l.pc = .getCompute) (ho : l.op = some op)
    (hs : tstep t g l c = some (g', l')) : LPOk g op g' l' := by
  obtain ⟨op', ho', hc⟩ := hl.cls .get (by rw [hpc]; rfl)
  have hop : op = op' := by rw [ho] at ho'; exact Option.some.inj ho'
  subst hop
  obtain ⟨k, op1, hk, ho1, hg', hm⟩ := getCompute_step t g l c g' l' hpc hs
  have hop : op = op1 := by rw [ho] at ho1; exact Option.some.inj ho1
  subst hop
  have hab := hg.get k
  have hnow := hg.now
  simp only [lget, view] at hab hnow
  have habs : g'.abs = g.abs := by rw [hg']
  have hspec : (TTL.step g.abs (toSpec op)).1 = g.abs := by
    rcases opKey_get l op k ho hc hk with rfl | rfl | rfl <;> simp only [toSpec, TTL.step] <;> split <;> rfl
  refine ⟨?_, by rw [habs, hspec]⟩
  have hmiss : g.abs.live.get k = none → LPRes g op { l with pc := .ret, result := some (missResult op) } := by
    intro hab
    rcases opKey_get l op k ho hc hk with rfl | rfl | rfl <;>
      exact Or.inl ⟨(fun h => nomatch h), _, rfl, by simp [toSpec, TTL.step, hab, missResult, logical]⟩
  cases hgk : g.items.get k with
  | none =>
    rw [hgk] at hab hm
    rw [hm.2]; exact hmiss hab
  | some i =>
    rw [hgk] at hab hm
    by_cases he : TTL.expired i.e g.now = true
    · simp only [he, if_true] at hab hm
      rw [hm.2]; exact hmiss hab
    · simp only [he, Bool.false_eq_true, if_false] at hab hm
      rw [hm.2]
      rcases afterHit_cases l op i g.now with ⟨hno, h⟩ | ⟨k', rfl, hpos, h⟩ <;> rw [h]
      · left
        rcases opKey_get l op k ho hc hk with rfl | rfl | rfl
        · exact ⟨(fun h => nomatch h), _, rfl, by simp [toSpec, TTL.step, hab, hitResult, logical]⟩
        · refine ⟨(fun h => nomatch h), _, rfl, ?_⟩
          simp only [toSpec, TTL.step, hab, hitResult, logical]
          by_cases h0 : i.e > 0
          · simp [h0]
          · have : i.e = 0 := by
              have := hg.wf.epos (k, i) (AMap.mem_of_get _ _ _ hgk)
              simp only at this; omega
            simp [this]
        · have h0 : ¬ 0 < i.e := fun h0 => hno ⟨k, rfl, h0⟩
          exact ⟨(fun h => nomatch h), _, rfl, by simp [toSpec, TTL.step, hab, hitResult, logical, h0, NoExpiration_eq]⟩
      · right
        have hkk : k' = k := by simpa [opKey, ho] using hk
        subst hkk
        exact ⟨k', i, rfl, hab, hpos, by simp [toSpec, TTL.step, hab, hpos, hnow], rfl, rfl⟩

theorem lp_simple (t : Tid) (g : G K V) (l : L K V) (c : Choice K V) (g' : G K V) (l' : L K V) (op : COp K V)
    (hl : LI g.now l) (hpc : l.pc = .clClear ∨ l.pc = .sdStore ∨ l.pc = .scStore) (ho : l.op = some op)
    (hs : tstep t g l c = some (g', l')) : LPOk g op g' l' := by
  rcases hpc with hpc | hpc | hpc <;>
    have hne : l'.pc ≠ .getTTLClock := not_into_getTTLClock t g l c g' l' hs (by rw [hpc]; decide) (by rw [hpc]; decide)
  · obtain ⟨op', ho', hc⟩ := hl.cls .clear (by rw [hpc]; rfl)
    have hop : op = op' := by rw [ho] at ho'; exact Option.some.inj ho'
    subst hop
    simp only [tstep, hpc, Option.some.injEq, Prod.mk.injEq] at hs
    obtain ⟨rfl, rfl⟩ := hs
    cases op <;> simp only [opCls, reduceCtorEq] at hc
    exact ⟨Or.inl ⟨hne, _, rfl, rfl⟩, rfl⟩
  · simp only [tstep, hpc, ho] at hs
    split at hs
    · rename_i d hd
      cases hd
      simp only [Option.some.injEq, Prod.mk.injEq] at hs
      obtain ⟨rfl, rfl⟩ := hs
      exact ⟨Or.inl ⟨hne, _, rfl, rfl⟩, rfl⟩
    · cases hs
  · simp only [tstep, hpc, ho] at hs
    split at hs
    · rename_i d hd
      cases hd
      simp only [Option.some.injEq, Prod.mk.injEq] at hs
      obtain ⟨rfl, rfl⟩ := hs
      exact ⟨Or.inl ⟨hne, _, rfl, rfl⟩, rfl⟩
    · cases hs

/-- the abstract effect of `Set`'s `Store`: "store with the instant computed from the earlier clock reading `t0`" -/
def SetStoreSpec (g : G K V) (l : L K V) (op : COp K V) (g' : G K V) : Prop :=
  ∃ k v d t0, op = .set k v d ∧ 0 ≤ t0 ∧ t0 ≤ g.now ∧ l.e = (if l.d > 0 then t0 + l.d else 0) ∧
    (d ≠ TTL.DefaultExpiration → l.d = d ∧ ∀ dflt, l.e = TTL.expiration d dflt t0) ∧
    g'.abs = { g.abs with live := if TTL.expired l.e g.now then g.abs.live.erase k else g.abs.live.set k ⟨v, l.e⟩ }

/-- `Set`'s linearization point is its `Store`.  The stored instant `l.e` was computed from the clock value `t0`
read earlier in the call (`t0 ≤ now`), so the abstract effect is "store with that instant": a store whose instant
has already passed is logically an erase.  When the call's TTL argument is not `DefaultExpiration` the instant is
the spec's `expiration d _ t0`. -/
theorem lp_setStore (t : Tid) (g : G K V) (l : L K V) (c : Choice K V) (g' : G K V) (l' : L K V) (op : COp K V)
    (hl : LI g.now l) (hpc : l.pc = .setStore) (ho : l.op = some op)
    (hs : tstep t g l c = some (g', l')) :
    l'.result = some .unit ∧ (TTL.step g.abs (toSpec op)).2.1 = .unit ∧ SetStoreSpec g l op g' := by
  obtain ⟨t0, h0, h1, he⟩ := hl.setE hpc
  simp only [tstep, hpc, ho] at hs
  split at hs
  · rename_i k v d hd
    cases hd
    simp only [Option.some.injEq, Prod.mk.injEq] at hs
    obtain ⟨rfl, rfl⟩ := hs
    refine ⟨rfl, rfl, k, v, d, t0, rfl, h0, h1, he, ?_, rfl⟩
    intro hd
    have := ((hl.setD k v d ho).2 (Or.inr hpc) (by rwa [DefaultExpiration_eq]))
    refine ⟨this, fun dflt => ?_⟩
    rw [he, this]
    simp [TTL.expiration, hd]
  · cases hs

/-- **Linearization points return the spec's answer**: at every linearization-point pc, from a state satisfying the
invariants, the assigned result is (logically) the result of the spec step of the call on the ghost abstract
state, and the ghost abstract state advances by that spec step; for `Set`'s `Store` the abstract effect is
`SetStoreSpec`.  The one linearization point that does not assign the result is the double-checked `Compute` of a
`GetWithTTL k` that finds the abstract binding `i` of `k` with an expiration instant: the spec's answer at that
instant is `valTTL i.v (i.e - g.now) true`; the call keeps `i` and reports, at its `getTTLClock` step, the same
value and flag and the lifetime `i.e - now'` for the clock `now' ≥ g.now` read at that later step
(`get_ttl_clock`, `getWithTTL_second_clock`). -/
theorem lp_result (t : Tid) (g : G K V) (l : L K V) (c : Choice K V) (g' : G K V) (l' : L K V) (op : COp K V)
    (hg : GI g) (hl : LI g.now l) (hlp : lpPc l.pc = true) (ho : l.op = some op)
    (hs : tstep t g l c = some (g', l')) :
    ((l'.pc ≠ .getTTLClock ∧ ∃ res, l'.result = some res ∧ logical res = (TTL.step g.abs (toSpec op)).2.1) ∨
     (∃ k i, l.pc = .getCompute ∧ op = .getWithTTL k ∧ g.abs.live.get k = some i ∧ 0 < i.e ∧
        (TTL.step g.abs (toSpec op)).2.1 = .valTTL i.v (i.e - g.now) true ∧
        l'.pc = .getTTLClock ∧ l'.loaded = some i)) ∧
      (l.pc ≠ .setStore → g'.abs = (TTL.step g.abs (toSpec op)).1) ∧
      (l.pc = .setStore → SetStoreSpec g l op g') := by
  cases hpc : l.pc <;> rw [hpc] at hlp <;> simp only [lpPc, reduceCtorEq] at hlp
  case setStore =>
    obtain ⟨h1, h2, h3⟩ := lp_setStore t g l c g' l' op hl hpc ho hs
    exact ⟨Or.inl ⟨not_into_getTTLClock t g l c g' l' hs (by rw [hpc]; decide) (by rw [hpc]; decide), .unit, h1, h2.symm⟩,
      fun h => absurd rfl h, fun _ => h3⟩
  case rmw =>
    obtain ⟨h1, h3⟩ := lp_rmw t g l c g' l' op hg hl hpc ho hs
    exact ⟨h1.elim Or.inl (fun ⟨_, _, _, _, _, _, hp, _⟩ => absurd hp
      (not_into_getTTLClock t g l c g' l' hs (by rw [hpc]; decide) (by rw [hpc]; decide))), fun _ => h3, fun h => nomatch h⟩
  case gdCompute =>
    obtain ⟨h1, h3⟩ := lp_gdCompute t g l c g' l' op hg hl hpc ho hs
    exact ⟨h1.elim Or.inl (fun ⟨_, _, _, _, _, _, hp, _⟩ => absurd hp
      (not_into_getTTLClock t g l c g' l' hs (by rw [hpc]; decide) (by rw [hpc]; decide))), fun _ => h3, fun h => nomatch h⟩
  case getCompute =>
    obtain ⟨h1, h3⟩ := lp_getCompute t g l c g' l' op hg hl hpc ho hs
    exact ⟨h1.imp id (fun ⟨k, i, h⟩ => ⟨k, i, rfl, h⟩), fun _ => h3, fun h => nomatch h⟩
  case clClear =>
    obtain ⟨h1, h3⟩ := lp_simple t g l c g' l' op hl (Or.inl hpc) ho hs
    exact ⟨h1.elim Or.inl (fun ⟨_, _, _, _, _, _, hp, _⟩ => absurd hp
      (not_into_getTTLClock t g l c g' l' hs (by rw [hpc]; decide) (by rw [hpc]; decide))), fun _ => h3, fun h => nomatch h⟩
  case sdStore =>
    obtain ⟨h1, h3⟩ := lp_simple t g l c g' l' op hl (Or.inr (Or.inl hpc)) ho hs
    exact ⟨h1.elim Or.inl (fun ⟨_, _, _, _, _, _, hp, _⟩ => absurd hp
      (not_into_getTTLClock t g l c g' l' hs (by rw [hpc]; decide) (by rw [hpc]; decide))), fun _ => h3, fun h => nomatch h⟩
  case scStore =>
    obtain ⟨h1, h3⟩ := lp_simple t g l c g' l' op hl (Or.inr (Or.inr hpc)) ho hs
    exact ⟨h1.elim Or.inl (fun ⟨_, _, _, _, _, _, hp, _⟩ => absurd hp
      (not_into_getTTLClock t g l c g' l' hs (by rw [hpc]; decide) (by rw [hpc]; decide))), fun _ => h3, fun h => nomatch h⟩

/-- a linearization point that leaves the result to a later step is `GetWithTTL`'s `Compute`, and nothing else:
every other linearization point assigns the result in the step itself -/
theorem lp_assigns_result (t : Tid) (g : G K V) (l : L K V) (c : Choice K V) (g' : G K V) (l' : L K V) (op : COp K V)
    (hg : GI g) (hl : LI g.now l) (hlp : lpPc l.pc = true) (ho : l.op = some op)
    (hs : tstep t g l c = some (g', l')) (hne : l'.pc ≠ .getTTLClock) :
    ∃ res, l'.result = some res ∧ logical res = (TTL.step g.abs (toSpec op)).2.1 := by
  rcases (lp_result t g l c g' l' op hg hl hlp ho hs).1 with h | ⟨_, _, _, _, _, _, _, h, _⟩
  · exact h.2
  · exact absurd h hne

/-! ## Hindsight for the `Get` family -/

/-- the lock-free `Load`: records (ghost) the abstract binding of the key and the clock at this instant; a miss
returns immediately, and then the key is abstractly absent at this instant; a hit `i` goes on to the clock check,
and the abstract binding at this instant is `i` unless `i` is already expired -/
theorem get_load (t : Tid) (g : G K V) (l : L K V) (c : Choice K V) (g' : G K V) (l' : L K V)
    (hg : GI g) (hpc : l.pc = .getLoad) (hs : tstep t g l c = some (g', l')) :
    ∃ k op, opKey l = some k ∧ l.op = some op ∧ g' = g ∧ l'.absAtLoad = g.abs.live.get k ∧ l'.nowAtLoad = g.now ∧
      ((g.items.get k = none ∧ l'.pc = .ret ∧ l'.result = some (missResult op) ∧ l'.absAtLoad = none) ∨
       (∃ i, g.items.get k = some i ∧ l'.pc = .getChkClock ∧ l'.loaded = some i ∧
          l'.absAtLoad = if TTL.expired i.e g.now then none else some i)) := by
  simp only [tstep, hpc] at hs
  split at hs
  · rename_i k op hk ho
    have hab := hg.get k
    simp only [lget, view] at hab
    split at hs
    · rename_i x hld
      have hgk := load_false _ _ _ hld
      rw [hgk] at hab
      simp only [Option.some.injEq, Prod.mk.injEq] at hs
      obtain ⟨rfl, rfl⟩ := hs
      exact ⟨k, op, hk, ho, rfl, rfl, rfl, Or.inl ⟨hgk, rfl, rfl, hab⟩⟩
    · rename_i i hld
      have hgk := load_true _ _ _ hld
      rw [hgk] at hab
      simp only [Option.some.injEq, Prod.mk.injEq] at hs
      obtain ⟨rfl, rfl⟩ := hs
      exact ⟨k, op, hk, ho, rfl, rfl, rfl, Or.inr ⟨i, hgk, rfl, rfl, hab⟩⟩
  · cases hs

/-- **Hindsight**: when a `Get`-family call passes the clock check with the loaded item `i` (`i` unexpired at the
clock `g.now` read at this step), `i` was the abstract binding of the key at the instant of the call's `Load`
(`l.absAtLoad = some i`, recorded at clock `l.nowAtLoad ≤ now`, an instant inside the call).  Then either the call
returns here with `hitResult op i g.now` — every call of the family except `GetWithTTL` of an entry with an
expiration instant — or (`GetWithTTL`, `0 < i.e`) it keeps `i` (`loaded`) and goes on to `getTTLClock`, where it reads
the clock a second time to compute the remaining lifetime (`get_ttl_clock`).  Otherwise (`i` expired at `g.now`) the
call goes on to the double-checked `Compute` (a linearization point). -/
theorem get_hindsight (t : Tid) (g : G K V) (l : L K V) (c : Choice K V) (g' : G K V) (l' : L K V)
    (hl : LI g.now l) (hpc : l.pc = .getChkClock) (hs : tstep t g l c = some (g', l')) :
    g' = g ∧ ∃ i op, l.loaded = some i ∧ l.op = some op ∧ l.nowAtLoad ≤ g.now ∧
      (l.absAtLoad = if TTL.expired i.e l.nowAtLoad then none else some i) ∧
      ((TTL.expired i.e g.now = false ∧ l.absAtLoad = some i ∧
          (((¬ ∃ k, op = .getWithTTL k ∧ 0 < i.e) ∧ l'.pc = .ret ∧ l'.result = some (hitResult op i g.now)) ∨
           (∃ k, op = .getWithTTL k ∧ 0 < i.e ∧ l'.pc = .getTTLClock ∧ l'.loaded = some i ∧ l'.result = l.result))) ∨
       (TTL.expired i.e g.now = true ∧ l'.pc = .getCompute ∧ l'.result = l.result)) := by
  obtain ⟨i, hi, hn, ha⟩ := hl.hind hpc
  simp only [tstep, hpc] at hs
  split at hs
  · rename_i i' op hi' ho
    have : i' = i := by rw [hi] at hi'; exact (Option.some.inj hi').symm
    subst this
    rw [item_expired_eq] at hs
    by_cases he : TTL.expired i'.e g.now = true
    · simp only [he, Bool.not_true, Bool.false_eq_true, if_false, Option.some.injEq, Prod.mk.injEq] at hs
      obtain ⟨rfl, rfl⟩ := hs
      exact ⟨rfl, i', op, hi, ho, hn, ha, Or.inr ⟨he, rfl, rfl⟩⟩
    · have he' : TTL.expired i'.e g.now = false := by simpa using he
      simp only [he', Bool.not_false, if_true, Option.some.injEq, Prod.mk.injEq] at hs
      obtain ⟨rfl, rfl⟩ := hs
      have hab : l.absAtLoad = some i' := by
        have : TTL.expired i'.e l.nowAtLoad = false := by
          cases h : TTL.expired i'.e l.nowAtLoad
          · rfl
          · rw [expired_mono _ _ _ hn h] at he'; cases he'
        rw [ha, this]; simp
      refine ⟨rfl, i', op, hi, ho, hn, ha, Or.inl ⟨he', hab, ?_⟩⟩
      rcases afterHit_cases l op i' g.now with ⟨hno, h⟩ | ⟨k, rfl, hpos, h⟩ <;> rw [h]
      · exact Or.inl ⟨hno, rfl, rfl⟩
      · exact Or.inr ⟨k, rfl, hpos, rfl, rfl, rfl⟩
  · cases hs

/-- **`GetWithTTL`'s second clock read**: a thread at `getTTLClock` holds the item `i` its call found
(`loaded = some i`, the `i` of `get_hindsight` resp. of the `GetWithTTL` clause of `lp_result`: locals are private
and the thread has not moved since), `i` has an expiration instant and was unexpired at the clock value `t0` the call
read when it found it (`nowAtLoad ≤ t0 ≤ now`).  The step touches nothing shared; it returns `i`'s value, `true`, and
the lifetime `i.e - g.now` against the clock *of this step* (which may have advanced since `t0`: the reported
lifetime is at most `i.e - t0`, and can be negative). -/
theorem get_ttl_clock (t : Tid) (g : G K V) (l : L K V) (c : Choice K V) (g' : G K V) (l' : L K V)
    (hl : LI g.now l) (hpc : l.pc = .getTTLClock) (hs : tstep t g l c = some (g', l')) :
    g' = g ∧ ∃ i k t0, l.loaded = some i ∧ l.op = some (.getWithTTL k) ∧ 0 < i.e ∧
      l.nowAtLoad ≤ t0 ∧ t0 ≤ g.now ∧ TTL.expired i.e t0 = false ∧
      l'.pc = .ret ∧ l'.result = some (.valTTL i.v (i.e - g.now) true) ∧ i.e - g.now ≤ i.e - t0 := by
  obtain ⟨i, k, t0, hi, ho, hpos, h1, h2, h3⟩ := hl.ttl hpc
  simp only [tstep, hpc, hi, Option.some.injEq, Prod.mk.injEq] at hs
  obtain ⟨rfl, rfl⟩ := hs
  exact ⟨rfl, i, k, t0, hi, ho, hpos, h1, h2, h3, rfl, rfl, by omega⟩

/-! ## Callbacks (C06) -/

theorem compute_delete (m : AMap K (Item V)) (k : K) :
    (m.compute k fun _ => (default, true)).1 = m.erase k := by
  cases hg : m.get k with
  | none => simp [AMap.compute, hg, AMap.erase_of_get_none _ _ hg]
  | some i => simp [AMap.compute, hg]

/-- `GetAndDelete`/`Delete`'s `Compute`: the key is gone afterwards, nothing else changes, and the item that was
there (if any) is remembered in `removed` (and in the ghost `erased`); only then does the call go on to fire the
callback -/
theorem gd_compute (t : Tid) (g : G K V) (l : L K V) (c : Choice K V) (g' : G K V) (l' : L K V)
    (hpc : l.pc = .gdCompute) (hs : tstep t g l c = some (g', l')) :
    ∃ k, opKey l = some k ∧ g'.items = g.items.erase k ∧ g'.items.get k = none ∧
      (∀ k', k' ≠ k → g'.items.get k' = g.items.get k') ∧ l'.removed = g.items.get k ∧ g'.ledger = g.ledger ∧
      match g.items.get k with
      | some i => l'.pc = .gdReadCb ∧ l'.erased = l.erased ++ [(k, i.v)]
      | none => l'.pc = .ret ∧ l'.erased = l.erased := by
  simp only [tstep, hpc] at hs
  split at hs
  · rename_i k op hk ho
    rw [compute_delete] at hs
    simp only [Option.some.injEq, Prod.mk.injEq] at hs
    obtain ⟨rfl, rfl⟩ := hs
    refine ⟨k, hk, rfl, AMap.get_erase_self _ _, fun k' hk' => AMap.get_erase_ne _ _ _ (Ne.symm hk'), rfl, rfl, ?_⟩
    cases g.items.get k <;> exact ⟨rfl, rfl⟩
  · cases hs

/-- one conditional delete of `DeleteExpired`: the current item of the key is removed (and logged for the
callback, when one was read at the start of the pass) exactly when it is expired at the pass's clock; otherwise
it stays in place -/
theorem de_compute (t : Tid) (g : G K V) (l : L K V) (c : Choice K V) (g' : G K V) (l' : L K V)
    (hpc : l.pc = .deCompute) (hs : tstep t g l c = some (g', l')) :
    ∃ k i0, l.cur = some (k, i0) ∧ l'.pc = .deVisit ∧ g'.ledger = g.ledger ∧
      (∀ k', k' ≠ k → g'.items.get k' = g.items.get k') ∧
      match g.items.get k with
      | none => g'.items = g.items ∧ l'.queue = l.queue ∧ l'.erased = l.erased
      | some cur =>
        if TTL.expired cur.e l.passNow then
          g'.items = g.items.erase k ∧ g'.items.get k = none ∧
          l'.queue = l.queue ++ (if l.ec.isSome then [(k, cur.v)] else []) ∧ l'.erased = l.erased ++ [(k, cur.v)]
        else g'.items = g.items.set k cur ∧ g'.items.get k = some cur ∧ l'.queue = l.queue ∧ l'.erased = l.erased := by
  simp only [tstep, hpc] at hs
  split at hs
  · rename_i k i0 hcur
    rw [sweepFn_spec] at hs
    simp only [Option.some.injEq, Prod.mk.injEq] at hs
    obtain ⟨rfl, rfl⟩ := hs
    refine ⟨k, i0, hcur, rfl, rfl, ?_, ?_⟩
    · intro k' hk'
      cases hgk : g.items.get k with
      | none => rfl
      | some cur =>
        simp only
        split
        · exact AMap.get_erase_ne _ _ _ (Ne.symm hk')
        · rw [AMap.get_set, if_neg (Ne.symm hk')]
    · cases hgk : g.items.get k with
      | none => simp
      | some cur =>
        by_cases he : TTL.expired cur.e l.passNow = true
        · simp [he, item_expiredWithNow_eq, AMap.get_erase_self]
        · simp [he, item_expiredWithNow_eq, AMap.get_set]
  · cases hs

/-- the ghost `erased` list is sound: an entry is appended exactly by a `Compute` of this thread that physically
removes that entry from the map in that very step (`startOp` resets the list) -/
theorem erased_step (t : Tid) (g : G K V) (l : L K V) (c : Choice K V) (g' : G K V) (l' : L K V)
    (hs : tstep t g l c = some (g', l')) :
    l'.erased = l.erased ∨ (l.pc = .idle ∧ l'.erased = []) ∨
    ∃ k i, (l.pc = .gdCompute ∨ l.pc = .deCompute) ∧ l'.erased = l.erased ++ [(k, i.v)] ∧
      g.items.get k = some i ∧ g'.items.get k = none := by
  by_cases h1 : l.pc = .gdCompute
  · obtain ⟨k, _, _, hn, _, _, _, hm⟩ := gd_compute t g l c g' l' h1 hs
    cases hgk : g.items.get k with
    | none => rw [hgk] at hm; exact Or.inl hm.2
    | some i => rw [hgk] at hm; exact Or.inr (Or.inr ⟨k, i, Or.inl h1, hm.2, hgk, hn⟩)
  · by_cases h2 : l.pc = .deCompute
    · obtain ⟨k, i0, _, _, _, _, hm⟩ := de_compute t g l c g' l' h2 hs
      cases hgk : g.items.get k with
      | none => rw [hgk] at hm; exact Or.inl hm.2.2
      | some i =>
        rw [hgk] at hm
        by_cases he : TTL.expired i.e l.passNow = true
        · simp only [he, if_true] at hm
          exact Or.inr (Or.inr ⟨k, i, Or.inr h2, hm.2.2.2, hgk, hm.2.1⟩)
        · simp only [he, Bool.false_eq_true, if_false] at hm
          exact Or.inl hm.2.2.2
    · cases hpc : l.pc <;> simp only [hpc, reduceCtorEq, not_true_eq_false] at h1 h2 <;>
        simp only [tstep, hpc] at hs
      case idle =>
        split at hs
        · simp only [Option.some.injEq, Prod.mk.injEq] at hs
          obtain ⟨rfl, rfl⟩ := hs
          rename_i op _
          exact Or.inr (Or.inl ⟨rfl, by cases op <;> rfl⟩)
        · cases hs
      all_goals
        ((repeat' split at hs) <;>
        simp only [Option.some.injEq, reduceCtorEq, Prod.mk.injEq] at hs <;>
        obtain ⟨rfl, rfl⟩ := hs <;> first | exact Or.inl rfl | exact Or.inl (afterHit_erased ..))

/-- **Every callback invocation reports an entry this thread removed earlier in the same call**: a step that
appends `(cb, k, v)` to the ledger is a `gdFire`/`deFire` step, the callback is the one the call read, and
`(k, v)` is in the thread's ghost list of entries its own `Compute`s physically removed during this call
(`erased_step`); every other step leaves the ledger alone -/
theorem ledger_only_removed (t : Tid) (g : G K V) (l : L K V) (c : Choice K V) (g' : G K V) (l' : L K V)
    (hl : LI g.now l) (hs : tstep t g l c = some (g', l')) :
    g'.ledger = g.ledger ∨
    ∃ cb k v, g'.ledger = g.ledger ++ [(cb, k, v)] ∧ l.ec = some cb ∧ (k, v) ∈ l.erased ∧ g'.items = g.items ∧
      ((l.pc = .gdFire ∧ opKey l = some k ∧ ∃ i, l.removed = some i ∧ i.v = v) ∨
       (l.pc = .deFire ∧ ∃ rest, l.queue = (k, v) :: rest ∧ l'.queue = rest)) := by
  cases hpc : l.pc <;> simp only [tstep, hpc] at hs
  case gdFire =>
    split at hs
    · rename_i k i cbid hk hr hec
      simp only [Option.some.injEq, Prod.mk.injEq] at hs
      obtain ⟨rfl, rfl⟩ := hs
      obtain ⟨i', hi', hmem⟩ := hl.rem (Or.inr hpc) k hk
      have : i' = i := by rw [hr] at hi'; exact (Option.some.inj hi').symm
      subst this
      exact Or.inr ⟨cbid, k, i'.v, rfl, hec, hmem, rfl, Or.inl ⟨rfl, hk, i', hr, rfl⟩⟩
    · simp only [Option.some.injEq, Prod.mk.injEq] at hs
      obtain ⟨rfl, rfl⟩ := hs
      exact Or.inl rfl
  case deFire =>
    split at hs
    · rename_i k v rest cbid hq hec
      simp only [Option.some.injEq, Prod.mk.injEq] at hs
      obtain ⟨rfl, rfl⟩ := hs
      exact Or.inr ⟨cbid, k, v, rfl, hec, hl.que (k, v) (by rw [hq]; exact List.mem_cons_self ..), rfl,
        Or.inr ⟨rfl, rest, hq, rfl⟩⟩
    · simp only [Option.some.injEq, Prod.mk.injEq] at hs
      obtain ⟨rfl, rfl⟩ := hs
      exact Or.inl rfl
  all_goals
    ((repeat' split at hs) <;>
    simp only [Option.some.injEq, reduceCtorEq, Prod.mk.injEq] at hs <;>
    obtain ⟨rfl, rfl⟩ := hs <;> exact Or.inl rfl)

/-- **The expiry-driven deletes never remove a live entry**: `DeleteExpired`'s conditional delete (decided with
the pass's clock `passNow ≤ now`) and `get`'s double-checked delete leave every entry that is unexpired at the
current clock in place -/
theorem never_removes_live (t : Tid) (g : G K V) (l : L K V) (c : Choice K V) (g' : G K V) (l' : L K V)
    (hl : LI g.now l) (hpc : l.pc = .deCompute ∨ l.pc = .getCompute) (hs : tstep t g l c = some (g', l')) :
    ∀ k' i, g.items.get k' = some i → TTL.expired i.e g.now = false → g'.items.get k' = some i := by
  intro k' i hgi hlive
  rcases hpc with hpc | hpc
  · have hp := hl.pass (by rw [hpc]; rfl)
    obtain ⟨k, i0, _, _, _, hoth, hm⟩ := de_compute t g l c g' l' hpc hs
    by_cases hk : k' = k
    · subst hk
      rw [hgi] at hm
      have : TTL.expired i.e l.passNow = false := by
        cases h : TTL.expired i.e l.passNow
        · rfl
        · rw [expired_mono _ _ _ hp h] at hlive; cases hlive
      simp only [this, Bool.false_eq_true, if_false] at hm
      exact hm.2.1
    · rw [hoth k' hk]; exact hgi
  · simp only [tstep, hpc] at hs
    split at hs
    · rename_i k op hk ho
      rw [compute_congr (f' := getFn (view g)), getFn_spec] at hs
      case h => intro o; cases o <;> rfl
      simp only [Option.some.injEq, Prod.mk.injEq] at hs
      obtain ⟨rfl, rfl⟩ := hs
      simp only [view]
      by_cases hk' : k' = k
      · subst hk'
        simp [hgi, hlive, AMap.get_set]
      · cases hgk : g.items.get k with
        | none => exact hgi
        | some j =>
          by_cases he : TTL.expired j.e g.now = true
          · simp only [he, if_true]
            rw [AMap.get_erase_ne _ _ _ (Ne.symm hk')]; exact hgi
          · simp only [he, Bool.false_eq_true, if_false]
            rw [AMap.get_set, if_neg (Ne.symm hk')]; exact hgi
    · cases hs

/-! ## Progress (C13 at cache level): no step of a call in flight is ever disabled -/

theorem cls_set (op : COp K V) (h : opCls op = .set) : ∃ k v d, op = .set k v d := by
  cases op <;> simp only [opCls, reduceCtorEq] at h; exact ⟨_, _, _, rfl⟩
theorem cls_sd (op : COp K V) (h : opCls op = .sd) : ∃ d, op = .setDefaultExpiration d := by
  cases op <;> simp only [opCls, reduceCtorEq] at h; exact ⟨_, rfl⟩
theorem cls_sc (op : COp K V) (h : opCls op = .sc) : ∃ d, op = .setEvictedCallback d := by
  cases op <;> simp only [opCls, reduceCtorEq] at h; exact ⟨_, rfl⟩
theorem cls_key (l : L K V) (op : COp K V) (ho : l.op = some op) (h : opCls op = .get ∨ opCls op = .gd) :
    ∃ k, opKey l = some k := by
  cases op <;> simp only [opCls, reduceCtorEq, or_self] at h <;> exact ⟨_, by unfold opKey; rw [ho]⟩

/-- every pc of a call in flight has an enabled step, whatever the shared state and the environment's choice;
an idle thread can start any call -/
theorem no_step_blocks (t : Tid) (g : G K V) (l : L K V) (c : Choice K V) (hl : LI g.now l)
    (h : l.pc ≠ .idle ∨ c.op.isSome = true) : (tstep t g l c).isSome = true := by
  cases hpc : l.pc <;> simp only [tstep, hpc]
  case idle =>
    rcases h with h | h
    · exact absurd hpc h
    · cases hc : c.op with
      | none => rw [hc] at h; cases h
      | some op => rfl
  case setStore =>
    obtain ⟨op, ho, hc⟩ := hl.cls .set (by rw [hpc]; rfl)
    obtain ⟨k, v, d, rfl⟩ := cls_set op hc
    simp [ho]
  case getLoad =>
    obtain ⟨op, ho, hc⟩ := hl.cls .get (by rw [hpc]; rfl)
    obtain ⟨k, hk⟩ := cls_key l op ho (Or.inl hc)
    simp only [hk, ho]
    split <;> rfl
  case getChkClock =>
    obtain ⟨op, ho, hc⟩ := hl.cls .get (by rw [hpc]; rfl)
    obtain ⟨i, hi, _⟩ := hl.hind hpc
    simp only [hi, ho]
    split <;> rfl
  case getCompute =>
    obtain ⟨op, ho, hc⟩ := hl.cls .get (by rw [hpc]; rfl)
    obtain ⟨k, hk⟩ := cls_key l op ho (Or.inl hc)
    simp only [hk, ho]; rfl
  case getTTLClock =>
    obtain ⟨i, _, _, hi, _⟩ := hl.ttl hpc
    simp only [hi]; rfl
  case rmw =>
    obtain ⟨op, ho, hc⟩ := hl.cls .rmw (by rw [hpc]; rfl)
    simp only [ho]; rfl
  case gdCompute =>
    obtain ⟨op, ho, hc⟩ := hl.cls .gd (by rw [hpc]; rfl)
    obtain ⟨k, hk⟩ := cls_key l op ho (Or.inr hc)
    simp only [hk, ho]; rfl
  case gdFire => split <;> rfl
  case deVisit => (repeat' split) <;> rfl
  case deCompute =>
    have := hl.cur hpc
    cases hcur : l.cur with
    | none => rw [hcur] at this; cases this
    | some p => obtain ⟨k, i⟩ := p; rfl
  case deFire => split <;> rfl
  case sdStore =>
    obtain ⟨op, ho, hc⟩ := hl.cls .sd (by rw [hpc]; rfl)
    obtain ⟨d, rfl⟩ := cls_sd op hc
    simp [ho]
  case scStore =>
    obtain ⟨op, ho, hc⟩ := hl.cls .sc (by rw [hpc]; rfl)
    obtain ⟨d, rfl⟩ := cls_sc op hc
    simp [ho]
  all_goals rfl

/-! ## Reachable states: the step-level theorems above apply to every step of every run -/

/-- every thread step of a reachable state is a `tstep` from a state satisfying the global invariant and the
stepping thread's local invariant (the hypotheses of `lp_result`, `get_hindsight`, `ledger_only_removed`, …) -/
theorem reach_tstep (dflt : Int) (cb : Option Nat) (now : Int) (h0 : 0 ≤ now) (s s' : St K V) (t : Tid)
    (c : Choice K V) (δ : Nat) (hr : Reach dflt cb now s) (hs : step s (some t) c δ = some s') :
    GI s.g ∧ LI s.g.now (s.l t) ∧ tstep t s.g (s.l t) c = some (s'.g, s'.l t) ∧ (∀ u, u ≠ t → s'.l u = s.l u) ∧
    Reach dflt cb now s' := by
  have hi := inv_reach dflt cb now s h0 hr
  refine ⟨hi.1, hi.2 t, ?_, ?_, ?_⟩
  · simp only [step] at hs
    split at hs
    · cases hs
    · rename_i g' l' heq
      simp only [Option.some.injEq] at hs; subst hs
      simpa using heq
  · intro u hu
    simp only [step] at hs
    split at hs
    · cases hs
    · simp only [Option.some.injEq] at hs; subst hs
      simp [hu]
  · obtain ⟨sched, hsched⟩ := hr
    refine ⟨sched ++ [(some t, c, δ)], ?_⟩
    have : ∀ (sc : List (Option Tid × Choice K V × Nat)) (a b : St K V), run a sc = some b →
        run a (sc ++ [(some t, c, δ)]) = step b (some t) c δ := by
      intro sc
      induction sc with
      | nil =>
        intro a b hab
        simp only [run, Option.some.injEq] at hab; subst hab
        simp only [List.nil_append, run]
        cases step a (some t) c δ <;> rfl
      | cons x rest ih =>
        obtain ⟨w, c', δ'⟩ := x
        intro a b hab
        simp only [run, List.cons_append] at hab ⊢
        cases hst : step a w c' δ' with
        | none => rw [hst] at hab; cases hab
        | some a' => rw [hst] at hab; exact ih a' b hab
    rw [this sched _ s hsched, hs]

/-! ## `GetWithTTL`, end to end: the item found at the hindsight / linearization point, the lifetime against a later clock -/

theorem run_append (sc1 sc2 : List (Option Tid × Choice K V × Nat)) :
    ∀ (a b : St K V), run a sc1 = some b → run a (sc1 ++ sc2) = run b sc2 := by
  induction sc1 with
  | nil => intro a b hab; simp only [run, Option.some.injEq] at hab; subst hab; rfl
  | cons x rest ih =>
    obtain ⟨w, c, δ⟩ := x
    intro a b hab
    simp only [run, List.cons_append] at hab ⊢
    cases hst : step a w c δ with
    | none => rw [hst] at hab; cases hab
    | some a' => rw [hst] at hab; exact ih a' b hab

theorem reach_run (dflt : Int) (cb : Option Nat) (now : Int) (s s' : St K V)
    (sched : List (Option Tid × Choice K V × Nat)) (hr : Reach dflt cb now s) (h : run s sched = some s') :
    Reach dflt cb now s' := by
  obtain ⟨sc, hsc⟩ := hr
  exact ⟨sc ++ sched, by rw [run_append sc sched _ s hsc, h]⟩

/-- the clock never goes back -/
theorem step_now_mono (s s' : St K V) (w : Option Tid) (c : Choice K V) (δ : Nat)
    (h : step s w c δ = some s') : s.g.now ≤ s'.g.now := by
  unfold step at h
  cases w with
  | none => simp only [Option.some.injEq] at h; subst h; simp only; omega
  | some t =>
    simp only at h
    split at h
    · cases h
    · rename_i g' l' heq
      simp only [Option.some.injEq] at h; subst h
      simp only [tstep_now t s.g (s.l t) c g' l' heq, Int.le_refl]

theorem run_now_mono (sched : List (Option Tid × Choice K V × Nat)) :
    ∀ (s s' : St K V), run s sched = some s' → s.g.now ≤ s'.g.now := by
  induction sched with
  | nil => intro s s' h; simp only [run, Option.some.injEq] at h; subst h; exact Int.le_refl _
  | cons x rest ih =>
    obtain ⟨w, c, δ⟩ := x
    intro s s' h
    simp only [run] at h
    split at h
    · rename_i s1 hs1
      exact Int.le_trans (step_now_mono s s1 w c δ hs1) (ih s1 s' h)
    · cases h

/-- a thread's locals are private: a run in which thread `t` takes no step leaves them alone -/
theorem run_quiet (t : Tid) (sched : List (Option Tid × Choice K V × Nat)) :
    ∀ (s s' : St K V), (∀ x ∈ sched, x.1 ≠ some t) → run s sched = some s' → s'.l t = s.l t := by
  induction sched with
  | nil => intro s s' _ h; simp only [run, Option.some.injEq] at h; subst h; rfl
  | cons x rest ih =>
    obtain ⟨w, c, δ⟩ := x
    intro s s' hq h
    simp only [run] at h
    split at h
    · rename_i s1 hs1
      rw [ih s1 s' (fun y hy => hq y (List.mem_cons_of_mem _ hy)) h]
      have hw : w ≠ some t := hq (w, c, δ) List.mem_cons_self
      unfold step at hs1
      cases w with
      | none => simp only [Option.some.injEq] at hs1; subst hs1; rfl
      | some u =>
        simp only at hs1
        split at hs1
        · cases hs1
        · simp only [Option.some.injEq] at hs1; subst hs1
          have : t ≠ u := fun h => hw (by rw [h])
          simp [this]
    · cases h

theorem lget_some (s : Cache.St K V) (k : K) (i : Item V) (h : lget s k = some i) :
    s.items.get k = some i ∧ TTL.expired i.e s.now = false := by
  unfold lget at h
  split at h
  · rename_i j hj
    split at h
    · cases h
    · rename_i he
      simp only [Option.some.injEq] at h; subst h
      exact ⟨hj, by simpa using he⟩
  · cases h

/-- **`GetWithTTL` end to end.**  Take any run: a step of thread `t` from a reachable state `s` brings it to
`getTTLClock` (state `s1`); then anything happens except steps of `t` (other threads, clock ticks: `sched`, reaching
`s2`); then `t` steps (to `s3`).  Then the call is a `GetWithTTL k`, and there is an item `i` with an expiration
instant, unexpired at the clock of `s`, such that
* either the first step was the clock check of the hit path, and `i` is the abstract binding of `k` at the instant of
  the call's lock-free `Load` (hindsight, `absAtLoad`; `nowAtLoad ≤` the clock of `s`; the step changes nothing shared),
* or the first step was the double-checked `Compute` — a linearization point, the abstract state is unchanged by it —
  and `i` is the abstract binding of `k` in `s`, the spec's answer there being `valTTL i.v (i.e - s.g.now) true`;
and the last step changes nothing shared and returns `valTTL i.v (i.e - now') true` for the clock `now' = s2.g.now` read
at that step, `now' ≥ s.g.now`: value and flag are the spec's at the linearization / hindsight point, the lifetime is
that of the same binding measured against a later clock reading of the same call. -/
theorem getWithTTL_second_clock (dflt : Int) (cb : Option Nat) (now : Int) (h0 : 0 ≤ now) (s s1 s2 s3 : St K V)
    (t : Tid) (c c' : Choice K V) (δ δ' : Nat) (sched : List (Option Tid × Choice K V × Nat))
    (hr : Reach dflt cb now s) (h1 : step s (some t) c δ = some s1) (hpc : (s1.l t).pc = .getTTLClock)
    (hq : ∀ x ∈ sched, x.1 ≠ some t) (h2 : run s1 sched = some s2) (h3 : step s2 (some t) c' δ' = some s3) :
    ∃ k i, (s.l t).op = some (.getWithTTL k) ∧ 0 < i.e ∧ TTL.expired i.e s.g.now = false ∧
      (((s.l t).pc = .getChkClock ∧ (s.l t).loaded = some i ∧ (s.l t).absAtLoad = some i ∧
          (s.l t).nowAtLoad ≤ s.g.now ∧ s1.g = s.g) ∨
       ((s.l t).pc = .getCompute ∧ s.g.abs.live.get k = some i ∧ s1.g.abs = s.g.abs ∧
          (TTL.step s.g.abs (.getWithTTL k)).2.1 = .valTTL i.v (i.e - s.g.now) true)) ∧
      s.g.now ≤ s2.g.now ∧ s3.g = s2.g ∧ (s3.l t).pc = .ret ∧
      (s3.l t).result = some (.valTTL i.v (i.e - s2.g.now) true) := by
  obtain ⟨hg, hl, hst, _, hr1⟩ := reach_tstep dflt cb now h0 s s1 t c δ hr h1
  have hr2 := reach_run dflt cb now s1 s2 sched hr1 h2
  obtain ⟨_, hl2, hst2, _, _⟩ := reach_tstep dflt cb now h0 s2 s3 t c' δ' hr2 h3
  have hloc := run_quiet t sched s1 s2 hq h2
  have hmono : s.g.now ≤ s2.g.now := by
    have := run_now_mono sched s1 s2 h2
    rw [tstep_now t s.g (s.l t) c s1.g (s1.l t) hst] at this
    exact this
  have hpc2 : (s2.l t).pc = .getTTLClock := by rw [hloc]; exact hpc
  obtain ⟨hg3, i', k', t0, hi', ho', _, _, _, _, hret, hres, _⟩ :=
    get_ttl_clock t s2.g (s2.l t) c' s3.g (s3.l t) hl2 hpc2 hst2
  rw [hloc] at hi'
  rcases into_getTTLClock t s.g (s.l t) c s1.g (s1.l t) hst hpc with hp | hp
  · obtain ⟨hgeq, i, op, hi, ho, hn, _, hh⟩ := get_hindsight t s.g (s.l t) c s1.g (s1.l t) hl hp hst
    rcases hh with ⟨he, hab, ⟨_, hret', _⟩ | ⟨k, rfl, hpos, _, hld, _⟩⟩ | ⟨_, hcmp, _⟩
    · rw [hpc] at hret'; cases hret'
    · have : i' = i := by rw [hld] at hi'; exact (Option.some.inj hi').symm
      subst this
      exact ⟨k, i', ho, hpos, he, Or.inl ⟨hp, hi, hab, hn, hgeq⟩, hmono, hg3, hret, hres⟩
    · rw [hpc] at hcmp; cases hcmp
  · obtain ⟨op, ho, _⟩ := hl.cls .get (by rw [hp]; rfl)
    obtain ⟨hres1, habs⟩ := lp_getCompute t s.g (s.l t) c s1.g (s1.l t) op hg hl hp ho hst
    have hspec : (TTL.step s.g.abs (toSpec op)).1 = s.g.abs := by
      obtain ⟨k, hk⟩ := cls_key (s.l t) op ho (Or.inl (by assumption))
      rcases opKey_get (s.l t) op k ho (by assumption) hk with rfl | rfl | rfl <;>
        simp only [toSpec, TTL.step] <;> split <;> rfl
    rcases hres1 with ⟨hne, _⟩ | ⟨k, i, rfl, hab, hpos, hsp, _, hld⟩
    · exact absurd hpc hne
    · have : i' = i := by rw [hld] at hi'; exact (Option.some.inj hi').symm
      subst this
      have hlg := lget_some (view s.g) k i' (by rw [← hg.get k]; exact hab)
      exact ⟨k, i', ho, hpos, hlg.2, Or.inr ⟨hp, hab, by rw [habs, hspec], hsp⟩, hmono, hg3, hret, hres⟩

/-! ## Exactly once (C06): per call, what fired is exactly what was removed, once each, in order

Ghost local `fired` (appended exactly where the ledger is appended, reset where `erased` is reset).  A second
per-thread invariant `FI`, purely local (it mentions no global), preserved by the thread's own steps given `LI`
(`fi_self`), untouched by everybody else's; lifted to all reachable states (`fi_reach`).  Results:
`fired_prefix`, `gd_fire`, `fired_eq_erased_at_ret`, `gd_erased_at_ret`, `ledger_fired_step`,
`ledger_fired_coupled`. -/

/-- the calls that remove entries and fire the evicted callback -/
def isRemoval : COp K V → Bool
  | .getAndDelete _ | .delete _ | .deleteExpired => true
  | _ => false

theorem isRemoval_eq (op : COp K V) : isRemoval op = (decide (opCls op = .gd) || decide (opCls op = .de)) := by
  cases op <;> rfl

/-- `opKey` depends on the call only -/
def opKeyOf : Option (COp K V) → Option K
  | some (.set k _ _) | some (.get k) | some (.getWithExpiration k) | some (.getWithTTL k)
  | some (.getOrSet k _ _) | some (.getAndSet k _ _) | some (.getAndRefresh k _) | some (.getOrCompute k _ _)
  | some (.compute k _ _) | some (.getAndDelete k) | some (.delete k) => some k
  | _ => none

theorem opKey_eq_of (l : L K V) : opKey l = opKeyOf l.op := rfl

structure FI (l : L K V) : Prop where
  hasOp : l.pc ≠ .idle → ∃ op, l.op = some op
  other : l.pc ≠ .idle → ∀ op, l.op = some op → isRemoval op = false → l.fired = [] ∧ l.erased = []
  pre : (l.pc = .gdCompute ∨ l.pc = .deReadCb ∨ l.pc = .deReadClock) → l.fired = [] ∧ l.erased = []
  gdMid : (l.pc = .gdReadCb ∨ l.pc = .gdFire) →
      l.fired = [] ∧ ∃ k i, opKey l = some k ∧ l.removed = some i ∧ l.erased = [(k, i.v)]
  pass : dePass l.pc = true →
      (∀ cb, l.ec = some cb → l.fired ++ l.queue = l.erased) ∧ (l.ec = none → l.fired = [] ∧ l.queue = [])
  ret : l.pc = .ret → ∀ op, l.op = some op → isRemoval op = true →
      (∀ cb, l.ec = some cb → l.fired = l.erased) ∧ (l.ec = none → l.fired = [])
  retGd : l.pc = .ret → ∀ op, l.op = some op → opCls op = .gd →
      (l.removed = none → l.fired = [] ∧ l.erased = []) ∧
      (∀ i, l.removed = some i → ∃ k, opKey l = some k ∧ l.erased = [(k, i.v)])

theorem fi_init : FI (L.init : L K V) := by
  refine ⟨?_, ?_, ?_, ?_, ?_, ?_, ?_⟩ <;> simp [L.init, dePass]

theorem fi_startOp (l : L K V) (op : COp K V) : FI (startOp l op) := by
  cases op
  case set k v d =>
    by_cases hd : d = Gen.DefaultExpiration <;>
      (refine ⟨?_, ?_, ?_, ?_, ?_, ?_, ?_⟩ <;> simp [startOp, dePass, isRemoval, hd])
  all_goals (refine ⟨?_, ?_, ?_, ?_, ?_, ?_, ?_⟩ <;> simp [startOp, dePass, isRemoval])

macro "fi_auto " hs:ident : tactic =>
  `(tactic| ((repeat' split at $hs:ident) <;>
    simp only [Option.some.injEq, reduceCtorEq, Prod.mk.injEq] at $hs:ident <;>
    rcases $hs:ident with ⟨hg', hl'⟩ <;> subst hg' <;> subst hl' <;>
    (refine ⟨?_, ?_, ?_, ?_, ?_, ?_, ?_⟩ <;> simp_all [dePass, isRemoval_eq, opKey_eq_of])))

theorem fi_self_setReadDflt (t : Tid) (g : G K V) (l : L K V) (c : Choice K V) (g' : G K V) (l' : L K V)
    (hl : LI g.now l) (hf : FI l) (hpc : l.pc = .setReadDflt) (hs : tstep t g l c = some (g', l')) : FI l' := by
  obtain ⟨op0, ho0, hc0⟩ := hl.cls _ (by rw [hpc]; rfl)
  obtain ⟨f1, f2, f3, f4, f5, f6, f7⟩ := hf
  simp only [tstep, hpc] at hs
  fi_auto hs

theorem fi_self_setReadClock (t : Tid) (g : G K V) (l : L K V) (c : Choice K V) (g' : G K V) (l' : L K V)
    (hl : LI g.now l) (hf : FI l) (hpc : l.pc = .setReadClock) (hs : tstep t g l c = some (g', l')) : FI l' := by
  obtain ⟨op0, ho0, hc0⟩ := hl.cls _ (by rw [hpc]; rfl)
  obtain ⟨f1, f2, f3, f4, f5, f6, f7⟩ := hf
  simp only [tstep, hpc] at hs
  fi_auto hs

theorem fi_self_setStore (t : Tid) (g : G K V) (l : L K V) (c : Choice K V) (g' : G K V) (l' : L K V)
    (hl : LI g.now l) (hf : FI l) (hpc : l.pc = .setStore) (hs : tstep t g l c = some (g', l')) : FI l' := by
  obtain ⟨op0, ho0, hc0⟩ := hl.cls _ (by rw [hpc]; rfl)
  obtain ⟨f1, f2, f3, f4, f5, f6, f7⟩ := hf
  simp only [tstep, hpc] at hs
  fi_auto hs

theorem fi_self_getLoad (t : Tid) (g : G K V) (l : L K V) (c : Choice K V) (g' : G K V) (l' : L K V)
    (hl : LI g.now l) (hf : FI l) (hpc : l.pc = .getLoad) (hs : tstep t g l c = some (g', l')) : FI l' := by
  obtain ⟨op0, ho0, hc0⟩ := hl.cls _ (by rw [hpc]; rfl)
  obtain ⟨f1, f2, f3, f4, f5, f6, f7⟩ := hf
  simp only [tstep, hpc] at hs
  fi_auto hs

theorem fi_self_getChkClock (t : Tid) (g : G K V) (l : L K V) (c : Choice K V) (g' : G K V) (l' : L K V)
    (hl : LI g.now l) (hf : FI l) (hpc : l.pc = .getChkClock) (hs : tstep t g l c = some (g', l')) : FI l' := by
  obtain ⟨op0, ho0, hc0⟩ := hl.cls _ (by rw [hpc]; rfl)
  obtain ⟨f1, f2, f3, f4, f5, f6, f7⟩ := hf
  simp only [tstep, hpc, afterHit] at hs
  fi_auto hs

theorem fi_self_getCompute (t : Tid) (g : G K V) (l : L K V) (c : Choice K V) (g' : G K V) (l' : L K V)
    (hl : LI g.now l) (hf : FI l) (hpc : l.pc = .getCompute) (hs : tstep t g l c = some (g', l')) : FI l' := by
  obtain ⟨op0, ho0, hc0⟩ := hl.cls _ (by rw [hpc]; rfl)
  obtain ⟨f1, f2, f3, f4, f5, f6, f7⟩ := hf
  simp only [tstep, hpc, afterHit] at hs
  fi_auto hs

theorem fi_self_getTTLClock (t : Tid) (g : G K V) (l : L K V) (c : Choice K V) (g' : G K V) (l' : L K V)
    (hl : LI g.now l) (hf : FI l) (hpc : l.pc = .getTTLClock) (hs : tstep t g l c = some (g', l')) : FI l' := by
  obtain ⟨op0, ho0, hc0⟩ := hl.cls _ (by rw [hpc]; rfl)
  obtain ⟨f1, f2, f3, f4, f5, f6, f7⟩ := hf
  simp only [tstep, hpc] at hs
  fi_auto hs

theorem fi_self_rmw (t : Tid) (g : G K V) (l : L K V) (c : Choice K V) (g' : G K V) (l' : L K V)
    (hl : LI g.now l) (hf : FI l) (hpc : l.pc = .rmw) (hs : tstep t g l c = some (g', l')) : FI l' := by
  obtain ⟨op0, ho0, hc0⟩ := hl.cls _ (by rw [hpc]; rfl)
  obtain ⟨f1, f2, f3, f4, f5, f6, f7⟩ := hf
  simp only [tstep, hpc] at hs
  fi_auto hs

theorem fi_self_gdCompute (t : Tid) (g : G K V) (l : L K V) (c : Choice K V) (g' : G K V) (l' : L K V)
    (hl : LI g.now l) (hf : FI l) (hpc : l.pc = .gdCompute) (hs : tstep t g l c = some (g', l')) : FI l' := by
  obtain ⟨op0, ho0, hc0⟩ := hl.cls _ (by rw [hpc]; rfl)
  obtain ⟨f1, f2, f3, f4, f5, f6, f7⟩ := hf
  simp only [tstep, hpc] at hs
  fi_auto hs

theorem fi_self_gdReadCb (t : Tid) (g : G K V) (l : L K V) (c : Choice K V) (g' : G K V) (l' : L K V)
    (hl : LI g.now l) (hf : FI l) (hpc : l.pc = .gdReadCb) (hs : tstep t g l c = some (g', l')) : FI l' := by
  obtain ⟨op0, ho0, hc0⟩ := hl.cls _ (by rw [hpc]; rfl)
  obtain ⟨f1, f2, f3, f4, f5, f6, f7⟩ := hf
  simp only [tstep, hpc] at hs
  fi_auto hs

theorem fi_self_gdFire (t : Tid) (g : G K V) (l : L K V) (c : Choice K V) (g' : G K V) (l' : L K V)
    (hl : LI g.now l) (hf : FI l) (hpc : l.pc = .gdFire) (hs : tstep t g l c = some (g', l')) : FI l' := by
  obtain ⟨op0, ho0, hc0⟩ := hl.cls _ (by rw [hpc]; rfl)
  obtain ⟨f1, f2, f3, f4, f5, f6, f7⟩ := hf
  simp only [tstep, hpc] at hs
  fi_auto hs
  · rename_i hno
    intro cb hcb
    obtain ⟨_, k, hk, i, hi, _⟩ := f4
    exact absurd hcb (hno k i cb hk hi)
  · obtain ⟨_, k, hk, i, hi, he⟩ := f4
    refine ⟨fun h => ?_, fun i' hi' => ?_⟩
    · rw [hi] at h; cases h
    · rw [hi] at hi'; cases hi'; exact ⟨k, hk, he⟩

theorem fi_self_deReadCb (t : Tid) (g : G K V) (l : L K V) (c : Choice K V) (g' : G K V) (l' : L K V)
    (hl : LI g.now l) (hf : FI l) (hpc : l.pc = .deReadCb) (hs : tstep t g l c = some (g', l')) : FI l' := by
  obtain ⟨op0, ho0, hc0⟩ := hl.cls _ (by rw [hpc]; rfl)
  obtain ⟨f1, f2, f3, f4, f5, f6, f7⟩ := hf
  simp only [tstep, hpc] at hs
  fi_auto hs

theorem fi_self_deReadClock (t : Tid) (g : G K V) (l : L K V) (c : Choice K V) (g' : G K V) (l' : L K V)
    (hl : LI g.now l) (hf : FI l) (hpc : l.pc = .deReadClock) (hs : tstep t g l c = some (g', l')) : FI l' := by
  obtain ⟨op0, ho0, hc0⟩ := hl.cls _ (by rw [hpc]; rfl)
  obtain ⟨f1, f2, f3, f4, f5, f6, f7⟩ := hf
  simp only [tstep, hpc] at hs
  fi_auto hs

theorem fi_self_deVisit (t : Tid) (g : G K V) (l : L K V) (c : Choice K V) (g' : G K V) (l' : L K V)
    (hl : LI g.now l) (hf : FI l) (hpc : l.pc = .deVisit) (hs : tstep t g l c = some (g', l')) : FI l' := by
  obtain ⟨op0, ho0, hc0⟩ := hl.cls _ (by rw [hpc]; rfl)
  obtain ⟨f1, f2, f3, f4, f5, f6, f7⟩ := hf
  simp only [tstep, hpc] at hs
  fi_auto hs

theorem fi_self_deCompute (t : Tid) (g : G K V) (l : L K V) (c : Choice K V) (g' : G K V) (l' : L K V)
    (hl : LI g.now l) (hf : FI l) (hpc : l.pc = .deCompute) (hs : tstep t g l c = some (g', l')) : FI l' := by
  obtain ⟨op0, ho0, hc0⟩ := hl.cls _ (by rw [hpc]; rfl)
  obtain ⟨f1, f2, f3, f4, f5, f6, f7⟩ := hf
  simp only [tstep, hpc] at hs
  fi_auto hs
  rename_i hec hex
  refine ⟨fun cb h => ?_, ?_⟩
  · rw [← f5.1 cb h, List.append_assoc]
  · intro h; rw [h] at hec; cases hec

theorem fi_self_deFire (t : Tid) (g : G K V) (l : L K V) (c : Choice K V) (g' : G K V) (l' : L K V)
    (hl : LI g.now l) (hf : FI l) (hpc : l.pc = .deFire) (hs : tstep t g l c = some (g', l')) : FI l' := by
  obtain ⟨op0, ho0, hc0⟩ := hl.cls _ (by rw [hpc]; rfl)
  obtain ⟨f1, f2, f3, f4, f5, f6, f7⟩ := hf
  simp only [tstep, hpc] at hs
  fi_auto hs
  rename_i hno
  intro cb hcb
  have h := f5.1 cb hcb
  cases hq : l.queue with
  | nil => rw [hq, List.append_nil] at h; exact h
  | cons p rest => exact absurd hcb (hno p.1 p.2 rest cb hq)

theorem fi_self_clClear (t : Tid) (g : G K V) (l : L K V) (c : Choice K V) (g' : G K V) (l' : L K V)
    (hl : LI g.now l) (hf : FI l) (hpc : l.pc = .clClear) (hs : tstep t g l c = some (g', l')) : FI l' := by
  obtain ⟨op0, ho0, hc0⟩ := hl.cls _ (by rw [hpc]; rfl)
  obtain ⟨f1, f2, f3, f4, f5, f6, f7⟩ := hf
  simp only [tstep, hpc] at hs
  fi_auto hs

theorem fi_self_cntSize (t : Tid) (g : G K V) (l : L K V) (c : Choice K V) (g' : G K V) (l' : L K V)
    (hl : LI g.now l) (hf : FI l) (hpc : l.pc = .cntSize) (hs : tstep t g l c = some (g', l')) : FI l' := by
  obtain ⟨op0, ho0, hc0⟩ := hl.cls _ (by rw [hpc]; rfl)
  obtain ⟨f1, f2, f3, f4, f5, f6, f7⟩ := hf
  simp only [tstep, hpc] at hs
  fi_auto hs

theorem fi_self_sdStore (t : Tid) (g : G K V) (l : L K V) (c : Choice K V) (g' : G K V) (l' : L K V)
    (hl : LI g.now l) (hf : FI l) (hpc : l.pc = .sdStore) (hs : tstep t g l c = some (g', l')) : FI l' := by
  obtain ⟨op0, ho0, hc0⟩ := hl.cls _ (by rw [hpc]; rfl)
  obtain ⟨f1, f2, f3, f4, f5, f6, f7⟩ := hf
  simp only [tstep, hpc] at hs
  fi_auto hs

theorem fi_self_scStore (t : Tid) (g : G K V) (l : L K V) (c : Choice K V) (g' : G K V) (l' : L K V)
    (hl : LI g.now l) (hf : FI l) (hpc : l.pc = .scStore) (hs : tstep t g l c = some (g', l')) : FI l' := by
  obtain ⟨op0, ho0, hc0⟩ := hl.cls _ (by rw [hpc]; rfl)
  obtain ⟨f1, f2, f3, f4, f5, f6, f7⟩ := hf
  simp only [tstep, hpc] at hs
  fi_auto hs

theorem fi_self_ret (t : Tid) (g : G K V) (l : L K V) (c : Choice K V) (g' : G K V) (l' : L K V)
    (hl : LI g.now l) (hf : FI l) (hpc : l.pc = .ret) (hs : tstep t g l c = some (g', l')) : FI l' := by
  obtain ⟨f1, f2, f3, f4, f5, f6, f7⟩ := hf
  simp only [tstep, hpc] at hs
  fi_auto hs

theorem fi_self (t : Tid) (g : G K V) (l : L K V) (c : Choice K V) (g' : G K V) (l' : L K V)
    (hl : LI g.now l) (hf : FI l) (hs : tstep t g l c = some (g', l')) : FI l' := by
  cases hpc : l.pc
  case idle =>
    simp only [tstep, hpc] at hs
    split at hs
    · simp only [Option.some.injEq, Prod.mk.injEq] at hs
      obtain ⟨rfl, rfl⟩ := hs
      exact fi_startOp _ _
    · cases hs
  case setReadDflt => exact fi_self_setReadDflt t g l c g' l' hl hf hpc hs
  case setReadClock => exact fi_self_setReadClock t g l c g' l' hl hf hpc hs
  case setStore => exact fi_self_setStore t g l c g' l' hl hf hpc hs
  case getLoad => exact fi_self_getLoad t g l c g' l' hl hf hpc hs
  case getChkClock => exact fi_self_getChkClock t g l c g' l' hl hf hpc hs
  case getCompute => exact fi_self_getCompute t g l c g' l' hl hf hpc hs
  case getTTLClock => exact fi_self_getTTLClock t g l c g' l' hl hf hpc hs
  case rmw => exact fi_self_rmw t g l c g' l' hl hf hpc hs
  case gdCompute => exact fi_self_gdCompute t g l c g' l' hl hf hpc hs
  case gdReadCb => exact fi_self_gdReadCb t g l c g' l' hl hf hpc hs
  case gdFire => exact fi_self_gdFire t g l c g' l' hl hf hpc hs
  case deReadCb => exact fi_self_deReadCb t g l c g' l' hl hf hpc hs
  case deReadClock => exact fi_self_deReadClock t g l c g' l' hl hf hpc hs
  case deVisit => exact fi_self_deVisit t g l c g' l' hl hf hpc hs
  case deCompute => exact fi_self_deCompute t g l c g' l' hl hf hpc hs
  case deFire => exact fi_self_deFire t g l c g' l' hl hf hpc hs
  case clClear => exact fi_self_clClear t g l c g' l' hl hf hpc hs
  case cntSize => exact fi_self_cntSize t g l c g' l' hl hf hpc hs
  case sdStore => exact fi_self_sdStore t g l c g' l' hl hf hpc hs
  case scStore => exact fi_self_scStore t g l c g' l' hl hf hpc hs
  case ret => exact fi_self_ret t g l c g' l' hl hf hpc hs

/-- `FI` for every thread is preserved by every global step (the locals are private: another thread's step and a
clock tick leave them alone) -/
theorem fi_step (s s' : St K V) (w : Option Tid) (c : Choice K V) (δ : Nat) (h : Inv s) (hf : ∀ u, FI (s.l u))
    (hs : step s w c δ = some s') : ∀ u, FI (s'.l u) := by
  unfold step at hs
  cases w with
  | none =>
    simp only [Option.some.injEq] at hs; subst hs
    exact hf
  | some t =>
    simp only at hs
    split at hs
    · cases hs
    · rename_i g' l' heq
      simp only [Option.some.injEq] at hs; subst hs
      intro u
      by_cases hu : u = t
      · subst hu
        simpa using fi_self u s.g (s.l u) c g' l' (h.2 u) (hf u) heq
      · simpa [hu] using hf u

theorem fi_run (sched : List (Option Tid × Choice K V × Nat)) :
    ∀ (s s' : St K V), Inv s → (∀ u, FI (s.l u)) → run s sched = some s' → ∀ u, FI (s'.l u) := by
  induction sched with
  | nil => intro s s' h hf hr; simp only [run, Option.some.injEq] at hr; subst hr; exact hf
  | cons x rest ih =>
    obtain ⟨w, c, δ⟩ := x
    intro s s' h hf hr
    simp only [run] at hr
    split at hr
    · rename_i s1 hs1
      exact ih s1 s' (inv_step s s1 w c δ h hs1) (fi_step s s1 w c δ h hf hs1) hr
    · cases hr

/-- the firing invariant holds for every thread of every reachable state -/
theorem fi_reach (dflt : Int) (cb : Option Nat) (now : Int) (s : St K V) (h0 : 0 ≤ now)
    (hr : Reach dflt cb now s) (t : Tid) : FI (s.l t) := by
  obtain ⟨sched, hs⟩ := hr
  exact fi_run sched _ s (inv_init dflt cb now h0) (fun _ => fi_init) hs t

/-- **During a call, what has fired so far is a prefix of what was removed** (every reachable state, every
thread).  `GetAndDelete`/`Delete`: nothing has fired up to and including `gdFire`'s pre-state, and from
`gdReadCb` on exactly one entry — the call's key with the removed value — was removed.  `DeleteExpired`:
nothing fired or removed before the traversal; from `deVisit` on, when the pass read a callback
(`ec = some _`), `fired ++ queue = erased` (fired, then still to fire, is exactly what was removed, in removal
order); when it read none (`ec = none`: the model queues removed entries only when a callback was read), nothing
fires and nothing is queued. -/
theorem fired_prefix (dflt : Int) (cb : Option Nat) (now : Int) (h0 : 0 ≤ now) (s : St K V)
    (hr : Reach dflt cb now s) (t : Tid) :
    ((s.l t).pc = .gdCompute → (s.l t).fired = [] ∧ (s.l t).erased = []) ∧
    (((s.l t).pc = .gdReadCb ∨ (s.l t).pc = .gdFire) → (s.l t).fired = [] ∧
        ∃ k i, opKey (s.l t) = some k ∧ (s.l t).removed = some i ∧ (s.l t).erased = [(k, i.v)]) ∧
    (((s.l t).pc = .deReadCb ∨ (s.l t).pc = .deReadClock) → (s.l t).fired = [] ∧ (s.l t).erased = []) ∧
    (((s.l t).pc = .deVisit ∨ (s.l t).pc = .deCompute ∨ (s.l t).pc = .deFire) →
        match (s.l t).ec with
        | some _ => (s.l t).fired ++ (s.l t).queue = (s.l t).erased
        | none => (s.l t).fired = [] ∧ (s.l t).queue = []) := by
  have hf := fi_reach dflt cb now s h0 hr t
  refine ⟨fun h => hf.pre (Or.inl h), hf.gdMid, fun h => hf.pre (Or.inr h), fun h => ?_⟩
  have hp : dePass (s.l t).pc = true := by rcases h with h | h | h <;> rw [h] <;> rfl
  have := hf.pass hp
  cases hec : (s.l t).ec with
  | none => exact this.2 hec
  | some cb' => exact this.1 cb' hec

/-- `GetAndDelete`/`Delete`'s firing step, exactly: with a callback read (`ec = some cb`) it appends the one
removed entry to the ledger and `fired` becomes `erased` (that one entry); with none read nothing fires -/
theorem gd_fire (t : Tid) (g : G K V) (l : L K V) (c : Choice K V) (g' : G K V) (l' : L K V)
    (hf : FI l) (hpc : l.pc = .gdFire) (hs : tstep t g l c = some (g', l')) :
    l'.pc = .ret ∧ l'.erased = l.erased ∧ l'.ec = l.ec ∧
    match l.ec with
    | some cb => ∃ k v, l.erased = [(k, v)] ∧ g'.ledger = g.ledger ++ [(cb, k, v)] ∧ l'.fired = [(k, v)]
    | none => g'.ledger = g.ledger ∧ l'.fired = [] := by
  obtain ⟨hfi, k, i, hk, hi, he⟩ := hf.gdMid (Or.inr hpc)
  simp only [tstep, hpc, hk, hi] at hs
  cases hec : l.ec with
  | none =>
    simp only [hec, Option.some.injEq, Prod.mk.injEq] at hs
    obtain ⟨rfl, rfl⟩ := hs
    exact ⟨rfl, rfl, rfl, rfl, hfi⟩
  | some cb =>
    simp only [hec, Option.some.injEq, Prod.mk.injEq] at hs
    obtain ⟨rfl, rfl⟩ := hs
    exact ⟨rfl, rfl, rfl, k, i.v, he, rfl, by simp [hfi]⟩

/-- **Per call, what fired is exactly what was removed, once each, in order.**  In every reachable state, a
thread at `ret` is returning from some call `op`.  If `op` is `GetAndDelete`, `Delete` or `DeleteExpired`
(`isRemoval op`): when the call read a callback (`ec = some _`; for `GetAndDelete`/`Delete` it is read only after
an entry was removed, so for a call that removed nothing `ec` is left over from an earlier call of the thread —
then both lists are empty) the list of entries it invoked the callback with *is* the list of entries its own
`Compute`s physically removed (`erased_step`); when it read none, nothing fired.  Every other call — in
particular the `Get` family with its lazy expiry delete, which removes without a callback — fired nothing and
removed nothing through these paths. -/
theorem fired_eq_erased_at_ret (dflt : Int) (cb : Option Nat) (now : Int) (h0 : 0 ≤ now) (s : St K V)
    (hr : Reach dflt cb now s) (t : Tid) (hpc : (s.l t).pc = .ret) :
    ∃ op, (s.l t).op = some op ∧
      (isRemoval op = true →
        match (s.l t).ec with
        | some _ => (s.l t).fired = (s.l t).erased
        | none => (s.l t).fired = []) ∧
      (isRemoval op = false → (s.l t).fired = [] ∧ (s.l t).erased = []) := by
  have hf := fi_reach dflt cb now s h0 hr t
  obtain ⟨op, ho⟩ := hf.hasOp (by rw [hpc]; exact fun h => nomatch h)
  refine ⟨op, ho, fun h => ?_, fun h => hf.other (by rw [hpc]; exact fun h => nomatch h) op ho h⟩
  have := hf.ret hpc op ho h
  cases hec : (s.l t).ec with
  | none => exact this.2 hec
  | some cb' => exact this.1 cb' hec

/-- a `GetAndDelete`/`Delete` call at `ret` removed at most one entry: none (and then nothing fired) when the
key was absent, else exactly its key with the value it remembered in `removed` -/
theorem gd_erased_at_ret (dflt : Int) (cb : Option Nat) (now : Int) (h0 : 0 ≤ now) (s : St K V)
    (hr : Reach dflt cb now s) (t : Tid) (hpc : (s.l t).pc = .ret) (op : COp K V) (ho : (s.l t).op = some op)
    (hc : opCls op = .gd) :
    match (s.l t).removed with
    | none => (s.l t).fired = [] ∧ (s.l t).erased = []
    | some i => ∃ k, opKey (s.l t) = some k ∧ (s.l t).erased = [(k, i.v)] := by
  have := (fi_reach dflt cb now s h0 hr t).retGd hpc op ho hc
  cases hrm : (s.l t).removed with
  | none => exact this.1 hrm
  | some i => exact this.2 i hrm

/-- **Ledger and `fired` move together** (one step of one thread): either the ledger is unchanged and the thread's
`fired` is unchanged or reset by the start of a call, or the step is a `gdFire`/`deFire` step that appends
`(cb, k, v)` to the ledger — `cb` the callback the call read — and `(k, v)` to the thread's `fired` -/
theorem ledger_fired_step (t : Tid) (g : G K V) (l : L K V) (c : Choice K V) (g' : G K V) (l' : L K V)
    (hs : tstep t g l c = some (g', l')) :
    (g'.ledger = g.ledger ∧ (l'.fired = l.fired ∨ (l.pc = .idle ∧ l'.fired = []))) ∨
    ∃ cb k v, (l.pc = .gdFire ∨ l.pc = .deFire) ∧ l.ec = some cb ∧
      g'.ledger = g.ledger ++ [(cb, k, v)] ∧ l'.fired = l.fired ++ [(k, v)] := by
  cases hpc : l.pc <;> simp only [tstep, hpc] at hs
  case idle =>
    split at hs
    · simp only [Option.some.injEq, Prod.mk.injEq] at hs
      obtain ⟨rfl, rfl⟩ := hs
      rename_i op _
      exact Or.inl ⟨rfl, Or.inr ⟨rfl, by cases op <;> rfl⟩⟩
    · cases hs
  case gdFire =>
    split at hs
    · rename_i k i cbid hk hr hec
      simp only [Option.some.injEq, Prod.mk.injEq] at hs
      obtain ⟨rfl, rfl⟩ := hs
      exact Or.inr ⟨cbid, k, i.v, Or.inl rfl, hec, rfl, rfl⟩
    · simp only [Option.some.injEq, Prod.mk.injEq] at hs
      obtain ⟨rfl, rfl⟩ := hs
      exact Or.inl ⟨rfl, Or.inl rfl⟩
  case deFire =>
    split at hs
    · rename_i k v rest cbid hq hec
      simp only [Option.some.injEq, Prod.mk.injEq] at hs
      obtain ⟨rfl, rfl⟩ := hs
      exact Or.inr ⟨cbid, k, v, Or.inr rfl, hec, rfl, rfl⟩
    · simp only [Option.some.injEq, Prod.mk.injEq] at hs
      obtain ⟨rfl, rfl⟩ := hs
      exact Or.inl ⟨rfl, Or.inl rfl⟩
  all_goals
    ((repeat' split at hs) <;>
    simp only [Option.some.injEq, reduceCtorEq, Prod.mk.injEq] at hs <;>
    obtain ⟨rfl, rfl⟩ := hs <;> first | exact Or.inl ⟨rfl, Or.inl rfl⟩ | exact Or.inl ⟨rfl, Or.inl (afterHit_fired ..)⟩)

theorem append_singleton_ne_self {α : Type} (xs : List α) (x : α) : xs ≠ xs ++ [x] := by
  intro h
  have := congrArg List.length h
  simp at this

/-- **A step appends `(cb, k, v)` to the ledger iff it appends `(k, v)` to the stepping thread's `fired`** — and
then `cb` is the callback the call read -/
theorem ledger_fired_coupled (t : Tid) (g : G K V) (l : L K V) (c : Choice K V) (g' : G K V) (l' : L K V)
    (hs : tstep t g l c = some (g', l')) (k : K) (v : V) :
    ((∃ cb, g'.ledger = g.ledger ++ [(cb, k, v)]) ↔ l'.fired = l.fired ++ [(k, v)]) ∧
    (∀ cb, g'.ledger = g.ledger ++ [(cb, k, v)] → l.ec = some cb) := by
  rcases ledger_fired_step t g l c g' l' hs with ⟨hl, hf⟩ | ⟨cb, k', v', _, hec, hl, hf⟩
  · refine ⟨⟨?_, ?_⟩, ?_⟩
    · rintro ⟨cb, h⟩
      rw [hl] at h
      exact absurd h (append_singleton_ne_self _ _)
    · intro h
      rcases hf with hf | ⟨_, hf⟩
      · rw [hf] at h
        exact absurd h (append_singleton_ne_self _ _)
      · rw [hf] at h
        cases hl : l.fired <;> rw [hl] at h <;> cases h
    · intro cb h
      rw [hl] at h
      exact absurd h (append_singleton_ne_self _ _)
  · refine ⟨⟨?_, ?_⟩, ?_⟩
    · rintro ⟨cb2, h⟩
      rw [hl] at h
      have := List.append_cancel_left h
      simp only [List.cons.injEq, Prod.mk.injEq, and_true] at this
      obtain ⟨_, rfl, rfl⟩ := this
      exact hf
    · intro h
      rw [hf] at h
      have := List.append_cancel_left h
      simp only [List.cons.injEq, Prod.mk.injEq, and_true] at this
      obtain ⟨rfl, rfl⟩ := this
      exact ⟨cb, hl⟩
    · intro cb2 h
      rw [hl] at h
      have := List.append_cancel_left h
      simp only [List.cons.injEq, Prod.mk.injEq, and_true] at this
      obtain ⟨rfl, _, _⟩ := this
      exact hec

end Proofs.ConcCacheLin
