import CacheVerif.Model.Table
import CacheVerif.Proofs.AMapFilter
/-!
# M3 (`Model.Table`) refines `Spec.AMap`, for every hash function, seed oracle, presize hint and history

`tget` is the table's view of a key (search the chain of the key's bucket); `TInv` is the representation
invariant (every key sits in the chain of its bucket index, no key twice in a chain, counter = number of
entries); `Sim` relates a table to an association list with the same bindings.  `specStep` is the builtin-map
answer to every interface call.  The main theorems: `step_refines` (one call) and `doCompute_some` (the
retry budget is never exhausted).
-/
set_option linter.unusedSectionVars false
namespace Proofs.TableRefine
open Spec Model.Table

variable {K V : Type} [DecidableEq K] [Inhabited V]

/-- what the proofs need to know about a table variant -/
structure GoodVariant (var : Variant) : Prop where
  S_pos : 0 < var.S
  bidx_lt : ∀ (h : BitVec 64) (len : Nat), 0 < len → var.bidx h len < len
  growThr_ge : ∀ n, n ≤ var.growThr n

theorem mapVariant_good : GoodVariant mapVariant := by
  refine ⟨by decide, ?_, ?_⟩
  · intro h len hl; exact Nat.mod_lt _ hl
  · intro n; simp only [mapVariant, Gen.growThresholdMap]; omega

theorem mapOfVariant_good : GoodVariant mapOfVariant := by
  refine ⟨by decide, ?_, ?_⟩
  · intro h len hl; exact Nat.mod_lt _ hl
  · intro n; simp only [mapOfVariant, Gen.growThresholdMapOf]; omega

section
variable (var : Variant) (env : Env K)

/-- the table's answer for key `k` -/
def tget (t : Tbl K V) (k : K) : Option V := lookup k (t.chain (t.bucketOf var env k))

def chainKeys (s : Slots K V) : List K := (occupied s).map (·.1)

/-- representation invariant of a table -/
structure TInv (t : Tbl K V) : Prop where
  lenPos : 0 < t.len
  place : ∀ i, i < t.len → ∀ k ∈ chainKeys (t.chain i), t.bucketOf var env k = i
  nodup : ∀ i, i < t.len → (chainKeys (t.chain i)).Nodup
  size : t.size = (t.entries.length : Int)

/-- a table state and an association list hold the same bindings -/
structure Sim (sp : AMap K V) (m : St K V) : Prop where
  wf : AMap.WF sp
  inv : TInv var env m.tbl
  get : ∀ k, sp.get k = tget var env m.tbl k
  minLenPos : 0 < m.minLen

/-- the builtin-map answer: new content, result, number of user-function invocations -/
def specStep (sp : AMap K V) : MOp K V → AMap K V × MOut K V × Nat
  | .load k => (sp, .val (sp.load k).1 (sp.load k).2, 0)
  | .store k v => (sp.store k v, .unit, 0)
  | .loadOrStore k v => ((sp.loadOrStore k v).1, .val (sp.loadOrStore k v).2.1 (sp.loadOrStore k v).2.2, 0)
  | .loadAndStore k v => ((sp.loadAndStore k v).1, .val (sp.loadAndStore k v).2.1 (sp.loadAndStore k v).2.2, 0)
  | .loadOrCompute k f =>
    ((sp.loadOrStore k f).1, .val (sp.loadOrStore k f).2.1 (sp.loadOrStore k f).2.2, if (sp.get k).isSome then 0 else 1)
  | .compute k g => ((sp.compute k g).1, .val (sp.compute k g).2.1 (sp.compute k g).2.2, 1)
  | .loadAndDelete k => ((sp.loadAndDelete k).1, .val (sp.loadAndDelete k).2.1 (sp.loadAndDelete k).2.2, 0)
  | .delete k => ((sp.loadAndDelete k).1, .unit, 0)
  | .range f => (sp, .visits (walk f sp), 0)
  | .clear => ([], .unit, 0)
  | .size => (sp, .size sp.size, 0)

/-- `Range` order is unspecified: the model's visit list must be the spec's for some enumeration order -/
def OutRel (sp : AMap K V) (op : MOp K V) (m s : MOut K V) : Prop :=
  match op with
  | .range f => ∃ π : List (K × V), π.Perm sp ∧ m = .visits (walk f π)
  | _ => m = s

/-! ### chains -/
@[simp] theorem occupied_nil : occupied ([] : Slots K V) = [] := rfl
@[simp] theorem occupied_none (r : Slots K V) : occupied (none :: r) = occupied r := rfl
@[simp] theorem occupied_some (e : K × V) (r : Slots K V) : occupied (some e :: r) = e :: occupied r := rfl
@[simp] theorem chainKeys_nil : chainKeys ([] : Slots K V) = [] := rfl
@[simp] theorem chainKeys_none (r : Slots K V) : chainKeys (none :: r) = chainKeys r := rfl
@[simp] theorem chainKeys_some (e : K × V) (r : Slots K V) : chainKeys (some e :: r) = e.1 :: chainKeys r := rfl

theorem lookup_eq_get (k : K) (s : Slots K V) : lookup k s = AMap.get (occupied s) k := by
  induction s with
  | nil => rfl
  | cons a r ih =>
    cases a with
    | none => simpa [lookup] using ih
    | some e => obtain ⟨k', v⟩ := e; simp [lookup, ih]

theorem lookup_eq_none_iff (k : K) (s : Slots K V) : lookup k s = none ↔ k ∉ chainKeys s := by
  rw [lookup_eq_get]; exact AMap.get_eq_none_iff _ _

theorem mem_occupied_iff (s : Slots K V) (hn : (chainKeys s).Nodup) (k : K) (v : V) :
    (k, v) ∈ occupied s ↔ lookup k s = some v := by
  rw [lookup_eq_get]; exact AMap.mem_iff_get (occupied s) hn (k, v)

theorem chainKeys_upd (k : K) (v : V) (s : Slots K V) : chainKeys (upd k v s) = chainKeys s := by
  induction s with
  | nil => rfl
  | cons a r ih =>
    cases a with
    | none => simpa [upd] using ih
    | some e =>
      obtain ⟨k', v'⟩ := e
      by_cases h : k' = k
      · simp [upd, h]
      · simp [upd, h, ih]

theorem lookup_upd (k x : K) (v : V) (s : Slots K V) (hk : (lookup k s).isSome) :
    lookup x (upd k v s) = if x = k then some v else lookup x s := by
  induction s with
  | nil => simp [lookup] at hk
  | cons a r ih =>
    cases a with
    | none => simpa [lookup, upd] using ih (by simpa [lookup] using hk)
    | some e =>
      obtain ⟨k', v'⟩ := e
      by_cases h : k' = k
      · subst h; by_cases hx : x = k'
        · simp [lookup, upd, hx]
        · simp [lookup, upd, hx, Ne.symm hx]
      · have := ih (by simpa [lookup, h] using hk)
        by_cases hx : x = k
        · subst hx; simp [lookup, upd, h, this]
        · simp [lookup, upd, h, this, hx]

theorem chainKeys_del_sublist (k : K) (s : Slots K V) : (chainKeys (del k s)).Sublist (chainKeys s) := by
  induction s with
  | nil => exact List.Sublist.refl _
  | cons a r ih =>
    cases a with
    | none => simpa [del] using ih
    | some e =>
      obtain ⟨k', v'⟩ := e
      by_cases h : k' = k
      · simp [del, h]
      · simp [del, h, ih]

theorem lookup_del (k x : K) (s : Slots K V) (hw : (chainKeys s).Nodup) :
    lookup x (del k s) = if x = k then none else lookup x s := by
  induction s with
  | nil => simp [lookup, del]
  | cons a r ih =>
    cases a with
    | none => simpa [lookup, del] using ih (by simpa using hw)
    | some e =>
      obtain ⟨k', v'⟩ := e
      simp at hw
      by_cases h : k' = k
      · subst h
        by_cases hx : x = k'
        · subst hx; simp [lookup, del, (lookup_eq_none_iff _ _).mpr hw.1]
        · simp [lookup, del, hx, Ne.symm hx]
      · have := ih hw.2
        by_cases hx : x = k
        · subst hx; simp [lookup, del, h, this]
        · simp [lookup, del, h, this, hx]

theorem chainKeys_fill (k : K) (v : V) (s s' : Slots K V) (hf : fillFirst k v s = some s') :
    (chainKeys s').Perm (k :: chainKeys s) := by
  induction s generalizing s' with
  | nil => simp [fillFirst] at hf
  | cons a r ih =>
    cases a with
    | none => simp [fillFirst] at hf; subst hf; simp
    | some e =>
      simp only [fillFirst, Option.map_eq_some_iff] at hf
      obtain ⟨r', hr, rfl⟩ := hf
      simp only [chainKeys_some]
      exact ((ih r' hr).cons e.1).trans (List.Perm.swap _ _ _)

theorem lookup_fill (k x : K) (v : V) (s s' : Slots K V) (hk : lookup k s = none) (hf : fillFirst k v s = some s') :
    lookup x s' = if x = k then some v else lookup x s := by
  induction s generalizing s' with
  | nil => simp [fillFirst] at hf
  | cons a r ih =>
    cases a with
    | none =>
      simp [fillFirst] at hf; subst hf
      by_cases hx : x = k
      · simp [lookup, hx]
      · simp [lookup, hx, Ne.symm hx]
    | some e =>
      obtain ⟨k', v'⟩ := e
      simp only [fillFirst, Option.map_eq_some_iff] at hf
      obtain ⟨r', hr, rfl⟩ := hf
      have hne : k' ≠ k := by intro h; subst h; simp [lookup] at hk
      have := ih r' (by simpa [lookup, hne] using hk) hr
      by_cases hx : x = k
      · subst hx; simp [lookup, hne, this]
      · simp [lookup, this, hx]

theorem lookup_append (x : K) (s t : Slots K V) : lookup x (s ++ t) = (lookup x s).or (lookup x t) := by
  induction s with
  | nil => simp [lookup]
  | cons a r ih =>
    cases a with
    | none => simpa [lookup] using ih
    | some e => obtain ⟨k', v'⟩ := e; by_cases h : k' = x <;> simp [lookup, h, ih]

theorem lookup_replicate_none (x : K) (n : Nat) : lookup x (List.replicate n (none : Option (K × V))) = none := by
  induction n with
  | zero => rfl
  | succ n ih => simpa [List.replicate, lookup] using ih

theorem chainKeys_replicate_none (n : Nat) : chainKeys (List.replicate n (none : Option (K × V))) = [] := by
  induction n with
  | zero => rfl
  | succ n ih => simpa [List.replicate] using ih

theorem chainKeys_append (s t : Slots K V) : chainKeys (s ++ t) = chainKeys s ++ chainKeys t := by
  simp [chainKeys, occupied, List.filterMap_append]

theorem chainKeys_newBucket (S : Nat) (k : K) (v : V) : chainKeys (newBucket S k v) = [k] := by
  simp [newBucket, chainKeys_replicate_none]

/-- `c'` is `c` with the binding of `k` changed to `nv` -/
structure ChainMod (k : K) (nv : Option V) (c c' : Slots K V) : Prop where
  mem : ∀ x ∈ chainKeys c', x = k ∨ x ∈ chainKeys c
  nodup : (chainKeys c').Nodup
  look : ∀ x, lookup x c' = if x = k then nv else lookup x c

theorem chainMod_upd (k : K) (v old : V) (c : Slots K V) (hn : (chainKeys c).Nodup) (hk : lookup k c = some old) :
    ChainMod k (some v) c (upd k v c) :=
  ⟨fun x hx => Or.inr (by rwa [chainKeys_upd] at hx), by rwa [chainKeys_upd],
   fun x => lookup_upd k x v c (by simp [hk])⟩

theorem chainMod_del (k : K) (c : Slots K V) (hn : (chainKeys c).Nodup) : ChainMod k none c (del k c) :=
  ⟨fun _ hx => Or.inr ((chainKeys_del_sublist k c).subset hx), hn.sublist (chainKeys_del_sublist k c),
   fun x => lookup_del k x c hn⟩

theorem chainMod_fill (k : K) (v : V) (c c' : Slots K V) (hn : (chainKeys c).Nodup) (hk : lookup k c = none)
    (hf : fillFirst k v c = some c') : ChainMod k (some v) c c' := by
  have hp := chainKeys_fill k v c c' hf
  refine ⟨fun x hx => ?_, ?_, fun x => lookup_fill k x v c c' hk hf⟩
  · simpa using hp.subset hx
  · rw [hp.nodup_iff, List.nodup_cons]; exact ⟨(lookup_eq_none_iff k c).mp hk, hn⟩

theorem chainMod_append (S : Nat) (k : K) (v : V) (c : Slots K V) (hn : (chainKeys c).Nodup) (hk : lookup k c = none) :
    ChainMod k (some v) c (c ++ newBucket S k v) := by
  have hnot := (lookup_eq_none_iff k c).mp hk
  refine ⟨fun x hx => ?_, ?_, fun x => ?_⟩
  · rw [chainKeys_append, chainKeys_newBucket] at hx
    simp at hx; exact hx.symm
  · rw [chainKeys_append, chainKeys_newBucket]
    have : (chainKeys c ++ [k]).Perm (k :: chainKeys c) := List.perm_append_singleton _ _
    rw [this.nodup_iff, List.nodup_cons]; exact ⟨hnot, hn⟩
  · rw [lookup_append]
    by_cases hx : x = k
    · subst hx; simp [hk, lookup, newBucket]
    · simp [lookup, newBucket, Ne.symm hx, hx, lookup_replicate_none]

theorem chainMod_place (S : Nat) (k : K) (v : V) (c : Slots K V) (hn : (chainKeys c).Nodup) (hk : lookup k c = none) :
    ChainMod k (some v) c (place S k v c) := by
  unfold place
  split
  · rename_i s' hf; exact chainMod_fill k v c s' hn hk hf
  · exact chainMod_append S k v c hn hk

/-! ### tables -/

/-- the structural part of `TInv` (everything but the counter) -/
structure TInv0 (t : Tbl K V) : Prop where
  lenPos : 0 < t.len
  place : ∀ i, i < t.len → ∀ k ∈ chainKeys (t.chain i), t.bucketOf var env k = i
  nodup : ∀ i, i < t.len → (chainKeys (t.chain i)).Nodup

theorem TInv.toTInv0 {t : Tbl K V} (h : TInv var env t) : TInv0 var env t := ⟨h.lenPos, h.place, h.nodup⟩

theorem bucketOf_lt (hv : GoodVariant var) (t : Tbl K V) (hl : 0 < t.len) (k : K) : t.bucketOf var env k < t.len :=
  hv.bidx_lt _ _ hl

theorem chain_eq_getElem (t : Tbl K V) (i : Nat) (h : i < t.chains.length) : t.chain i = t.chains[i] := by
  simp [Tbl.chain, h]

theorem chain_of_ge (t : Tbl K V) (i : Nat) (h : t.len ≤ i) : t.chain i = [] := by
  unfold Tbl.len at h
  simp [Tbl.chain, h]

/-- `(k, v)` is an entry iff the search for `k` finds `v` -/
theorem mem_entries_iff {t : Tbl K V} (hi : TInv0 var env t) (k : K) (v : V) :
    (k, v) ∈ t.entries ↔ tget var env t k = some v := by
  unfold Tbl.entries tget
  rw [List.mem_flatMap]
  constructor
  · rintro ⟨c, hc, hm⟩
    obtain ⟨i, hlt, rfl⟩ := List.mem_iff_getElem.mp hc
    rw [← chain_eq_getElem t i hlt] at hm
    have hk : k ∈ chainKeys (t.chain i) := List.mem_map.mpr ⟨(k, v), hm, rfl⟩
    rw [hi.place i hlt k hk]
    exact (mem_occupied_iff _ (hi.nodup i hlt) k v).mp hm
  · intro hl
    have hlt : t.bucketOf var env k < t.len := by
      apply Nat.lt_of_not_le; intro hge
      rw [chain_of_ge t _ hge] at hl; simp [lookup] at hl
    refine ⟨t.chain (t.bucketOf var env k), ?_, (mem_occupied_iff _ (hi.nodup _ hlt) k v).mpr hl⟩
    rw [chain_eq_getElem t _ hlt]; exact List.getElem_mem _

theorem entries_WF {t : Tbl K V} (hi : TInv0 var env t) : AMap.WF t.entries := by
  unfold AMap.WF AMap.keys Tbl.entries
  rw [List.map_flatMap]
  unfold List.Nodup
  rw [List.pairwise_flatMap]
  constructor
  · intro c hc
    obtain ⟨i, hlt, rfl⟩ := List.mem_iff_getElem.mp hc
    have := hi.nodup i hlt
    rwa [chain_eq_getElem t i hlt] at this
  · rw [List.pairwise_iff_getElem]
    intro i j hi' hj hij x hx y hy hxy
    subst hxy
    have h1 := hi.place i hi' x (by rw [chain_eq_getElem t i hi']; exact hx)
    have h2 := hi.place j hj x (by rw [chain_eq_getElem t j hj]; exact hy)
    omega

theorem entries_get {t : Tbl K V} (hi : TInv0 var env t) (k : K) : AMap.get t.entries k = tget var env t k := by
  apply Option.ext
  intro v
  rw [← mem_entries_iff var env hi k v]
  exact (AMap.mem_iff_get t.entries (entries_WF var env hi) (k, v)).symm

theorem entries_length_of {t : Tbl K V} (hi : TInv0 var env t) (sp : AMap K V) (hw : AMap.WF sp)
    (hg : ∀ k, sp.get k = tget var env t k) : t.entries.length = sp.length :=
  (AMap.perm_of_get_eq t.entries sp (entries_WF var env hi) hw
    (fun k => by rw [entries_get var env hi k, hg k])).length_eq

/-- the workhorse: replace the chain of `k`'s bucket by one in which only `k`'s binding changed -/
theorem modify (hv : GoodVariant var) (t t' : Tbl K V) (k : K) (nv : Option V) (c' : Slots K V)
    (hi : TInv0 var env t)
    (hch : t'.chains = t.chains.set (t.bucketOf var env k) c') (hseed : t'.seed = t.seed)
    (hm : ChainMod k nv (t.chain (t.bucketOf var env k)) c') :
    TInv0 var env t' ∧ ∀ x, tget var env t' x = if x = k then nv else tget var env t x := by
  have hlen : t'.len = t.len := by simp [Tbl.len, hch]
  have hb : ∀ x, t'.bucketOf var env x = t.bucketOf var env x := by
    intro x; simp only [Tbl.bucketOf, hseed, hlen]
  have hlt := bucketOf_lt var env hv t hi.lenPos k
  have hc : ∀ j, t'.chain j = if t.bucketOf var env k = j then c' else t.chain j := by
    intro j
    unfold Tbl.len at hlt
    simp only [Tbl.chain, hch, List.getD_eq_getElem?_getD, List.getElem?_set, hlt, if_true]
    split <;> simp
  refine ⟨⟨by rw [hlen]; exact hi.lenPos, ?_, ?_⟩, ?_⟩
  · intro i hil x hx
    rw [hb]
    rw [hc] at hx
    split at hx
    · rename_i hij
      rcases hm.mem x hx with rfl | hx'
      · exact hij
      · rw [← hij]; exact hi.place _ hlt x hx'
    · exact hi.place i (by rw [← hlen]; exact hil) x hx
  · intro i hil
    rw [hc]
    split
    · exact hm.nodup
    · exact hi.nodup i (by rw [← hlen]; exact hil)
  · intro x
    unfold tget
    rw [hb, hc]
    split
    · rename_i hij
      rw [hm.look x, hij]
    · rename_i hij
      have : x ≠ k := by intro e; subst e; exact hij rfl
      rw [if_neg this]

theorem newTbl_len (len gen : Nat) : (newTbl (V := V) var env len gen).len = len := by
  simp [newTbl, Tbl.len]

theorem newTbl_chain (len gen i : Nat) : chainKeys ((newTbl (V := V) var env len gen).chain i) = [] := by
  simp only [newTbl, Tbl.chain, List.getD_eq_getElem?_getD, List.getElem?_replicate]
  split
  · simp [emptyChain, chainKeys_replicate_none]
  · simp

theorem newTbl_inv0 (len gen : Nat) (h : 0 < len) : TInv0 var env (newTbl (V := V) var env len gen) := by
  refine ⟨by rw [newTbl_len]; exact h, ?_, ?_⟩
  · intro i _ k hk; rw [newTbl_chain] at hk; simp at hk
  · intro i _; rw [newTbl_chain]; exact List.nodup_nil

theorem newTbl_tget (len gen : Nat) (k : K) : tget var env (newTbl (V := V) var env len gen) k = none := by
  unfold tget
  rw [lookup_eq_none_iff, newTbl_chain]; simp

theorem newTbl_entries (len gen : Nat) : (newTbl (V := V) var env len gen).entries = [] := by
  simp only [newTbl, Tbl.entries, List.flatMap_eq_nil_iff, List.mem_replicate]
  rintro c ⟨_, rfl⟩
  have := chainKeys_replicate_none (K := K) (V := V) var.S
  simpa [chainKeys, emptyChain] using this


/-! ### copying into a fresh table -/

theorem copyAll_cons (e : K × V) (es : List (K × V)) (d : Tbl K V) :
    copyAll var env (e :: es) d =
      copyAll var env es { (d.setChain (d.bucketOf var env e.1)
        (place var.S e.1 e.2 (d.chain (d.bucketOf var env e.1)))) with size := d.size + 1 } := rfl

theorem copyAll_spec (hv : GoodVariant var) : ∀ (es : List (K × V)) (d : Tbl K V),
    TInv0 var env d → AMap.WF es → (∀ e ∈ es, tget var env d e.1 = none) →
    TInv0 var env (copyAll var env es d) ∧ (copyAll var env es d).len = d.len ∧
    (copyAll var env es d).size = d.size + (es.length : Int) ∧
    ∀ x, tget var env (copyAll var env es d) x = (AMap.get es x).or (tget var env d x) := by
  intro es
  induction es with
  | nil => intro d hd _ _; exact ⟨hd, rfl, by simp [copyAll], fun x => by simp [copyAll]⟩
  | cons e es ih =>
    intro d hd hw habs
    obtain ⟨k, v⟩ := e
    simp only [AMap.WF, AMap.keys, List.map_cons, List.nodup_cons] at hw
    have hlt := bucketOf_lt var env hv d hd.lenPos k
    have hnone : lookup k (d.chain (d.bucketOf var env k)) = none := habs (k, v) (List.mem_cons_self)
    obtain ⟨h1, h1g⟩ := modify var env hv d
      { (d.setChain (d.bucketOf var env k) (place var.S k v (d.chain (d.bucketOf var env k)))) with size := d.size + 1 }
      k (some v) _ hd rfl rfl (chainMod_place var.S k v _ (hd.nodup _ hlt) hnone)
    have habs' : ∀ e ∈ es, tget var env
        { (d.setChain (d.bucketOf var env k) (place var.S k v (d.chain (d.bucketOf var env k)))) with size := d.size + 1 }
        e.1 = none := by
      intro e he
      rw [h1g]
      have : e.1 ≠ k := by
        intro hk; apply hw.1; rw [← hk]; exact List.mem_map.mpr ⟨e, he, rfl⟩
      rw [if_neg this]; exact habs e (List.mem_cons_of_mem _ he)
    obtain ⟨i1, i2, i3, i4⟩ := ih _ h1 hw.2 habs'
    rw [copyAll_cons]
    refine ⟨i1, ?_, ?_, ?_⟩
    · rw [i2]; simp [Tbl.len, Tbl.setChain]
    · rw [i3]; simp only [List.length_cons]; omega
    · intro x
      rw [i4, h1g, AMap.get_cons]
      by_cases hx : k = x
      · subst hx
        have : AMap.get es k = none := (AMap.get_eq_none_iff es k).mpr hw.1
        simp [this]
      · have hx' : x ≠ k := fun e => hx e.symm
        simp [hx, hx']

theorem rebuild (hv : GoodVariant var) (t : Tbl K V) (hi : TInv var env t) (n gen : Nat) (hn : 0 < n) :
    TInv var env (copyAll var env t.entries (newTbl var env n gen)) ∧
    (copyAll var env t.entries (newTbl var env n gen)).len = n ∧
    (copyAll var env t.entries (newTbl var env n gen)).size = t.size ∧
    ∀ k, tget var env (copyAll var env t.entries (newTbl var env n gen)) k = tget var env t k := by
  have h0 := hi.toTInv0
  obtain ⟨i1, i2, i3, i4⟩ := copyAll_spec var env hv t.entries (newTbl var env n gen)
    (newTbl_inv0 var env n gen hn) (entries_WF var env h0) (fun e _ => newTbl_tget var env n gen e.1)
  have hg : ∀ k, tget var env (copyAll var env t.entries (newTbl var env n gen)) k = tget var env t k := by
    intro k; rw [i4, newTbl_tget, entries_get var env h0]; simp
  have hs : (copyAll var env t.entries (newTbl var env n gen)).size = t.size := by
    rw [i3, hi.size]; simp [newTbl]
  refine ⟨⟨i1.lenPos, i1.place, i1.nodup, ?_⟩, by rw [i2, newTbl_len], hs, hg⟩
  rw [hs, hi.size, entries_length_of var env i1 t.entries (entries_WF var env h0)
    (fun k => by rw [hg, entries_get var env h0])]

/-! ### `Sim` -/

theorem Sim.size_eq {sp : AMap K V} {m : St K V} (h : Sim var env sp m) : m.tbl.size = (sp.length : Int) := by
  rw [h.inv.size, entries_length_of var env h.inv.toTInv0 sp h.wf h.get]

theorem sim_mk (sp : AMap K V) (m : St K V) (hw : AMap.WF sp) (h0 : TInv0 var env m.tbl)
    (hg : ∀ k, sp.get k = tget var env m.tbl k) (hs : m.tbl.size = (sp.length : Int)) (hm : 0 < m.minLen) :
    Sim var env sp m :=
  ⟨hw, ⟨h0.lenPos, h0.place, h0.nodup, by rw [hs, entries_length_of var env h0 sp hw hg]⟩, hg, hm⟩

theorem sim_rebuild (hv : GoodVariant var) (sp : AMap K V) (m m' : St K V) (h : Sim var env sp m) (n gen : Nat)
    (hn : 0 < n) (ht : m'.tbl = copyAll var env m.tbl.entries (newTbl var env n gen)) (hm : m'.minLen = m.minLen) :
    Sim var env sp m' := by
  obtain ⟨i1, _, i3, i4⟩ := rebuild var env hv m.tbl h.inv n gen hn
  refine ⟨h.wf, by rw [ht]; exact i1, fun k => by rw [ht, i4]; exact h.get k, by rw [hm]; exact h.minLenPos⟩

theorem resize_grow_sim (hv : GoodVariant var) (sp : AMap K V) (m : St K V) (h : Sim var env sp m) :
    Sim var env sp (resize var env m .grow) :=
  sim_rebuild var env hv sp m _ h (m.tbl.len * 2) m.gen (by have := h.inv.lenPos; omega) rfl rfl

theorem resize_shrink_sim (hv : GoodVariant var) (sp : AMap K V) (m : St K V) (h : Sim var env sp m) :
    Sim var env sp (resize var env m .shrink) := by
  unfold resize
  simp only
  split
  · exact h
  · split
    · rename_i hc
      simp only [Bool.and_eq_true, decide_eq_true_eq] at hc
      have := h.minLenPos
      exact sim_rebuild var env hv sp m _ h (m.tbl.len / 2) m.gen (by omega) rfl rfl
    · exact h

theorem resize_clear_sim (sp : AMap K V) (m : St K V) (h : Sim var env sp m) :
    Sim var env ([] : AMap K V) (resize var env m .clear) := by
  refine sim_mk var env [] _ AMap.WF_nil (newTbl_inv0 var env m.minLen m.gen h.minLenPos) ?_ ?_ h.minLenPos
  · intro k; exact (newTbl_tget var env m.minLen m.gen k).symm
  · rfl


/-! ### `doCompute` -/

theorem get_set' (sp : AMap K V) (k x : K) (v : V) :
    AMap.get (AMap.set sp k v) x = if x = k then some v else AMap.get sp x := by
  rw [AMap.get_set]; by_cases h : k = x
  · subst h; simp
  · have : x ≠ k := fun e => h e.symm
    simp [h, this]

theorem get_erase' (sp : AMap K V) (k x : K) :
    AMap.get (AMap.erase sp k) x = if x = k then none else AMap.get sp x := by
  rw [AMap.get_erase]; by_cases h : k = x
  · subst h; simp
  · have : x ≠ k := fun e => h e.symm
    simp [h, this]

theorem length_set_of_some (sp : AMap K V) (hw : AMap.WF sp) (k : K) (v old : V) (h : sp.get k = some old) :
    (AMap.set sp k v).length = sp.length := by
  have := AMap.length_erase_of_get_some sp hw k old h
  simp only [AMap.set, List.length_cons]; omega

theorem length_set_of_none (sp : AMap K V) (k : K) (v : V) (h : sp.get k = none) :
    (AMap.set sp k v).length = sp.length + 1 := by
  simp only [AMap.set, List.length_cons, AMap.erase_of_get_none sp k h]

theorem sim_modify (hv : GoodVariant var) (sp sp' : AMap K V) (m m' : St K V) (k : K) (nv : Option V)
    (c' : Slots K V) (h : Sim var env sp m)
    (hch : m'.tbl.chains = m.tbl.chains.set (m.tbl.bucketOf var env k) c') (hseed : m'.tbl.seed = m.tbl.seed)
    (hm : ChainMod k nv (m.tbl.chain (m.tbl.bucketOf var env k)) c')
    (hw' : AMap.WF sp') (hg' : ∀ x, sp'.get x = if x = k then nv else sp.get x)
    (hs : m'.tbl.size = (sp'.length : Int)) (hmin : m'.minLen = m.minLen) : Sim var env sp' m' := by
  obtain ⟨h0, hg⟩ := modify var env hv m.tbl m'.tbl k nv c' h.inv.toTInv0 hch hseed hm
  exact sim_mk var env sp' m' hw' h0 (fun x => by rw [hg', hg, h.get]) hs (by rw [hmin]; exact h.minLenPos)

/-- what `doCompute` does to a builtin map -/
def specDC (sp : AMap K V) (k : K) (g : Option V → V × Bool) (lie co : Bool) : AMap K V × (V × Bool) :=
  match sp.get k with
  | some old =>
    if lie then (sp, (old, !co))
    else if (g (some old)).2 then (sp.erase k, (old, !co))
    else (sp.set k (g (some old)).1, (if co then (g (some old)).1 else old, true))
  | none =>
    if (g none).2 then (sp, (default, false))
    else (sp.set k (g none).1, ((g none).1, co))

theorem sim_del (hv : GoodVariant var) (sp : AMap K V) (m : St K V) (k : K) (old : V) (h : Sim var env sp m)
    (hget : sp.get k = some old) :
    Sim var env (sp.erase k)
      { m with tbl := { (m.tbl.setChain (m.tbl.bucketOf var env k) (del k (m.tbl.chain (m.tbl.bucketOf var env k)))) with size := m.tbl.size - 1 } } := by
  have hlt := bucketOf_lt var env hv m.tbl h.inv.lenPos k
  refine sim_modify var env hv sp _ m _ k none _ h rfl rfl (chainMod_del k _ (h.inv.nodup _ hlt))
    (AMap.WF_erase sp k h.wf) (get_erase' sp k) ?_ rfl
  have := AMap.length_erase_of_get_some sp h.wf k old hget
  show m.tbl.size - 1 = _
  rw [Sim.size_eq var env h]; omega

theorem sim_upd (hv : GoodVariant var) (sp : AMap K V) (m : St K V) (k : K) (old v : V) (h : Sim var env sp m)
    (hget : sp.get k = some old) :
    Sim var env (sp.set k v)
      { m with tbl := m.tbl.setChain (m.tbl.bucketOf var env k) (upd k v (m.tbl.chain (m.tbl.bucketOf var env k))) } := by
  have hlt := bucketOf_lt var env hv m.tbl h.inv.lenPos k
  have hl : lookup k (m.tbl.chain (m.tbl.bucketOf var env k)) = some old := by
    have := h.get k; unfold tget at this; rw [← this, hget]
  refine sim_modify var env hv sp _ m _ k (some v) _ h rfl rfl (chainMod_upd k v old _ (h.inv.nodup _ hlt) hl)
    (AMap.WF_set sp k v h.wf) (fun x => get_set' sp k x v) ?_ rfl
  show m.tbl.size = _
  rw [Sim.size_eq var env h, length_set_of_some sp h.wf k v old hget]

theorem sim_ins (hv : GoodVariant var) (sp : AMap K V) (m : St K V) (k : K) (v : V) (c' : Slots K V)
    (h : Sim var env sp m) (hget : sp.get k = none)
    (hm : ChainMod k (some v) (m.tbl.chain (m.tbl.bucketOf var env k)) c') :
    Sim var env (sp.set k v)
      { m with tbl := { (m.tbl.setChain (m.tbl.bucketOf var env k) c') with size := m.tbl.size + 1 } } := by
  refine sim_modify var env hv sp _ m _ k (some v) _ h rfl rfl hm
    (AMap.WF_set sp k v h.wf) (fun x => get_set' sp k x v) ?_ rfl
  show m.tbl.size + 1 = _
  rw [Sim.size_eq var env h, length_set_of_none sp k v hget]; omega

theorem doCompute_refines (hv : GoodVariant var) (k : K) (g : Option V → V × Bool) (lie co : Bool) :
    ∀ (fuel : Nat) (sp : AMap K V) (m m' : St K V) (r : V × Bool), Sim var env sp m →
      doCompute var env m k g lie co fuel = some (m', r) →
      Sim var env (specDC sp k g lie co).1 m' ∧ r = (specDC sp k g lie co).2 := by
  intro fuel
  induction fuel with
  | zero => intro sp m m' r _ hd; simp [doCompute] at hd
  | succ fuel ih =>
    intro sp m m' r h hd
    rw [doCompute] at hd
    simp only [] at hd
    have hget := h.get k
    unfold tget at hget
    have hlt := bucketOf_lt var env hv m.tbl h.inv.lenPos k
    have hnd := h.inv.nodup _ hlt
    split at hd
    · rename_i old hl
      rw [hl] at hget
      by_cases hlie : lie = true
      · rw [if_pos hlie] at hd
        simp only [Option.some.injEq, Prod.mk.injEq] at hd
        obtain ⟨rfl, rfl⟩ := hd
        have hs : specDC sp k g lie co = (sp, (old, !co)) := by simp [specDC, hget, hlie]
        rw [hs]; exact ⟨h, rfl⟩
      · rw [if_neg hlie] at hd
        by_cases hdel : (g (some old)).2 = true
        · rw [if_pos hdel] at hd
          simp only [Option.some.injEq, Prod.mk.injEq] at hd
          obtain ⟨rfl, rfl⟩ := hd
          have hs : specDC sp k g lie co = (sp.erase k, (old, !co)) := by simp [specDC, hget, hlie, hdel]
          rw [hs]
          refine ⟨?_, rfl⟩
          have h1 := sim_del var env hv sp m k old h hget
          split
          · exact resize_shrink_sim var env hv _ _ h1
          · exact h1
        · rw [if_neg hdel] at hd
          simp only [Option.some.injEq, Prod.mk.injEq] at hd
          obtain ⟨rfl, rfl⟩ := hd
          have hs : specDC sp k g lie co =
              (sp.set k (g (some old)).1, (if co then (g (some old)).1 else old, true)) := by
            simp [specDC, hget, hlie, hdel]
          rw [hs]
          exact ⟨sim_upd var env hv sp m k old _ h hget, rfl⟩
    · rename_i hl
      rw [hl] at hget
      split at hd
      · rename_i chain' hf
        by_cases hdel : (g none).2 = true
        · rw [if_pos hdel] at hd
          simp only [Option.some.injEq, Prod.mk.injEq] at hd
          obtain ⟨rfl, rfl⟩ := hd
          have hs : specDC sp k g lie co = (sp, (default, false)) := by simp [specDC, hget, hdel]
          rw [hs]; exact ⟨h, rfl⟩
        · rw [if_neg hdel] at hd
          simp only [Option.some.injEq, Prod.mk.injEq] at hd
          obtain ⟨rfl, rfl⟩ := hd
          have hs : specDC sp k g lie co = (sp.set k (g none).1, ((g none).1, co)) := by
            simp [specDC, hget, hdel]
          rw [hs]
          exact ⟨sim_ins var env hv sp m k _ chain' h hget (chainMod_fill k _ _ chain' hnd hl hf), rfl⟩
      · by_cases hgrow : m.tbl.size > (var.growThr m.tbl.len : Int)
        · rw [if_pos hgrow] at hd
          exact ih sp _ m' r (resize_grow_sim var env hv sp m h) hd
        · rw [if_neg hgrow] at hd
          by_cases hdel : (g none).2 = true
          · rw [if_pos hdel] at hd
            simp only [Option.some.injEq, Prod.mk.injEq] at hd
            obtain ⟨rfl, rfl⟩ := hd
            have hs : specDC sp k g lie co = (sp, (default, false)) := by simp [specDC, hget, hdel]
            rw [hs]; exact ⟨h, rfl⟩
          · rw [if_neg hdel] at hd
            simp only [Option.some.injEq, Prod.mk.injEq] at hd
            obtain ⟨rfl, rfl⟩ := hd
            have hs : specDC sp k g lie co = (sp.set k (g none).1, ((g none).1, co)) := by
              simp [specDC, hget, hdel]
            rw [hs]
            exact ⟨sim_ins var env hv sp m k _ _ h hget (chainMod_append var.S k _ _ hnd hl), rfl⟩


/-! ### the interface calls -/

/-- the retry budget of `doCompute` is never exhausted: every retry doubles the table -/
theorem doCompute_some (hv : GoodVariant var) (m : St K V) (hi : TInv var env m.tbl) (k : K)
    (g : Option V → V × Bool) (lie co : Bool) (fuel : Nat) (hf : m.tbl.size.toNat - m.tbl.len < fuel) :
    (doCompute var env m k g lie co fuel).isSome := by
  induction fuel generalizing m with
  | zero => omega
  | succ fuel ih =>
    rw [doCompute]
    simp only []
    split
    · split
      · rfl
      · split <;> rfl
    · split
      · split <;> rfl
      · split
        · rename_i hgrow
          obtain ⟨i1, i2, i3, _⟩ := rebuild var env hv m.tbl hi (m.tbl.len * 2) m.gen
            (by have := hi.lenPos; omega)
          apply ih
          · exact i1
          · show (copyAll var env m.tbl.entries (newTbl var env (m.tbl.len * 2) m.gen)).size.toNat
              - (copyAll var env m.tbl.entries (newTbl var env (m.tbl.len * 2) m.gen)).len < fuel
            rw [i2, i3]
            have := hv.growThr_ge m.tbl.len
            have := hi.lenPos
            omega
        · split <;> rfl

theorem newSt_sim (len : Nat) (hl : 0 < len) (growOnly : Bool) :
    Sim var env ([] : AMap K V)
      { tbl := newTbl var env len 0, minLen := len, growOnly := growOnly, gen := 1, growths := 0, shrinks := 0 } :=
  sim_mk var env [] _ AMap.WF_nil (newTbl_inv0 var env len 0 hl)
    (fun k => (newTbl_tget var env len 0 k).symm) rfl hl

theorem dc_step (hv : GoodVariant var) (sp : AMap K V) (m : St K V) (h : Sim var env sp m) (k : K)
    (g : Option V → V × Bool) (lie co : Bool) :
    ∃ m' v b, doCompute var env m k g lie co (fuelFor m) = some (m', (v, b)) ∧
      Sim var env (specDC sp k g lie co).1 m' ∧ (v, b) = (specDC sp k g lie co).2 := by
  have hs := doCompute_some var env hv m h.inv k g lie co (fuelFor m) (by unfold fuelFor; omega)
  obtain ⟨⟨m', v, b⟩, hd⟩ := Option.isSome_iff_exists.mp hs
  exact ⟨m', v, b, hd, doCompute_refines var env hv k g lie co _ sp m m' (v, b) h hd⟩

theorem specDC_las (sp : AMap K V) (k : K) (v : V) :
    specDC sp k (fun _ => (v, false)) false false = sp.loadAndStore k v := by
  unfold specDC AMap.loadAndStore; cases sp.get k <;> simp

theorem specDC_los (sp : AMap K V) (k : K) (v : V) :
    specDC sp k (fun _ => (v, false)) true false = sp.loadOrStore k v := by
  unfold specDC AMap.loadOrStore; cases sp.get k <;> simp

theorem specDC_compute (sp : AMap K V) (k : K) (g : Option V → V × Bool) :
    specDC sp k g false true = sp.compute k g := by
  unfold specDC AMap.compute; cases sp.get k <;> simp

theorem specDC_lad (sp : AMap K V) (k : K) :
    specDC sp k (fun o => (o.getD default, true)) false false = sp.loadAndDelete k := by
  unfold specDC AMap.loadAndDelete; cases sp.get k <;> simp

theorem loadAndStore_fst (sp : AMap K V) (k : K) (v : V) : (sp.loadAndStore k v).1 = sp.store k v := by
  unfold AMap.loadAndStore AMap.store; cases sp.get k <;> rfl


/-- a new map (any presize hint that yields a non-empty table) is the empty map -/
theorem new_sim (hv : GoodVariant var) (hint : Int) (growOnly : Bool)
    (hlen : 0 < (new (V := V) var env hint growOnly).tbl.len) :
    Sim var env ([] : AMap K V) (new var env hint growOnly) := by
  have _ := hv
  unfold new at hlen ⊢
  simp only [newTbl_len] at hlen
  exact newSt_sim var env _ hlen growOnly

/-- **one call**: from related states, every interface call keeps the states related, answers what the
builtin map answers, and invokes the user function as often as the builtin-map semantics says -/
theorem step_refines (hv : GoodVariant var) (sp : AMap K V) (m : St K V) (h : Sim var env sp m) (op : MOp K V) :
    Sim var env (specStep sp op).1 (step var env m op).1 ∧
    OutRel sp op (step var env m op).2.out (specStep sp op).2.1 ∧
    (step var env m op).2.fnCalls = (specStep sp op).2.2 := by
  have hget : ∀ k, sp.get k = lookup k (m.tbl.chain (m.tbl.bucketOf var env k)) := h.get
  cases op with
  | load k =>
    simp only [step, specStep, OutRel, AMap.load, hget k]
    cases lookup k (m.tbl.chain (m.tbl.bucketOf var env k)) <;> exact ⟨h, rfl, rfl⟩
  | store k v =>
    obtain ⟨m', v', b, hd, hs, hr⟩ := dc_step var env hv sp m h k (fun _ => (v, false)) false false
    rw [specDC_las, loadAndStore_fst] at hs
    simp only [step, hd, wrap, specStep, OutRel]
    exact ⟨hs, by trivial, by trivial⟩
  | loadOrStore k v =>
    obtain ⟨m', v', b, hd, hs, hr⟩ := dc_step var env hv sp m h k (fun _ => (v, false)) true false
    rw [specDC_los] at hs hr
    simp only [step, hd, wrap, specStep, OutRel]
    refine ⟨hs, ?_, by trivial⟩
    rw [← hr]; rfl
  | loadAndStore k v =>
    obtain ⟨m', v', b, hd, hs, hr⟩ := dc_step var env hv sp m h k (fun _ => (v, false)) false false
    rw [specDC_las] at hs hr
    simp only [step, hd, wrap, specStep, OutRel]
    refine ⟨hs, ?_, by trivial⟩
    rw [← hr]; rfl
  | loadOrCompute k f =>
    obtain ⟨m', v', b, hd, hs, hr⟩ := dc_step var env hv sp m h k (fun _ => (f, false)) true false
    rw [specDC_los] at hs hr
    simp only [step, hd, wrap, specStep, OutRel]
    refine ⟨hs, ?_, ?_⟩
    · rw [← hr]; rfl
    · rw [hget k]
  | compute k g =>
    obtain ⟨m', v', b, hd, hs, hr⟩ := dc_step var env hv sp m h k g false true
    rw [specDC_compute] at hs hr
    simp only [step, hd, wrap, specStep, OutRel]
    refine ⟨hs, ?_, by trivial⟩
    rw [← hr]; rfl
  | loadAndDelete k =>
    obtain ⟨m', v', b, hd, hs, hr⟩ := dc_step var env hv sp m h k (fun o => (o.getD default, true)) false false
    rw [specDC_lad] at hs hr
    simp only [step, hd, wrap, specStep, OutRel]
    refine ⟨hs, ?_, by trivial⟩
    rw [← hr]; rfl
  | delete k =>
    obtain ⟨m', v', b, hd, hs, hr⟩ := dc_step var env hv sp m h k (fun o => (o.getD default, true)) false false
    rw [specDC_lad] at hs
    simp only [step, hd, wrap, specStep, OutRel]
    exact ⟨hs, by trivial, by trivial⟩
  | range f =>
    refine ⟨h, ⟨m.tbl.entries, ?_, rfl⟩, rfl⟩
    exact AMap.perm_of_get_eq _ _ (entries_WF var env h.inv.toTInv0) h.wf
      (fun k => by rw [entries_get var env h.inv.toTInv0, h.get])
  | clear =>
    exact ⟨resize_clear_sim var env sp m h, rfl, rfl⟩
  | size =>
    refine ⟨h, ?_, rfl⟩
    show MOut.size m.tbl.size = MOut.size (sp.size : Int)
    rw [Sim.size_eq var env h]; rfl


end
end Proofs.TableRefine
