import CacheVerif.Proofs.DeepCache
import CacheVerif.Proofs.ConcCacheSolo
/-!
# The steps of M5 are the atomic actions of the source text

`Deep.deepTrace` runs a method of the generated syntax through the interpreter with a *tracing* twin: every call on
the underlying map, every clock read and setting access **outside** a closure that runs under a bucket lock, every
traversal visit and every evicted-callback invocation is appended to a trace.  `soloTrace` lists, for a thread of
the concurrent model M5 that runs a call alone, the action of each of its steps (`evOf`).  `trace_eq` proves them
equal for every state and every call: M5 splits a call into exactly the atomic actions the current source text
performs, in the same order and on the same keys (a step of M5 that the code does not take — reading the clock in
`Set` when `d ≤ 0` — is marked as a silent step in `evOf`).  With `ConcCacheSolo.solo_eq_m2` (what the steps
compute) this ties the hand-written M5 to the text of `xsync_map.go`, up to the interleaving semantics itself.
-/
namespace DeepTrace
open Deep Model Spec Model.ConcCache Proofs.ConcCacheSolo
variable {K V : Type} [DecidableEq K] [Inhabited V]

-- <shared>
/-- the atomic action a step of M5 stands for (`[]`: no action of the code, a silent step of the model) -/
def evOf (l : L K V) (c : Choice K V) : List (Ev K V) :=
  match l.pc with
  | .idle | .ret => []
  | .setReadDflt => [.loadSetting "defaultExpiration"]
  | .setReadClock => if l.d > 0 then [.clock] else []
  | .setStore | .getLoad | .getCompute | .rmw | .gdCompute =>
    match opKey l with
    | some k => [match l.pc with | .setStore => .store k | .getLoad => .load k | _ => .compute k]
    | none => []
  | .getChkClock | .getTTLClock | .deReadClock => [.clock]
  | .gdReadCb | .deReadCb => [.loadSetting "evictedCallback"]
  | .gdFire =>
    match opKey l, l.removed, l.ec with
    | some k, some i, some cb => [.fire cb k i.v]
    | _, _, _ => []
  | .deVisit => match c.key with | some k => [.visit k] | none => []
  | .deCompute => match l.cur with | some (k, _) => [.compute k] | none => []
  | .deFire =>
    match l.queue, l.ec with
    | (k, v) :: _, some cb => [.fire cb k v]
    | _, _ => []
  | .clClear => [.clear]
  | .cntSize => [.size]
  | .sdStore => [.storeSetting "defaultExpiration"]
  | .scStore => [.storeSetting "evictedCallback"]

/-- the actions of thread 0 running alone through the given choices -/
def soloTrace (g : G K V) (l : L K V) : List (Choice K V) → Option (List (Ev K V))
  | [] => some []
  | c :: cs =>
    match tstep 0 g l c with
    | some (g', l') => (soloTrace g' l' cs).map fun t => evOf l c ++ t
    | none => none

-- </shared>
/-- the model's side and the code's side of one call: the per-step actions of a solo thread of M5 over the choices
`cs` are the trace the interpreter records on the method body, and that same (traced) run ends in the state and
result of the sequential step -/
def Agrees (g : G K V) (op : COp K V) (cs : List (Choice K V)) : Prop :=
  ∃ t, soloTrace g L.init (start op :: cs) = some t ∧
    deepTrace twinMapTr (view g) (toSpec op) =
      some ((Cache.step (view g) (toSpec op)).1, (Cache.step (view g) (toSpec op)).2, t)

macro "trace_simp" : tactic =>
  `(tactic| simp [Agrees, soloTrace, evOf, List.replicate, tstep, startOp, start, L.init, view, toSpec, opKey, afterHit,
      hitResult, missResult, linearize, AMap.load, deepTrace, twinMapTr, twinMap, deep_simp, *])

set_option maxRecDepth 8192

theorem trace_set (g : G K V) (k : K) (v : V) (d : Int) :
    ∃ n, Agrees g (.set k v d) (List.replicate n {}) := by
  by_cases h1 : d = Gen.DefaultExpiration
  · refine ⟨3, ?_⟩
    by_cases h3 : g.dflt > 0 <;> trace_simp
  · refine ⟨2, ?_⟩
    by_cases h2 : d > 0 <;> trace_simp

theorem trace_get (g : G K V) (k : K) :
    ∃ n, Agrees g (.get k) (List.replicate n {}) := by
  cases hg : g.items.get k with
  | none => exact ⟨1, by trace_simp⟩
  | some i =>
    by_cases he : Gen.item_expired i.e g.now
    · exact ⟨3, by trace_simp⟩
    · exact ⟨2, by trace_simp⟩

theorem trace_getWithExpiration (g : G K V) (k : K) :
    ∃ n, Agrees g (.getWithExpiration k) (List.replicate n {}) := by
  cases hg : g.items.get k with
  | none => exact ⟨1, by trace_simp⟩
  | some i =>
    by_cases he : Gen.item_expired i.e g.now
    · exact ⟨3, by trace_simp⟩
    · exact ⟨2, by by_cases hp : i.e > 0 <;> trace_simp⟩

theorem trace_getWithTTL (g : G K V) (k : K) :
    ∃ n, Agrees g (.getWithTTL k) (List.replicate n {}) := by
  cases hg : g.items.get k with
  | none => exact ⟨1, by trace_simp⟩
  | some i =>
    by_cases he : Gen.item_expired i.e g.now
    · exact ⟨3, by trace_simp⟩
    · by_cases hp : i.e > 0
      · exact ⟨3, by trace_simp⟩
      · exact ⟨2, by trace_simp⟩

theorem trace_getAndDelete (g : G K V) (k : K) :
    ∃ n, Agrees g (.getAndDelete k) (List.replicate n {}) := by
  cases hg : g.items.get k with
  | none => exact ⟨1, by trace_simp⟩
  | some i =>
    refine ⟨3, ?_⟩
    cases hc : g.cb <;> by_cases he : Gen.item_expired i.e g.now <;> trace_simp

theorem trace_delete (g : G K V) (k : K) :
    ∃ n, Agrees g (.delete k) (List.replicate n {}) := by
  cases hg : g.items.get k with
  | none => exact ⟨1, by trace_simp⟩
  | some i =>
    refine ⟨3, ?_⟩
    cases hc : g.cb <;> by_cases he : Gen.item_expired i.e g.now <;> trace_simp

theorem trace_misc (g : G K V) (d : Int) (c : Option Nat) :
    Agrees g .clear [{}] ∧
    Agrees g .count [{}] ∧
    Agrees g (.setDefaultExpiration d) [{}] ∧
    Agrees g (.setEvictedCallback c) [{}] := by
  refine ⟨?_, ?_, ?_, ?_⟩ <;> trace_simp

/-- the read-modify-write calls are one action: the `Compute`; clock and setting reads inside its closure happen
under the bucket lock and are not steps -/
theorem trace_getOrSet (g : G K V) (k : K) (v : V) (d : Int) :
    Agrees g (.getOrSet k v d) [{}] := by
  by_cases h1 : d = Gen.DefaultExpiration <;> by_cases h2 : d > 0 <;> by_cases h3 : g.dflt > 0 <;>
  cases hg : g.items.get k with
  | none => trace_simp
  | some i => by_cases he : Gen.item_expired i.e g.now <;> trace_simp

theorem trace_getAndSet (g : G K V) (k : K) (v : V) (d : Int) :
    Agrees g (.getAndSet k v d) [{}] := by
  by_cases h1 : d = Gen.DefaultExpiration <;> by_cases h2 : d > 0 <;> by_cases h3 : g.dflt > 0 <;>
  cases hg : g.items.get k with
  | none => trace_simp
  | some i => by_cases he : Gen.item_expired i.e g.now <;> trace_simp

theorem trace_getAndRefresh (g : G K V) (k : K) (d : Int) :
    Agrees g (.getAndRefresh k d) [{}] := by
  by_cases h1 : d = Gen.DefaultExpiration <;> by_cases h2 : d > 0 <;> by_cases h3 : g.dflt > 0 <;>
  cases hg : g.items.get k with
  | none => trace_simp
  | some i => by_cases he : Gen.item_expired i.e g.now <;> trace_simp

theorem trace_getOrCompute (g : G K V) (k : K) (f : V) (d : Int) :
    Agrees g (.getOrCompute k f d) [{}] := by
  by_cases h1 : d = Gen.DefaultExpiration <;> by_cases h2 : d > 0 <;> by_cases h3 : g.dflt > 0 <;>
  cases hg : g.items.get k with
  | none => trace_simp
  | some i => by_cases he : Gen.item_expired i.e g.now <;> trace_simp

theorem trace_compute_absent (g : G K V) (k : K) (f : Option V → V × Bool) (d : Int) (hg : g.items.get k = none) :
    Agrees g (.compute k f d) [{}] := by
  by_cases h1 : d = Gen.DefaultExpiration <;> by_cases h2 : d > 0 <;> by_cases h3 : g.dflt > 0 <;>
  cases hd : (f none).2 <;> trace_simp

theorem trace_compute_present (g : G K V) (k : K) (f : Option V → V × Bool) (d : Int) (i : Item V) (hg : g.items.get k = some i) :
    Agrees g (.compute k f d) [{}] := by
  by_cases he : Gen.item_expired i.e g.now
  · by_cases h1 : d = Gen.DefaultExpiration <;> by_cases h2 : d > 0 <;> by_cases h3 : g.dflt > 0 <;>
    cases hd : (f none).2 <;> trace_simp
  · by_cases h1 : d = Gen.DefaultExpiration <;> by_cases h2 : d > 0 <;> by_cases h3 : g.dflt > 0 <;>
    cases hd : (f (some i.v)).2 <;> trace_simp

theorem trace_compute (g : G K V) (k : K) (f : Option V → V × Bool) (d : Int) :
    Agrees g (.compute k f d) [{}] := by
  cases hg : g.items.get k with
  | none => exact trace_compute_absent g k f d hg
  | some i => exact trace_compute_present g k f d i hg

-- <shared>
/-! ### DeleteExpired -/

/-- actions of the traversal part of a pass over the snapshot `snap` -/
def visitEvs (now : Int) : List (K × Item V) → List (Ev K V)
  | [] => []
  | (k, i) :: rest =>
    if Gen.item_expiredWithNow i.e now then .visit k :: .compute k :: visitEvs now rest else .visit k :: visitEvs now rest

theorem soloTrace_append (g : G K V) (l : L K V) (a b : List (Choice K V)) :
    soloTrace g l (a ++ b) =
      match soloSteps g l a, soloTrace g l a with
      | some r, some t => (soloTrace r.1 r.2 b).map fun t' => t ++ t'
      | _, _ => none := by
  induction a generalizing g l with
  | nil => simp [soloSteps, soloTrace]
  | cons c a ih =>
    simp only [List.cons_append, soloSteps, soloTrace]
    cases tstep 0 g l c with
    | none => rfl
    | some r =>
      simp only [ih r.1 r.2]
      cases soloSteps r.1 r.2 a <;> cases soloTrace r.1 r.2 a <;> simp [Option.map]
      rename_i x y
      cases soloTrace x.1 x.2 b <;> simp

theorem trace_visits (snap : List (K × Item V)) (g : G K V) (l : L K V) (hpc : l.pc = .deVisit) :
    soloTrace g l (visitChoices l.passNow snap) = some (visitEvs l.passNow snap) := by
  induction snap generalizing g l with
  | nil => rfl
  | cons p snap ih =>
    obtain ⟨k, i⟩ := p
    by_cases he : Gen.item_expiredWithNow i.e l.passNow
    · simp only [visitChoices, visitEvs, he, if_true, soloTrace, tstep, hpc, evOf]
      rw [ih _ _ rfl]
      simp
    · simp only [visitChoices, visitEvs, he, soloTrace, tstep, hpc, evOf, Bool.false_eq_true, if_false]
      rw [ih g l hpc]
      simp

theorem trace_fire (q : List (K × V)) (c : Nat) (g : G K V) (l : L K V) (hpc : l.pc = .deFire) (hq : l.queue = q)
    (hec : l.ec = some c) :
    soloTrace g l (List.replicate (q.length + 1) {}) = some (q.map fun p => .fire c p.1 p.2) := by
  induction q generalizing g l with
  | nil => simp [List.replicate, soloTrace, tstep, hpc, hq, evOf]
  | cons p q ih =>
    obtain ⟨k, v⟩ := p
    simp only [List.length_cons, List.replicate_succ (n := q.length + 1), soloTrace, tstep, hpc, hq, hec, evOf]
    rw [ih _ _ rfl rfl rfl]
    simp

/-- traced version of `DeepCache.loop_sweep`: the visitor of `DeleteExpired` over a snapshot -/
theorem loop_sweep_tr (call : List (Val K V) → W K V → Deep.Res K V) (now : Int) (hasCb : Bool) (C N : Val K V)
    (hcall : ∀ k (i : Item V) (w : W K V) (ev : List (K × V)), w.heap = [.kvs ev, C, N] → w.atomic = false →
      call [.key k, ofItem i] w =
      some ([.bool true], { w with items := (Model.Cache.sweep now hasCb [(k, i)] (w.items, ev)).1,
                                   heap := [.kvs (Model.Cache.sweep now hasCb [(k, i)] (w.items, ev)).2, C, N],
                                   ev := w.ev ++ visitEvs now [(k, i)] }))
    (l : List (K × Item V)) (w : W K V) (ev : List (K × V)) (hw : w.heap = [.kvs ev, C, N]) (ha : w.atomic = false) :
    loopItems call l w = some { w with items := (Model.Cache.sweep now hasCb l (w.items, ev)).1,
                                       heap := [.kvs (Model.Cache.sweep now hasCb l (w.items, ev)).2, C, N],
                                       ev := w.ev ++ visitEvs now l } := by
  induction l generalizing w ev with
  | nil => cases w; simp only at hw; subst hw; simp [loopItems, Model.Cache.sweep, visitEvs]
  | cons p l ih =>
    obtain ⟨k, i⟩ := p
    simp only [loopItems, hcall k i w ev hw ha]
    rw [ih _ _ rfl (by simpa using ha), DeepCache.sweep_cons now hasCb (k, i) l]
    by_cases he : Gen.item_expiredWithNow i.e now <;> simp [visitEvs, he]

theorem loop_cbs_tr (body : Val K V → W K V → Option (Option (List (Val K V)) × W K V)) (c : Nat) (h0 : List (Val K V))
    (hbody : ∀ k a (w : W K V), w.heap = h0 → w.atomic = false →
      body (.kv k a) w = some (none, { w with cbs := w.cbs ++ [(c, k, a)], ev := w.ev ++ [.fire c k a] }))
    (l : List (K × V)) (w : W K V) (hw : w.heap = h0) (ha : w.atomic = false) :
    loopKvs body l w = some (none, { w with cbs := w.cbs ++ l.map (fun p => (c, p.1, p.2)),
                                            ev := w.ev ++ l.map fun p => .fire c p.1 p.2 }) := by
  induction l generalizing w with
  | nil => simp [loopKvs]
  | cons p l ih =>
    obtain ⟨k, a⟩ := p
    simp only [loopKvs, hbody k a w hw ha]
    rw [ih _ (by simpa using hw) (by simpa using ha)]
    simp

-- </shared>
/-- symbolic evaluation of the visitor of `DeleteExpired` on one snapshot entry (the goal produced by
`loop_sweep_tr`'s `hcall`) -/
macro "sweep_visitor_eval" now:term : tactic =>
  `(tactic| (
      intro k i w ev hw ha
      cases w; simp only at hw ha; subst hw; subst ha
      rename_i items' _ _ _ _ _ _ _
      by_cases he : Gen.item_expiredWithNow i.e $now
      · cases hg : AMap.get items' k with
        | none => simp [deep_simp, twinMapTr, twinMap, hide, he, hg, Model.Cache.sweep, Model.Cache.sweepFn, visitEvs]
        | some c' => by_cases he2 : Gen.item_expiredWithNow c'.e $now <;>
            simp [deep_simp, twinMapTr, twinMap, hide, he, hg, he2, Model.Cache.sweep, Model.Cache.sweepFn, visitEvs]
      · simp [deep_simp, twinMapTr, twinMap, hide, he, Model.Cache.sweep, visitEvs]))

theorem trace_deleteExpired (g : G K V) : ∃ cs, Agrees g .deleteExpired cs := by
  obtain ⟨items, now, dflt, cb, ledger, abs⟩ := g
  cases cb with
  | none =>
    let g : G K V := ⟨items, now, dflt, none, ledger, abs⟩
    let l0 : L K V := { (startOp L.init .deleteExpired) with pc := .deVisit, ec := none, passNow := now, queue := [] }
    obtain ⟨er, hv⟩ := solo_visits items g l0 rfl rfl
    have ht := trace_visits items g l0 rfl
    have hq : (Cache.sweep now false items (items, [])).2 = [] := sweep_noCb _ _ _
    refine ⟨nop :: nop :: (visitChoices now items ++ [{ key := none }, nop]),
      [.loadSetting "evictedCallback", .clock] ++ visitEvs now items, ?_, ?_⟩
    · -- the model's side
      simp only [soloTrace, tstep, start, startOp, L.init, nop, evOf]
      rw [soloTrace_append]
      simp only [g, l0, startOp, L.init, Option.isSome] at hv ht
      rw [hv, ht]
      simp [soloTrace, tstep, evOf, hq]
    · -- the code's side
      simp [deepTrace, deep_simp, twinMapTr, twinMap, view, toSpec]
      rw [loop_sweep_tr (now := now) (hasCb := false) (C := .ecb none) (N := .int now) (ev := [])]
      case hw => rfl
      case ha => rfl
      case hcall => sweep_visitor_eval now
      simp [deep_simp, hq, loopKvs]
  | some c =>
    let g : G K V := ⟨items, now, dflt, some c, ledger, abs⟩
    let l0 : L K V := { (startOp L.init .deleteExpired) with pc := .deVisit, ec := some c, passNow := now, queue := [] }
    obtain ⟨er, hv⟩ := solo_visits items g l0 rfl rfl
    have ht := trace_visits items g l0 rfl
    refine ⟨nop :: nop :: (visitChoices now items ++ ({ key := none } :: List.replicate ((Cache.sweep now true items (items, [])).2.length + 1) nop)),
      [.loadSetting "evictedCallback", .clock] ++ visitEvs now items ++
        (Cache.sweep now true items (items, [])).2.map (fun p => .fire c p.1 p.2), ?_, ?_⟩
    · -- the model's side
      simp only [soloTrace, tstep, start, startOp, L.init, nop, evOf]
      rw [soloTrace_append]
      simp only [g, l0, startOp, L.init, Option.isSome] at hv ht
      rw [hv, ht]
      simp only [soloTrace, tstep, evOf]
      rw [trace_fire (Cache.sweep now true items (items, [])).2 c _ _ rfl rfl rfl]
      simp
    · -- the code's side
      simp [deepTrace, deep_simp, twinMapTr, twinMap, view, toSpec]
      rw [loop_sweep_tr (now := now) (hasCb := true) (C := .ecb (some c)) (N := .int now) (ev := [])]
      case hw => rfl
      case ha => rfl
      case hcall => sweep_visitor_eval now
      simp [deep_simp]
      rw [loop_cbs_tr (c := c) (h0 := [Val.kvs (Model.Cache.sweep now true items (items, [])).snd, Val.ecb (some c), Val.int now])]
      case hw => rfl
      case ha => rfl
      case hbody =>
        intro k a w hw ha
        cases w; simp only at hw ha; subst hw; subst ha
        simp [deep_simp, twinMapTr, twinMap, hide]
      simp [deep_simp]

/-- **M5 splits every call into exactly the atomic actions of the source text.**  For every state and every call
of the concurrent model's interface: the actions of a thread running the call alone (one per step of M5, `evOf`)
are the actions the interpreter records when it runs the method body printed from the working tree. -/
theorem trace_eq (g : G K V) (op : COp K V) : ∃ cs, Agrees g op cs := by
  cases op with
  | set k v d => obtain ⟨n, h⟩ := trace_set g k v d; exact ⟨_, h⟩
  | get k => obtain ⟨n, h⟩ := trace_get g k; exact ⟨_, h⟩
  | getWithExpiration k => obtain ⟨n, h⟩ := trace_getWithExpiration g k; exact ⟨_, h⟩
  | getWithTTL k => obtain ⟨n, h⟩ := trace_getWithTTL g k; exact ⟨_, h⟩
  | getOrSet k v d => exact ⟨_, trace_getOrSet g k v d⟩
  | getAndSet k v d => exact ⟨_, trace_getAndSet g k v d⟩
  | getAndRefresh k d => exact ⟨_, trace_getAndRefresh g k d⟩
  | getOrCompute k f d => exact ⟨_, trace_getOrCompute g k f d⟩
  | compute k f d => exact ⟨_, trace_compute g k f d⟩
  | getAndDelete k => obtain ⟨n, h⟩ := trace_getAndDelete g k; exact ⟨_, h⟩
  | delete k => obtain ⟨n, h⟩ := trace_delete g k; exact ⟨_, h⟩
  | deleteExpired => exact trace_deleteExpired g
  | clear => exact ⟨_, (trace_misc g 0 none).1⟩
  | count => exact ⟨_, (trace_misc g 0 none).2.1⟩
  | setDefaultExpiration d => exact ⟨_, (trace_misc g d none).2.2.1⟩
  | setEvictedCallback c => exact ⟨_, (trace_misc g 0 c).2.2.2⟩

-- <shared>
/-- no step of M5 stands for a callback invoked under a bucket lock -/
theorem soloTrace_unlocked (cs : List (Choice K V)) (g : G K V) (l : L K V) (t : List (Ev K V))
    (h : soloTrace g l cs = some t) : Ev.calledLocked ∉ t := by
  induction cs generalizing g l t with
  | nil => simp [soloTrace] at h; subst h; simp
  | cons c cs ih =>
    simp only [soloTrace] at h
    cases hs : tstep 0 g l c with
    | none => simp [hs] at h
    | some r =>
      simp only [hs, Option.map_eq_some_iff] at h
      obtain ⟨t', ht', rfl⟩ := h
      have := ih r.1 r.2 t' ht'
      simp only [List.mem_append, not_or]
      refine ⟨?_, this⟩
      unfold evOf
      cases l.pc <;> simp <;> (try split) <;> simp

-- </shared>
/-- **the evicted callback is never invoked from inside a closure that runs under a bucket lock**, in the text of
every method of the concurrent interface: the recorded trace contains no `calledLocked` -/
theorem callbacks_unlocked (s : CSt K V) (op : COp K V) :
    ∀ r, deepTrace twinMapTr s (toSpec op) = some r → Ev.calledLocked ∉ r.2.2 := by
  intro r hr
  obtain ⟨cs, t, h1, h2⟩ := trace_eq (⟨s.items, s.now, s.dflt, s.cb, [], TTL.init s.dflt s.cb s.now⟩ : G K V) op
  have hv : view (⟨s.items, s.now, s.dflt, s.cb, [], TTL.init s.dflt s.cb s.now⟩ : G K V) = s := rfl
  rw [hv, hr] at h2
  injection h2 with h2
  subst h2
  exact soloTrace_unlocked _ _ _ _ h1

end DeepTrace
