import CacheVerif.Proofs.DeepSimpSet
import CacheVerif.Proofs.DeepTraceCommon
/-!
# The steps of M5 are the atomic actions of the source text

`Deep.deepTrace` runs a method of the generated syntax through the interpreter with a *tracing* twin: every call on
the underlying map, every clock read and setting access **outside** a closure that runs under a bucket lock, every
traversal visit and every evicted-callback invocation is appended to a trace.  `soloTrace` lists, for a thread of
the concurrent model M5 that runs a call alone, the action of each of its steps (`evOf`).  `trace_eq` proves them
equal for every state and every call: M5 splits a call into exactly the atomic actions the current source text
performs, in the same order and on the same keys (a step of M5 that the code does not take — reading the clock in
`Set` when `d ≤ 0` — is marked as a silent step in `evOf`).  With `ConcCacheSolo.solo_eq_m2` (what the steps
compute) this ties the hand-written M5 to the text of `xsync_map.go`, up to the interleaving semantics itself.
-/
namespace DeepTrace
open Deep Model Spec Model.ConcCache Proofs.ConcCacheSolo
variable {K V : Type} [DecidableEq K] [Inhabited V]
open DeepTraceCommon

/-- the model's side and the code's side of one call: the per-step actions of a solo thread of M5 over the choices
`cs` are the trace the interpreter records on the method body, and that same (traced) run ends in the state and
result of the sequential step -/
def Agrees (g : G K V) (op : COp K V) (cs : List (Choice K V)) : Prop :=
  ∃ t, soloTrace g L.init (start op :: cs) = some t ∧
    deepTrace twinMapTr (view g) (toSpec op) =
      some ((Cache.step (view g) (toSpec op)).1, (Cache.step (view g) (toSpec op)).2, t)

macro "trace_simp" : tactic =>
  `(tactic| simp [Agrees, soloTrace, evOf, List.replicate, tstep, startOp, start, L.init, view, toSpec, opKey, afterHit,
      hitResult, missResult, linearize, AMap.load, deepTrace, twinMapTr, twinMap, deep_simp, *])

set_option maxRecDepth 8192

theorem trace_set (g : G K V) (k : K) (v : V) (d : Int) :
    ∃ n, Agrees g (.set k v d) (List.replicate n {}) := by
  by_cases h1 : d = Gen.DefaultExpiration
  · refine ⟨3, ?_⟩
    by_cases h3 : g.dflt > 0 <;> trace_simp
  · refine ⟨2, ?_⟩
    by_cases h2 : d > 0 <;> trace_simp

theorem trace_get (g : G K V) (k : K) :
    ∃ n, Agrees g (.get k) (List.replicate n {}) := by
  cases hg : g.items.get k with
  | none => exact ⟨1, by trace_simp⟩
  | some i =>
    by_cases he : Gen.item_expired i.e g.now
    · exact ⟨3, by trace_simp⟩
    · exact ⟨2, by trace_simp⟩

theorem trace_getWithExpiration (g : G K V) (k : K) :
    ∃ n, Agrees g (.getWithExpiration k) (List.replicate n {}) := by
  cases hg : g.items.get k with
  | none => exact ⟨1, by trace_simp⟩
  | some i =>
    by_cases he : Gen.item_expired i.e g.now
    · exact ⟨3, by trace_simp⟩
    · exact ⟨2, by by_cases hp : i.e > 0 <;> trace_simp⟩

theorem trace_getWithTTL (g : G K V) (k : K) :
    ∃ n, Agrees g (.getWithTTL k) (List.replicate n {}) := by
  cases hg : g.items.get k with
  | none => exact ⟨1, by trace_simp⟩
  | some i =>
    by_cases he : Gen.item_expired i.e g.now
    · exact ⟨3, by trace_simp⟩
    · by_cases hp : i.e > 0
      · exact ⟨3, by trace_simp⟩
      · exact ⟨2, by trace_simp⟩

theorem trace_getAndDelete (g : G K V) (k : K) :
    ∃ n, Agrees g (.getAndDelete k) (List.replicate n {}) := by
  cases hg : g.items.get k with
  | none => exact ⟨1, by trace_simp⟩
  | some i =>
    refine ⟨3, ?_⟩
    cases hc : g.cb <;> by_cases he : Gen.item_expired i.e g.now <;> trace_simp

theorem trace_delete (g : G K V) (k : K) :
    ∃ n, Agrees g (.delete k) (List.replicate n {}) := by
  cases hg : g.items.get k with
  | none => exact ⟨1, by trace_simp⟩
  | some i =>
    refine ⟨3, ?_⟩
    cases hc : g.cb <;> by_cases he : Gen.item_expired i.e g.now <;> trace_simp

theorem trace_misc (g : G K V) (d : Int) (c : Option Nat) :
    Agrees g .clear [{}] ∧
    Agrees g .count [{}] ∧
    Agrees g (.setDefaultExpiration d) [{}] ∧
    Agrees g (.setEvictedCallback c) [{}] := by
  refine ⟨?_, ?_, ?_, ?_⟩ <;> trace_simp

/-- the read-modify-write calls are one action: the `Compute`; clock and setting reads inside its closure happen
under the bucket lock and are not steps -/
theorem trace_getOrSet (g : G K V) (k : K) (v : V) (d : Int) :
    Agrees g (.getOrSet k v d) [{}] := by
  by_cases h1 : d = Gen.DefaultExpiration <;> by_cases h2 : d > 0 <;> by_cases h3 : g.dflt > 0 <;>
  cases hg : g.items.get k with
  | none => trace_simp
  | some i => by_cases he : Gen.item_expired i.e g.now <;> trace_simp

theorem trace_getAndSet (g : G K V) (k : K) (v : V) (d : Int) :
    Agrees g (.getAndSet k v d) [{}] := by
  by_cases h1 : d = Gen.DefaultExpiration <;> by_cases h2 : d > 0 <;> by_cases h3 : g.dflt > 0 <;>
  cases hg : g.items.get k with
  | none => trace_simp
  | some i => by_cases he : Gen.item_expired i.e g.now <;> trace_simp

theorem trace_getAndRefresh (g : G K V) (k : K) (d : Int) :
    Agrees g (.getAndRefresh k d) [{}] := by
  by_cases h1 : d = Gen.DefaultExpiration <;> by_cases h2 : d > 0 <;> by_cases h3 : g.dflt > 0 <;>
  cases hg : g.items.get k with
  | none => trace_simp
  | some i => by_cases he : Gen.item_expired i.e g.now <;> trace_simp

theorem trace_getOrCompute (g : G K V) (k : K) (f : V) (d : Int) :
    Agrees g (.getOrCompute k f d) [{}] := by
  by_cases h1 : d = Gen.DefaultExpiration <;> by_cases h2 : d > 0 <;> by_cases h3 : g.dflt > 0 <;>
  cases hg : g.items.get k with
  | none => trace_simp
  | some i => by_cases he : Gen.item_expired i.e g.now <;> trace_simp

theorem trace_compute_absent (g : G K V) (k : K) (f : Option V → V × Bool) (d : Int) (hg : g.items.get k = none) :
    Agrees g (.compute k f d) [{}] := by
  by_cases h1 : d = Gen.DefaultExpiration <;> by_cases h2 : d > 0 <;> by_cases h3 : g.dflt > 0 <;>
  cases hd : (f none).2 <;> trace_simp

theorem trace_compute_present (g : G K V) (k : K) (f : Option V → V × Bool) (d : Int) (i : Item V) (hg : g.items.get k = some i) :
    Agrees g (.compute k f d) [{}] := by
  by_cases he : Gen.item_expired i.e g.now
  · by_cases h1 : d = Gen.DefaultExpiration <;> by_cases h2 : d > 0 <;> by_cases h3 : g.dflt > 0 <;>
    cases hd : (f none).2 <;> trace_simp
  · by_cases h1 : d = Gen.DefaultExpiration <;> by_cases h2 : d > 0 <;> by_cases h3 : g.dflt > 0 <;>
    cases hd : (f (some i.v)).2 <;> trace_simp

theorem trace_compute (g : G K V) (k : K) (f : Option V → V × Bool) (d : Int) :
    Agrees g (.compute k f d) [{}] := by
  cases hg : g.items.get k with
  | none => exact trace_compute_absent g k f d hg
  | some i => exact trace_compute_present g k f d i hg

/-- symbolic evaluation of the visitor of `DeleteExpired` on one snapshot entry (the goal produced by
`loop_sweep_tr`'s `hcall`) -/
macro "sweep_visitor_eval" now:term : tactic =>
  `(tactic| (
      intro k i w ev hw ha
      cases w; simp only at hw ha; subst hw; subst ha
      rename_i items' _ _ _ _ _ _ _
      by_cases he : Gen.item_expiredWithNow i.e $now
      · cases hg : AMap.get items' k with
        | none => simp [deep_simp, twinMapTr, twinMap, hide, he, hg, Model.Cache.sweep, Model.Cache.sweepFn, visitEvs]
        | some c' => by_cases he2 : Gen.item_expiredWithNow c'.e $now <;>
            simp [deep_simp, twinMapTr, twinMap, hide, he, hg, he2, Model.Cache.sweep, Model.Cache.sweepFn, visitEvs]
      · simp [deep_simp, twinMapTr, twinMap, hide, he, Model.Cache.sweep, visitEvs]))

theorem trace_deleteExpired (g : G K V) : ∃ cs, Agrees g .deleteExpired cs := by
  obtain ⟨items, now, dflt, cb, ledger, abs⟩ := g
  cases cb with
  | none =>
    let g : G K V := ⟨items, now, dflt, none, ledger, abs⟩
    let l0 : L K V := { (startOp L.init .deleteExpired) with pc := .deVisit, ec := none, passNow := now, queue := [] }
    obtain ⟨er, hv⟩ := solo_visits items g l0 rfl rfl
    have ht := trace_visits items g l0 rfl
    have hq : (Cache.sweep now false items (items, [])).2 = [] := sweep_noCb _ _ _
    refine ⟨nop :: nop :: (visitChoices now items ++ [{ key := none }, nop]),
      [.loadSetting "evictedCallback", .clock] ++ visitEvs now items, ?_, ?_⟩
    · -- the model's side
      simp only [soloTrace, tstep, start, startOp, L.init, nop, evOf]
      rw [soloTrace_append]
      simp only [g, l0, startOp, L.init, Option.isSome] at hv ht
      rw [hv, ht]
      simp [soloTrace, tstep, evOf, hq]
    · -- the code's side
      simp [deepTrace, deep_simp, twinMapTr, twinMap, view, toSpec]
      rw [loop_sweep_tr (now := now) (hasCb := false) (C := .ecb none) (N := .int now) (ev := [])]
      case hw => rfl
      case ha => rfl
      case hcall => sweep_visitor_eval now
      simp [deep_simp, hq, loopKvs]
  | some c =>
    let g : G K V := ⟨items, now, dflt, some c, ledger, abs⟩
    let l0 : L K V := { (startOp L.init .deleteExpired) with pc := .deVisit, ec := some c, passNow := now, queue := [] }
    obtain ⟨er, hv⟩ := solo_visits items g l0 rfl rfl
    have ht := trace_visits items g l0 rfl
    refine ⟨nop :: nop :: (visitChoices now items ++ ({ key := none } :: List.replicate ((Cache.sweep now true items (items, [])).2.length + 1) nop)),
      [.loadSetting "evictedCallback", .clock] ++ visitEvs now items ++
        (Cache.sweep now true items (items, [])).2.map (fun p => .fire c p.1 p.2), ?_, ?_⟩
    · -- the model's side
      simp only [soloTrace, tstep, start, startOp, L.init, nop, evOf]
      rw [soloTrace_append]
      simp only [g, l0, startOp, L.init, Option.isSome] at hv ht
      rw [hv, ht]
      simp only [soloTrace, tstep, evOf]
      rw [trace_fire (Cache.sweep now true items (items, [])).2 c _ _ rfl rfl rfl]
      simp
    · -- the code's side
      simp [deepTrace, deep_simp, twinMapTr, twinMap, view, toSpec]
      rw [loop_sweep_tr (now := now) (hasCb := true) (C := .ecb (some c)) (N := .int now) (ev := [])]
      case hw => rfl
      case ha => rfl
      case hcall => sweep_visitor_eval now
      simp [deep_simp]
      rw [loop_cbs_tr (c := c) (h0 := [Val.kvs (Model.Cache.sweep now true items (items, [])).snd, Val.ecb (some c), Val.int now])]
      case hw => rfl
      case ha => rfl
      case hbody =>
        intro k a w hw ha
        cases w; simp only at hw ha; subst hw; subst ha
        simp [deep_simp, twinMapTr, twinMap, hide]
      simp [deep_simp]

/-- **M5 splits every call into exactly the atomic actions of the source text.**  For every state and every call
of the concurrent model's interface: the actions of a thread running the call alone (one per step of M5, `evOf`)
are the actions the interpreter records when it runs the method body printed from the working tree. -/
theorem trace_eq (g : G K V) (op : COp K V) : ∃ cs, Agrees g op cs := by
  cases op with
  | set k v d => obtain ⟨n, h⟩ := trace_set g k v d; exact ⟨_, h⟩
  | get k => obtain ⟨n, h⟩ := trace_get g k; exact ⟨_, h⟩
  | getWithExpiration k => obtain ⟨n, h⟩ := trace_getWithExpiration g k; exact ⟨_, h⟩
  | getWithTTL k => obtain ⟨n, h⟩ := trace_getWithTTL g k; exact ⟨_, h⟩
  | getOrSet k v d => exact ⟨_, trace_getOrSet g k v d⟩
  | getAndSet k v d => exact ⟨_, trace_getAndSet g k v d⟩
  | getAndRefresh k d => exact ⟨_, trace_getAndRefresh g k d⟩
  | getOrCompute k f d => exact ⟨_, trace_getOrCompute g k f d⟩
  | compute k f d => exact ⟨_, trace_compute g k f d⟩
  | getAndDelete k => obtain ⟨n, h⟩ := trace_getAndDelete g k; exact ⟨_, h⟩
  | delete k => obtain ⟨n, h⟩ := trace_delete g k; exact ⟨_, h⟩
  | deleteExpired => exact trace_deleteExpired g
  | clear => exact ⟨_, (trace_misc g 0 none).1⟩
  | count => exact ⟨_, (trace_misc g 0 none).2.1⟩
  | setDefaultExpiration d => exact ⟨_, (trace_misc g d none).2.2.1⟩
  | setEvictedCallback c => exact ⟨_, (trace_misc g 0 c).2.2.2⟩

/-- **the evicted callback is never invoked from inside a closure that runs under a bucket lock**, in the text of
every method of the concurrent interface: the recorded trace contains no `calledLocked` -/
theorem callbacks_unlocked (s : CSt K V) (op : COp K V) :
    ∀ r, deepTrace twinMapTr s (toSpec op) = some r → Ev.calledLocked ∉ r.2.2 := by
  intro r hr
  obtain ⟨cs, t, h1, h2⟩ := trace_eq (⟨s.items, s.now, s.dflt, s.cb, [], TTL.init s.dflt s.cb s.now⟩ : G K V) op
  have hv : view (⟨s.items, s.now, s.dflt, s.cb, [], TTL.init s.dflt s.cb s.now⟩ : G K V) = s := rfl
  rw [hv, hr] at h2
  injection h2 with h2
  subst h2
  exact soloTrace_unlocked _ _ _ _ h1

/-- `Range` with a user visitor, traced: the state and result of the sequential step, and the recorded actions are
the clock read and one visit per snapshot entry handed over - the visitor is never invoked under a bucket lock -/
theorem trace_range (s : CSt K V) (f : K → V → Bool) :
    deepTrace twinMapTr s (.range f) =
      some ((Cache.step s (.range f)).1, (Cache.step s (.range f)).2, .clock :: rangeEvs s.now f s.items) := by
  simp [deepTrace, deep_simp, twinMapTr, twinMap]
  rw [loop_walk_tr (now := s.now) (f := f) (h0 := [Val.ufn (UFn.visitor f), Val.int s.now])]
  case hw => rfl
  case ha => rfl
  case hcall =>
    intro k i w hw ha
    cases w; simp only at hw ha; subst hw; subst ha
    by_cases he : Gen.item_expiredWithNow i.e s.now <;> simp [deep_simp, twinMapTr, twinMap, hide, he]
  simp

theorem visitor_unlocked (s : CSt K V) (f : K → V → Bool) :
    ∀ r, deepTrace twinMapTr s (.range f) = some r → Ev.calledLocked ∉ r.2.2 := by
  intro r hr
  rw [trace_range] at hr
  injection hr with hr
  subst hr
  simp [rangeEvs_unlocked]

/-! ### Lookups read only: the actions of the `Get` family on a live or absent key, and of `Count` -/

/-- an action that takes no bucket lock and writes nothing: a lock-free `Load`, `Size`, a clock read -/
def readOnly : Ev K V → Bool
  | .load _ | .size | .clock => true
  | _ => false

theorem lookup_actions_absent (s : CSt K V) (k : K) (hg : s.items.get k = none) :
    (deepTrace twinMapTr s (.get k)).map (·.2.2) = some [.load k] ∧
    (deepTrace twinMapTr s (.getWithExpiration k)).map (·.2.2) = some [.load k] ∧
    (deepTrace twinMapTr s (.getWithTTL k)).map (·.2.2) = some [.load k] := by
  refine ⟨?_, ?_, ?_⟩ <;> trace_simp

theorem lookup_actions_live (s : CSt K V) (k : K) (i : Item V) (hg : s.items.get k = some i)
    (he : Gen.item_expired i.e s.now = false) :
    (deepTrace twinMapTr s (.get k)).map (·.2.2) = some [.load k, .clock] ∧
    (deepTrace twinMapTr s (.getWithExpiration k)).map (·.2.2) = some [.load k, .clock] ∧
    ((deepTrace twinMapTr s (.getWithTTL k)).map (·.2.2) = some [.load k, .clock] ∨
     (deepTrace twinMapTr s (.getWithTTL k)).map (·.2.2) = some [.load k, .clock, .clock]) := by
  refine ⟨?_, ?_, ?_⟩
  · trace_simp
  · by_cases hp : i.e > 0 <;> trace_simp
  · by_cases hp : i.e > 0
    · right; trace_simp
    · left; trace_simp

theorem count_actions (s : CSt K V) : (deepTrace twinMapTr s .count).map (·.2.2) = some [.size] := by
  trace_simp

end DeepTrace
