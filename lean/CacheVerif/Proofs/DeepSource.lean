import CacheVerif.Proofs.DeepCache
import CacheVerif.Proofs.DeepCacheOf
import CacheVerif.Proofs.Twin
/-!
Both files at once: for either twin, the interpreter run on the generated method bodies computes the step of the
(one) hand-written model `Model.Cache` — `deep_step` for each file, and the twins' models are equal.
-/
namespace DeepSource
open Deep Model
variable {K V : Type} [DecidableEq K] [Inhabited V]

/-- `T` is the interpreter instance of one of the two source files -/
def IsTwin (T : Twin K V) : Prop := T = twinMap ∨ T = twinMapOf

theorem step (s : CSt K V) (op : Op K V) (T : Twin K V) (hT : IsTwin T) :
    deepStep T s op = some (Model.Cache.step s op) := by
  rcases hT with rfl | rfl
  · exact DeepCache.deep_step s op
  · rw [DeepCacheOf.deep_step, Proofs.Twin.step_eq]

theorem run (s : CSt K V) (ops : List (Op K V)) (T : Twin K V) (hT : IsTwin T) :
    deepRun T s ops = some (Model.Cache.run s ops) := by
  rcases hT with rfl | rfl
  · exact DeepCache.deep_run s ops
  · rw [DeepCacheOf.deep_run, Proofs.Twin.run_eq]

end DeepSource
