import CacheVerif.Spec.AMap
/-! Filtering an association list by a predicate on values ("drop expired entries"). -/
set_option linter.unusedSectionVars false
namespace Spec.AMap
variable {K α : Type} [DecidableEq K]

/-- keep the bindings whose value satisfies `Q` -/
def vfilter (m : AMap K α) (Q : α → Bool) : AMap K α := m.filter fun p => Q p.2

@[simp] theorem vfilter_nil (Q : α → Bool) : vfilter ([] : AMap K α) Q = [] := rfl

theorem vfilter_cons (k : K) (v : α) (m : AMap K α) (Q : α → Bool) :
    vfilter ((k, v) :: m) Q = if Q v then (k, v) :: vfilter m Q else vfilter m Q := by
  simp [vfilter, List.filter_cons]

theorem vfilter_erase (m : AMap K α) (k : K) (Q : α → Bool) : vfilter (erase m k) Q = erase (vfilter m Q) k := by
  simp only [vfilter, erase, List.filter_filter]
  congr 1; funext p; exact Bool.and_comm _ _

theorem vfilter_set (m : AMap K α) (k : K) (v : α) (Q : α → Bool) :
    vfilter (set m k v) Q = if Q v then set (vfilter m Q) k v else erase (vfilter m Q) k := by
  unfold set
  rw [vfilter_cons, vfilter_erase]

theorem keys_vfilter_sublist (m : AMap K α) (Q : α → Bool) : (keys (vfilter m Q)).Sublist (keys m) := by
  unfold keys vfilter
  exact List.Sublist.map _ List.filter_sublist

theorem WF_vfilter (m : AMap K α) (Q : α → Bool) (h : WF m) : WF (vfilter m Q) :=
  List.Nodup.sublist (keys_vfilter_sublist m Q) h

theorem get_vfilter (m : AMap K α) (hw : WF m) (Q : α → Bool) (k : K) :
    get (vfilter m Q) k = match get m k with
      | some v => if Q v then some v else none
      | none => none := by
  induction m with
  | nil => rfl
  | cons p m ih =>
    obtain ⟨k', v⟩ := p
    simp only [WF, keys, List.map_cons, List.nodup_cons] at hw
    rw [vfilter_cons]
    by_cases h : k' = k
    · subst h
      simp only [get_cons, if_true]
      by_cases hq : Q v
      · simp [hq]
      · simp only [hq, Bool.false_eq_true, if_false]
        have : get m k' = none := (get_eq_none_iff m k').mpr hw.1
        rw [ih hw.2, this]
    · by_cases hq : Q v
      · simp only [hq, if_true, get_cons, if_neg h]; exact ih hw.2
      · simp only [hq, Bool.false_eq_true, if_false, get_cons, if_neg h]; exact ih hw.2

theorem vfilter_vfilter_of_imp (m : AMap K α) (Q R : α → Bool) (h : ∀ v, R v = true → Q v = true) :
    vfilter (vfilter m Q) R = vfilter m R := by
  simp only [vfilter, List.filter_filter]
  congr 1; funext p
  by_cases hr : R p.2 = true
  · simp [hr, h _ hr]
  · simp [hr]

theorem vfilter_eq_self (m : AMap K α) (Q : α → Bool) (h : ∀ p ∈ m, Q p.2 = true) : vfilter m Q = m := by
  unfold vfilter; exact List.filter_eq_self.mpr h

theorem mem_vfilter (m : AMap K α) (Q : α → Bool) (p : K × α) : p ∈ vfilter m Q ↔ p ∈ m ∧ Q p.2 = true := by
  simp [vfilter]

theorem mem_erase (m : AMap K α) (k : K) (p : K × α) : p ∈ erase m k ↔ p ∈ m ∧ p.1 ≠ k := by
  simp [erase]

theorem mem_set (m : AMap K α) (k : K) (v : α) (p : K × α) : p ∈ set m k v ↔ p = (k, v) ∨ (p ∈ m ∧ p.1 ≠ k) := by
  simp [set, mem_erase]

theorem nodup_of_WF (m : AMap K α) (h : WF m) : m.Nodup := by
  induction m with
  | nil => exact List.nodup_nil
  | cons p m ih =>
    simp only [WF, keys, List.map_cons, List.nodup_cons] at h
    rw [List.nodup_cons]
    refine ⟨fun hp => h.1 (List.mem_map.mpr ⟨p, hp, rfl⟩), ih h.2⟩

theorem mem_iff_get (m : AMap K α) (h : WF m) (p : K × α) : p ∈ m ↔ get m p.1 = some p.2 :=
  ⟨fun hp => get_of_mem m h p.1 p.2 hp, fun hg => mem_of_get m p.1 p.2 hg⟩

/-- two duplicate-free association lists with the same bindings are permutations of each other -/
theorem perm_of_get_eq (m1 m2 : AMap K α) (h1 : WF m1) (h2 : WF m2) (hg : ∀ k, get m1 k = get m2 k) :
    m1.Perm m2 := by
  refine (List.perm_ext_iff_of_nodup (nodup_of_WF m1 h1) (nodup_of_WF m2 h2)).mpr ?_
  intro p
  rw [mem_iff_get m1 h1, mem_iff_get m2 h2, hg]

end Spec.AMap
