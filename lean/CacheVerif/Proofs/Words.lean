import CacheVerif.Model.Words
import CacheVerif.Proofs.LeafBits
/-!
# The word-filtered search of `MapOf` finds what the key search of M3 finds

`Model.Words.searchChain` is the shape of the two loops of `MapOf.Load` over the machine-translated leaf functions
(`markZeroBytes`, `broadcast`, `firstMarkedByteIndex`, `metaMask`).  For every chain of buckets whose `meta` words
say what `RepB` demands - and for *any* hash byte function - it returns exactly `Model.Table.lookup` on the slots of
the chain: no false negative (a slot holding the key is always among the marked bytes: `candidate_of_meta`), false
positives of the SWAR trick are filtered by the key comparison, the `markedw &= markedw - 1` iteration visits the marked
slots in increasing order and ends, bytes 5-7 of the word are never looked at.  Kernel-only.
-/
namespace Proofs.Words
open Model.Words Model.Table Proofs.LeafBits

variable {K V : Type} [DecidableEq K]

/-- the word with marker bit `8 i + 7` set iff `bᵢ` -/
def mk5 (b0 b1 b2 b3 b4 : Bool) : BitVec 64 :=
  (if b0 then 0x80#64 else 0#64) ||| (if b1 then 0x8000#64 else 0#64) ||| (if b2 then 0x800000#64 else 0#64) |||
  (if b3 then 0x80000000#64 else 0#64) ||| (if b4 then 0x8000000000#64 else 0#64)

theorem twoPow_lit (n : Nat) (hn : n < 64) (c : BitVec 64) (h : c = BitVec.twoPow 64 n) (j : Nat) :
    c.getLsbD j = decide (n = j) := by
  subst h; simp [BitVec.getLsbD_twoPow, hn]

theorem mk5_getLsbD (b0 b1 b2 b3 b4 : Bool) (j : Nat) :
    (mk5 b0 b1 b2 b3 b4).getLsbD j =
      ((b0 && decide (j = 7)) || (b1 && decide (j = 15)) || (b2 && decide (j = 23)) ||
       (b3 && decide (j = 31)) || (b4 && decide (j = 39))) := by
  have e0 := twoPow_lit 7 (by omega) 0x80#64 (by decide) j
  have e1 := twoPow_lit 15 (by omega) 0x8000#64 (by decide) j
  have e2 := twoPow_lit 23 (by omega) 0x800000#64 (by decide) j
  have e3 := twoPow_lit 31 (by omega) 0x80000000#64 (by decide) j
  have e4 := twoPow_lit 39 (by omega) 0x8000000000#64 (by decide) j
  unfold mk5
  cases b0 <;> cases b1 <;> cases b2 <;> cases b3 <;> cases b4 <;>
    simp only [BitVec.getLsbD_or, e0, e1, e2, e3, e4, if_true, if_false, BitVec.getLsbD_zero, Bool.false_eq_true,
      Bool.false_and, Bool.true_and, Bool.or_false, Bool.false_or] <;>
    (by_cases h7 : j = 7 <;> by_cases h15 : j = 15 <;> by_cases h23 : j = 23 <;> by_cases h31 : j = 31 <;>
      by_cases h39 : j = 39 <;> simp_all <;> omega)

/-- a word in which only the marker bits of bytes 0-4 may be set is determined by those five bits -/
theorem eq_mk5 (w : BitVec 64) (h : ∀ j, w.getLsbD j = true → j % 8 = 7 ∧ j < 40) :
    w = mk5 (w.getLsbD 7) (w.getLsbD 15) (w.getLsbD 23) (w.getLsbD 31) (w.getLsbD 39) := by
  apply BitVec.eq_of_getLsbD_eq
  intro j hj
  rw [mk5_getLsbD]
  by_cases h7 : j = 7
  · subst h7; simp
  by_cases h15 : j = 15
  · subst h15; simp
  by_cases h23 : j = 23
  · subst h23; simp
  by_cases h31 : j = 31
  · subst h31; simp
  by_cases h39 : j = 39
  · subst h39; simp
  simp only [h7, h15, h23, h31, h39, decide_false, Bool.and_false, Bool.or_false]
  apply Bool.eq_false_iff.2
  intro hb
  have := h j hb
  omega

@[simp] theorem orE_none_left (b : Option V) : orE none b = b := rfl
@[simp] theorem orE_none_right (a : Option V) : orE a none = a := by cases a <;> rfl

/-! `firstMarkedByteIndex` on the 31 non-zero words of marker bits (bytes 0-4) -/
theorem fmbi_1 : Gen.firstMarkedByteIndex 128#64 = 0 := by decide
theorem fmbi_2 : Gen.firstMarkedByteIndex 32768#64 = 1 := by decide
theorem fmbi_3 : Gen.firstMarkedByteIndex 32896#64 = 0 := by decide
theorem fmbi_4 : Gen.firstMarkedByteIndex 8388608#64 = 2 := by decide
theorem fmbi_5 : Gen.firstMarkedByteIndex 8388736#64 = 0 := by decide
theorem fmbi_6 : Gen.firstMarkedByteIndex 8421376#64 = 1 := by decide
theorem fmbi_7 : Gen.firstMarkedByteIndex 8421504#64 = 0 := by decide
theorem fmbi_8 : Gen.firstMarkedByteIndex 2147483648#64 = 3 := by decide
theorem fmbi_9 : Gen.firstMarkedByteIndex 2147483776#64 = 0 := by decide
theorem fmbi_10 : Gen.firstMarkedByteIndex 2147516416#64 = 1 := by decide
theorem fmbi_11 : Gen.firstMarkedByteIndex 2147516544#64 = 0 := by decide
theorem fmbi_12 : Gen.firstMarkedByteIndex 2155872256#64 = 2 := by decide
theorem fmbi_13 : Gen.firstMarkedByteIndex 2155872384#64 = 0 := by decide
theorem fmbi_14 : Gen.firstMarkedByteIndex 2155905024#64 = 1 := by decide
theorem fmbi_15 : Gen.firstMarkedByteIndex 2155905152#64 = 0 := by decide
theorem fmbi_16 : Gen.firstMarkedByteIndex 549755813888#64 = 4 := by decide
theorem fmbi_17 : Gen.firstMarkedByteIndex 549755814016#64 = 0 := by decide
theorem fmbi_18 : Gen.firstMarkedByteIndex 549755846656#64 = 1 := by decide
theorem fmbi_19 : Gen.firstMarkedByteIndex 549755846784#64 = 0 := by decide
theorem fmbi_20 : Gen.firstMarkedByteIndex 549764202496#64 = 2 := by decide
theorem fmbi_21 : Gen.firstMarkedByteIndex 549764202624#64 = 0 := by decide
theorem fmbi_22 : Gen.firstMarkedByteIndex 549764235264#64 = 1 := by decide
theorem fmbi_23 : Gen.firstMarkedByteIndex 549764235392#64 = 0 := by decide
theorem fmbi_24 : Gen.firstMarkedByteIndex 551903297536#64 = 3 := by decide
theorem fmbi_25 : Gen.firstMarkedByteIndex 551903297664#64 = 0 := by decide
theorem fmbi_26 : Gen.firstMarkedByteIndex 551903330304#64 = 1 := by decide
theorem fmbi_27 : Gen.firstMarkedByteIndex 551903330432#64 = 0 := by decide
theorem fmbi_28 : Gen.firstMarkedByteIndex 551911686144#64 = 2 := by decide
theorem fmbi_29 : Gen.firstMarkedByteIndex 551911686272#64 = 0 := by decide
theorem fmbi_30 : Gen.firstMarkedByteIndex 551911718912#64 = 1 := by decide
theorem fmbi_31 : Gen.firstMarkedByteIndex 551911719040#64 = 0 := by decide

/-- first `some` of five optional results -/
def first5 (r0 r1 r2 r3 r4 : Option V) : Option V := orE r0 (orE r1 (orE r2 (orE r3 r4)))

/-- **the `markedw &= markedw - 1` iteration** visits the marked slots in increasing order and ends: on a word of
marker bits it returns the first `some` among the tests of the marked slots -/
theorem scan_mk5 (test : Nat → Option V) (b0 b1 b2 b3 b4 : Bool) :
    scanMarked test 8 (mk5 b0 b1 b2 b3 b4) =
      some (first5 (if b0 then test 0 else none) (if b1 then test 1 else none) (if b2 then test 2 else none)
        (if b3 then test 3 else none) (if b4 then test 4 else none)) := by
  cases b0 <;> cases b1 <;> cases b2 <;> cases b3 <;> cases b4 <;>
    simp [mk5, scanMarked, first5, fmbi_1, fmbi_2, fmbi_3, fmbi_4, fmbi_5, fmbi_6, fmbi_7, fmbi_8, fmbi_9, fmbi_10, fmbi_11, fmbi_12, fmbi_13, fmbi_14, fmbi_15, fmbi_16, fmbi_17, fmbi_18, fmbi_19, fmbi_20, fmbi_21, fmbi_22, fmbi_23, fmbi_24, fmbi_25, fmbi_26, fmbi_27, fmbi_28, fmbi_29, fmbi_30, fmbi_31] <;>
    (try ((repeat' split) <;> simp_all [orE]))

theorem metaMask_getLsbD (j : Nat) : Gen.metaMask.getLsbD j = decide (j < 40) := by
  apply lit_getLsbD _ (fun j => decide (j < 40))
  · decide
  · intro j hj; simp; omega

/-- only the marker bits of the five slot bytes can be set in a candidate word -/
theorem candidates_bits (h2w m : BitVec 64) (j : Nat) (h : (candidates h2w m).getLsbD j = true) :
    j % 8 = 7 ∧ j < 40 := by
  simp only [candidates, BitVec.getLsbD_and, Bool.and_eq_true, metaMask_getLsbD, decide_eq_true_eq] at h
  exact ⟨markZeroBytes_only_markers _ _ h.1, h.2⟩

/-- a slot whose `meta` byte is the key's hash byte is a candidate (no false negative) -/
theorem candidates_hit (b8 : BitVec 8) (m : BitVec 64) (i : Nat) (hi : i < 5) (hm : byteOf m i = b8) :
    (candidates (Gen.broadcast b8) m).getLsbD (8 * i + 7) = true :=
  candidate_of_meta m b8 i hi hm

theorem ite_test (c : Bool) (t : Option V) (h : t.isSome = true → c = true) : (if c then t else none) = t := by
  cases c
  · cases t
    · rfl
    · simp at h
  · rfl

/-- the test of slot `i` can only succeed on a candidate -/
theorem test_marked (hk : K → BitVec 8) (key : K) (b : BucketOf K V) (hrep : RepB hk b) (i : Nat) (hi : i < 5)
    (h : (testSlot key b.entries i).isSome = true) :
    (candidates (Gen.broadcast (hk key)) b.metaw).getLsbD (8 * i + 7) = true := by
  apply candidates_hit _ _ i hi
  have := hrep.2 i hi
  unfold testSlot at h
  cases he : b.entries.getD i none with
  | none => rw [he] at h; simp at h
  | some kv =>
    obtain ⟨k, v⟩ := kv
    rw [he] at h this
    by_cases hkk : k = key
    · subst hkk; exact this
    · simp [hkk] at h

theorem first5_lookup (key : K) (e0 e1 e2 e3 e4 : Option (K × V)) :
    first5 (testSlot key [e0, e1, e2, e3, e4] 0) (testSlot key [e0, e1, e2, e3, e4] 1)
      (testSlot key [e0, e1, e2, e3, e4] 2) (testSlot key [e0, e1, e2, e3, e4] 3)
      (testSlot key [e0, e1, e2, e3, e4] 4) = lookup key [e0, e1, e2, e3, e4] := by
  simp only [testSlot, List.getD_cons_zero, List.getD_cons_succ, first5]
  rcases e0 with _ | ⟨k0, v0⟩ <;> rcases e1 with _ | ⟨k1, v1⟩ <;> rcases e2 with _ | ⟨k2, v2⟩ <;>
    rcases e3 with _ | ⟨k3, v3⟩ <;> rcases e4 with _ | ⟨k4, v4⟩ <;>
    simp only [lookup, orE_none_left, orE_none_right] <;>
    (repeat' split) <;> simp_all [orE]

/-- **one bucket**: the SWAR-filtered search of the code finds exactly what the key search finds, whatever the hash
byte function, false positives included -/
theorem searchBucket_eq (hk : K → BitVec 8) (key : K) (b : BucketOf K V) (hrep : RepB hk b) :
    searchBucket key (Gen.broadcast (hk key)) b = lookup key b.entries := by
  have hlen := hrep.1
  rw [searchBucket, eq_mk5 _ (candidates_bits (Gen.broadcast (hk key)) b.metaw), scan_mk5, Option.join_some]
  rw [ite_test _ _ (test_marked hk key b hrep 0 (by omega)), ite_test _ _ (test_marked hk key b hrep 1 (by omega)),
    ite_test _ _ (test_marked hk key b hrep 2 (by omega)), ite_test _ _ (test_marked hk key b hrep 3 (by omega)),
    ite_test _ _ (test_marked hk key b hrep 4 (by omega))]
  match hb : b.entries, hlen with
  | [e0, e1, e2, e3, e4], _ => exact first5_lookup key e0 e1 e2 e3 e4

theorem lookup_append (key : K) (a c : Slots K V) : lookup key (a ++ c) = orE (lookup key a) (lookup key c) := by
  induction a with
  | nil => simp [lookup]
  | cons x r ih =>
    rcases x with _ | ⟨k, v⟩
    · simpa [lookup] using ih
    · by_cases h : k = key
      · simp [lookup, h, orE]
      · simpa [lookup, h] using ih

/-- **a chain**: bucket by bucket along `next`, the word-filtered search returns M3's `lookup` on the slots -/
theorem searchChain_eq (hk : K → BitVec 8) (key : K) (c : List (BucketOf K V)) (hrep : ∀ b ∈ c, RepB hk b) :
    searchChain key (Gen.broadcast (hk key)) c = lookup key (flat c) := by
  induction c with
  | nil => simp [searchChain, flat, lookup]
  | cons b r ih =>
    have hb := searchBucket_eq hk key b (hrep b (by simp))
    have hr := ih (fun x hx => hrep x (by simp [hx]))
    simp only [searchChain, flat, List.flatMap_cons] at hr ⊢
    rw [lookup_append, hb, hr]

theorem scan_succ (test : Nat → Option V) : ∀ n w r, scanMarked test n w = some r → scanMarked test (n + 1) w = some r := by
  intro n
  induction n with
  | zero => intro w r h; simp [scanMarked] at h
  | succ n ih =>
    intro w r h
    rw [scanMarked] at h ⊢
    by_cases hz : w = 0#64
    · simpa [hz] using h
    · simp only [hz, if_false] at h ⊢
      cases ht : test (Gen.firstMarkedByteIndex w) with
      | some v => simpa [ht] using h
      | none => rw [ht] at h; exact ih _ _ h

theorem scan_ge (test : Nat → Option V) (n m : Nat) (hnm : n ≤ m) (w : BitVec 64) (r : Option V)
    (h : scanMarked test n w = some r) : scanMarked test m w = some r := by
  induction m with
  | zero => have : n = 0 := by omega
            subst this; exact h
  | succ m ih =>
    by_cases he : n = m + 1
    · subst he; exact h
    · exact scan_succ test m w r (ih (by omega))

/-- with any budget of at least 8 iterations the inner loop ends, and finds what `searchBucket` finds -/
theorem scan_candidates (key : K) (h2w : BitVec 64) (b : BucketOf K V) (fuel : Nat) (hf : 8 ≤ fuel) :
    scanMarked (testSlot key b.entries) fuel (candidates h2w b.metaw) = some (searchBucket key h2w b) := by
  apply scan_ge _ 8 fuel hf
  rw [searchBucket, eq_mk5 _ (candidates_bits h2w b.metaw), scan_mk5, Option.join_some]

/-! ### `Map`: the top-hash filter -/

theorem testM_marked (hashOf : K → BitVec 64) (key : K) (b : BucketM K V) (hrep : RepM hashOf b) (i : Nat) (hi : i < 3)
    (h : (testSlot key b.slots i).isSome = true) : Gen.topHashMatch (hashOf key) b.word i = true := by
  have := hrep.2 i hi
  unfold testSlot at h
  cases he : b.slots.getD i none with
  | none => rw [he] at h; simp at h
  | some kv =>
    obtain ⟨k, v⟩ := kv
    rw [he] at h this
    by_cases hkk : k = key
    · subst hkk; exact this
    · simp [hkk] at h

theorem first3_lookup (key : K) (e0 e1 e2 : Option (K × V)) :
    orE (testSlot key [e0, e1, e2] 0) (orE (testSlot key [e0, e1, e2] 1) (testSlot key [e0, e1, e2] 2)) =
      lookup key [e0, e1, e2] := by
  simp only [testSlot, List.getD_cons_zero, List.getD_cons_succ]
  rcases e0 with _ | ⟨k0, v0⟩ <;> rcases e1 with _ | ⟨k1, v1⟩ <;> rcases e2 with _ | ⟨k2, v2⟩ <;>
    simp only [lookup, orE_none_left, orE_none_right] <;>
    (repeat' split) <;> simp_all [orE]

/-- **one bucket of `Map`**: filtering the three slots by `topHashMatch` and comparing keys only where it holds finds
what the key search finds (a slot holding the key always matches; other matches are rejected by `==` or by nil) -/
theorem searchBucketM_eq (hashOf : K → BitVec 64) (key : K) (b : BucketM K V) (hrep : RepM hashOf b) :
    searchBucketM key (hashOf key) b = lookup key b.slots := by
  have hlen := hrep.1
  rw [searchBucketM, ite_test _ _ (testM_marked hashOf key b hrep 0 (by omega)),
    ite_test _ _ (testM_marked hashOf key b hrep 1 (by omega)), ite_test _ _ (testM_marked hashOf key b hrep 2 (by omega))]
  match hb : b.slots, hlen with
  | [e0, e1, e2], _ => exact first3_lookup key e0 e1 e2

theorem searchChainM_eq (hashOf : K → BitVec 64) (key : K) (c : List (BucketM K V)) (hrep : ∀ b ∈ c, RepM hashOf b) :
    searchChainM key (hashOf key) c = lookup key (flatM c) := by
  induction c with
  | nil => simp [searchChainM, flatM, lookup]
  | cons b r ih =>
    have hb := searchBucketM_eq hashOf key b (hrep b (by simp))
    have hr := ih (fun x hx => hrep x (by simp [hx]))
    simp only [searchChainM, flatM, List.flatMap_cons] at hr ⊢
    rw [lookup_append, hb, hr]

end Proofs.Words
