import CacheVerif.Model.Cache
import CacheVerif.Model.CacheOf
import CacheVerif.Proofs.LeafCache
/-! The two cache-layer models (separate transcriptions of `xsync_map.go` and `xsync_mapof.go`, over
separately generated leaves) are extensionally equal. -/
namespace Proofs.Twin
open Model Spec Proofs.LeafCache
set_option linter.unusedSectionVars false
variable {K V : Type} [DecidableEq K] [Inhabited V]

theorem expired_eq (s : CSt K V) (i : Item V) : CacheOf.expired s i = Cache.expired s i := by
  simp [CacheOf.expired, Cache.expired, item_expired_eq, itemOf_expired_eq]

theorem expiration_eq (s : CSt K V) (d : Int) : CacheOf.expiration s d = Cache.expiration s d := by
  simp [CacheOf.expiration, Cache.expiration, LeafCache.expiration_eq, expirationOf_eq]

theorem ewn (e now : Int) : Gen.itemOf_expiredWithNow e now = Gen.item_expiredWithNow e now := by
  rw [item_expiredWithNow_eq, itemOf_expiredWithNow_eq]

theorem set_eq (s : CSt K V) (k : K) (v : V) (d : Int) : CacheOf.set s k v d = Cache.set s k v d := by
  simp [CacheOf.set, Cache.set, expiration_eq]

theorem get_eq (s : CSt K V) (k : K) : CacheOf.get s k = Cache.get s k := by
  simp only [CacheOf.get, Cache.get, expired_eq]
  rfl

theorem getOrSetFn_eq (s : CSt K V) (v : V) (d : Int) : CacheOf.getOrSetFn s v d = Cache.getOrSetFn s v d := by
  funext o; cases o <;> simp [CacheOf.getOrSetFn, Cache.getOrSetFn, expired_eq, expiration_eq]

theorem refreshFn_eq (s : CSt K V) (d : Int) : CacheOf.refreshFn s d = Cache.refreshFn s d := by
  funext o; cases o <;> simp [CacheOf.refreshFn, Cache.refreshFn, expired_eq, expiration_eq]

theorem liveOld_eq (s : CSt K V) (o : Option (Item V)) : CacheOf.liveOld s o = Cache.liveOld s o := by
  cases o <;> simp [CacheOf.liveOld, Cache.liveOld, expired_eq]

theorem computeFn_eq (s : CSt K V) (g : Option V → V × Bool) (d : Int) : CacheOf.computeFn s g d = Cache.computeFn s g d := by
  funext o; simp [CacheOf.computeFn, Cache.computeFn, liveOld_eq, expiration_eq]

theorem walk_eq (now : Int) (f : K → V → Bool) (l : List (K × Item V)) : CacheOf.walk now f l = Cache.walk now f l := by
  induction l with
  | nil => rfl
  | cons p rest ih => obtain ⟨k, i⟩ := p; simp [CacheOf.walk, Cache.walk, ewn, ih]

theorem sweepFn_eq (now : Int) : CacheOf.sweepFn (V := V) now = Cache.sweepFn now := by
  funext o; cases o <;> simp [CacheOf.sweepFn, Cache.sweepFn, ewn]

theorem sweep_eq (now : Int) (hasCb : Bool) (l : List (K × Item V)) (acc : AMap K (Item V) × List (K × V)) :
    CacheOf.sweep now hasCb l acc = Cache.sweep now hasCb l acc := by
  induction l generalizing acc with
  | nil => rfl
  | cons p rest ih => obtain ⟨k, i⟩ := p; simp only [CacheOf.sweep, Cache.sweep, ewn, sweepFn_eq, ih]; rfl

theorem getAndDelete_eq (s : CSt K V) (k : K) : CacheOf.getAndDelete s k = Cache.getAndDelete s k := by
  simp only [CacheOf.getAndDelete, Cache.getAndDelete, expired_eq]
  rfl

theorem step_eq (s : CSt K V) (op : Op K V) : CacheOf.step s op = Cache.step s op := by
  cases op <;>
    simp only [CacheOf.step, Cache.step, set_eq, get_eq, getOrSetFn_eq, refreshFn_eq, liveOld_eq, computeFn_eq, walk_eq,
      sweep_eq, getAndDelete_eq, expired_eq, expiration_eq] <;> rfl

theorem run_eq (s : CSt K V) (ops : List (Op K V)) : CacheOf.run s ops = Cache.run s ops := by
  induction ops generalizing s with
  | nil => rfl
  | cons op ops ih => simp [CacheOf.run, Cache.run, step_eq, ih]

theorem construct_eq (c : Cache.Ctor) (now : Int) : CacheOf.construct (K := K) (V := V) c now = Cache.construct c now := by
  cases c with
  | newOpts d i cb m =>
    cases d <;> cases i <;> cases cb <;> cases m <;>
      simp only [CacheOf.construct, Cache.construct, CacheOf.newXsyncMapOf, Cache.newXsyncMap, configDefaultOf_eq,
        Gen.DefaultConfigOf_, Gen.DefaultConfig_] <;> rfl
  | newDefault d i cb =>
    simp only [CacheOf.construct, Cache.construct, CacheOf.newXsyncMapOf, Cache.newXsyncMap, configDefaultOf_eq]
    rfl
  | newOptsOver b d i cb m =>
    cases i <;> cases cb <;> cases m <;>
      simp only [CacheOf.construct, Cache.construct, CacheOf.newXsyncMapOf, Cache.newXsyncMap, configDefaultOf_eq,
        Gen.DefaultConfigOf_, Gen.DefaultConfig_] <;> rfl

end Proofs.Twin
