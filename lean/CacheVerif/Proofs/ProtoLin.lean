import CacheVerif.Proofs.ProtoData
/-!
# M4a: linearization points of the writers, the helping step of `Clear`, hindsight for lookups

Built on `ProtoLocks` (locks, flag, cond) and `ProtoData` (table contents, copy progress, counter).
`spec op v` is the builtin-map meaning of a `doCompute` call on the current binding `v` of its key: the new
binding and the `(value, flag)` the call returns.
-/
set_option linter.unusedSectionVars false
namespace Proofs.ProtoLin
open Spec Model.Proto Proofs.ProtoLocks Proofs.ProtoData

variable {K V : Type} [DecidableEq K]

/-- builtin-map meaning of `doCompute key f loadIfExists computeOnly` on the current binding `cur` of the key:
(new binding, returned value, returned flag) -/
def specDc (f : Option V → V × Bool) (lie co : Bool) (cur : Option V) : Option V × Option V × Bool :=
  match cur with
  | some old =>
    if lie then (some old, some old, !co)
    else if (f (some old)).2 then (none, some old, !co)
    else (some (f (some old)).1, some (if co then (f (some old)).1 else old), true)
  | none =>
    if (f none).2 then (none, none, false)
    else (some (f none).1, some (f none).1, co)

end Proofs.ProtoLin
