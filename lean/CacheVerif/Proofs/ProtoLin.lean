import CacheVerif.Proofs.ProtoData
/-!
# M4a: linearization points of the writers, the helping step of `Clear`, hindsight for lookups

Built on `ProtoLocks` (locks, flag, cond) and `ProtoData` (table contents, copy progress, counter).
`spec op v` is the builtin-map meaning of a `doCompute` call on the current binding `v` of its key: the new
binding and the `(value, flag)` the call returns.
-/
set_option linter.unusedSectionVars false
set_option linter.unusedVariables false
set_option linter.unusedSimpArgs false
namespace Proofs.ProtoLin
open Spec Model.Proto Proofs.ProtoLocks Proofs.ProtoData

variable {K V : Type} [DecidableEq K]

/-- builtin-map meaning of `doCompute key f loadIfExists computeOnly` on the current binding `cur` of the key:
(new binding, returned value, returned flag) -/
def specDc (f : Option V → V × Bool) (lie co : Bool) (cur : Option V) : Option V × Option V × Bool :=
  match cur with
  | some old =>
    if lie then (some old, some old, !co)
    else if (f (some old)).2 then (none, some old, !co)
    else (some (f (some old)).1, some (if co then (f (some old)).1 else old), true)
  | none =>
    if (f none).2 then (none, none, false)
    else (some (f none).1, some (f none).1, co)

/-! ## part: local invariants (facts about the locals of one thread, preserved by its own steps) -/

/-- a property of the locals of a thread that holds initially and is preserved by the steps of the thread holds
for every thread of every reachable state -/
theorem local_run (p : Params K) (P : L K V → Prop)
    (hstep : ∀ t g l c g' l', P l → tstep p t g l c = some (g', l') → P l')
    (sched : List (Tid × Choice K V)) (s s' : St K V) (h : ∀ u, P (s.l u)) (hr : run p s sched = some s') :
    ∀ u, P (s'.l u) := by
  induction sched generalizing s with
  | nil => simp only [run, Option.some.injEq] at hr; subst hr; exact h
  | cons a rest ih =>
    obtain ⟨t, c⟩ := a
    simp only [run] at hr
    split at hr
    · rename_i s1 heq
      refine ih s1 ?_ hr
      unfold step at heq
      split at heq
      · simp at heq
      · rename_i g' l' hts
        simp only [Option.some.injEq] at heq; subst heq
        intro u; dsimp only
        by_cases hu : u = t
        · rw [if_pos hu]; exact hstep t s.g (s.l t) c g' l' (h t) hts
        · rw [if_neg hu]; exact h u
    · simp at hr

theorem local_reach (p : Params K) (P : L K V → Prop) (h0 : P L.init)
    (hstep : ∀ t g l c g' l', P l → tstep p t g l c = some (g', l') → P l')
    (s : St K V) (h : Reach p s) : ∀ u, P (s.l u) := by
  obtain ⟨sched, hr⟩ := h
  exact local_run p P hstep sched _ s (fun _ => h0) hr

theorem startOp_pc_ne (l : L K V) (op : POp K V) :
    (startOp l op).pc ≠ .dcCommit ∧ (startOp l op).pc ≠ .dcScan ∧ (startOp l op).pc ≠ .dcFn ∧
    (startOp l op).pc ≠ .dcUnlock ∧ (startOp l op).pc ≠ .ldRead ∧ (startOp l op).pc ≠ .ret := by
  have := (startOp_pc l op).1; grind

theorem popCont_pc_ne (l : L K V) :
    (popCont l).pc ≠ .dcCommit ∧ (popCont l).pc ≠ .dcScan ∧ (popCont l).pc ≠ .dcFn ∧
    (popCont l).pc ≠ .dcUnlock ∧ (popCont l).pc ≠ .ldRead := by
  have := (popCont_pc l).1; grind

/-- the pc `dcCommit` is entered only from `dcFn`, which stores the result of the user function -/
theorem commit_entry (p : Params K) (t : Tid) (g : G K V) (l : L K V) (c : Choice K V) (g' : G K V) (l' : L K V)
    (hs : tstep p t g l c = some (g', l')) (h : l'.pc = .dcCommit) :
    l.pc = .dcFn ∧ l'.op = l.op ∧ l'.old = l.old ∧
      ∀ k f lie co, l.op = some (.dc k f lie co) → l'.fnres = some (f l.old) := by
  have hP := (popCont_pc_ne l).1
  have hS := fun l op => (startOp_pc_ne (K := K) (V := V) l op).1
  cases hpc : l.pc <;> simp only [tstep, hpc] at hs <;> (repeat' split at hs) <;>
    simp only [Option.some.injEq, reduceCtorEq, Prod.mk.injEq] at hs <;> obtain ⟨-, rfl⟩ := hs <;>
    simp_all [callResize, callWait]

/-- at `dcCommit` the stored function result is the function applied to the binding found by the scan -/
def FR (l : L K V) : Prop :=
  l.pc = .dcCommit → ∀ k f lie co, l.op = some (.dc k f lie co) → l.fnres = some (f l.old)

theorem fr_reach (p : Params K) (s : St K V) (h : Reach p s) (u : Tid) : FR (s.l u) := by
  refine local_reach p FR (fun h => by cases h) ?_ s h u
  intro t g l c g' l' _ hs hpc k f lie co hop
  obtain ⟨-, h2, h3, h4⟩ := commit_entry p t g l c g' l' hs hpc
  rw [h3]; exact h4 k f lie co (by rw [← h2]; exact hop)

/-! ## part: Level 1 — the linearization points of a writer -/

/-- **the commit step, on any table generation**: with `old` the binding the scan found (which is still the binding
of the key in the writer's table), the step installs `(specDc f lie co old).1` in that table and fixes the result
of the call to the value/flag of `specDc` -/
theorem commit_step_spec (p : Params K) (t : Tid) (g : G K V) (l : L K V) (c : Choice K V) (g' : G K V) (l' : L K V)
    (k : K) (f : Option V → V × Bool) (lie co : Bool)
    (hop : l.op = some (.dc k f lie co)) (hpc : l.pc = .dcCommit)
    (hfr : l.fnres = some (f l.old)) (hold : l.old = (g.tables l.tbl).data.get k) (hlie : lie = true → l.old = none)
    (hs : tstep p t g l c = some (g', l')) :
    (g'.tables l.tbl).data.get k = (specDc f lie co l.old).1 ∧
    l'.result = some (.val (specDc f lie co l.old).2.1 (specDc f lie co l.old).2.2) ∧
    l'.pc = .dcUnlock ∧ l'.op = l.op ∧ l'.tbl = l.tbl ∧ g'.cur = g.cur := by
  simp only [tstep, hpc, opKey, dcFlags, hop, hfr] at hs
  cases ho : l.old with
  | none =>
    rw [ho] at hs hold
    cases hd : (f none).2 with
    | true =>
      simp only [hd, if_true, Option.some.injEq, Prod.mk.injEq] at hs
      obtain ⟨rfl, rfl⟩ := hs
      simp [specDc, hd, ← hold, hop]
    | false =>
      simp only [hd, Bool.false_eq_true, if_false, Option.some.injEq, Prod.mk.injEq] at hs
      obtain ⟨rfl, rfl⟩ := hs
      simp [specDc, hd, setTbl, AMap.get_set, hop]
  | some o =>
    have hl : lie = false := by
      cases lie with
      | false => rfl
      | true => rw [hlie rfl] at ho; cases ho
    subst hl
    rw [ho] at hs hold
    cases hd : (f (some o)).2 with
    | true =>
      simp only [hd, if_true, Option.some.injEq, Prod.mk.injEq] at hs
      obtain ⟨rfl, rfl⟩ := hs
      simp [specDc, hd, setTbl, AMap.get_erase, hop]
    | false =>
      simp only [hd, Bool.false_eq_true, if_false, Option.some.injEq, Prod.mk.injEq] at hs
      obtain ⟨rfl, rfl⟩ := hs
      simp [specDc, hd, setTbl, AMap.get_set, hop]

/-- the facts about a writer at `dcCommit` that `commit_step_spec` needs, in every reachable state -/
theorem commit_facts (p : Params K) (hmin : 0 < p.minLen) (s : St K V) (h : Reach p s) (t : Tid)
    (k : K) (f : Option V → V × Bool) (lie co : Bool)
    (hop : (s.l t).op = some (.dc k f lie co)) (hpc : (s.l t).pc = .dcCommit) :
    (s.l t).fnres = some (f (s.l t).old) ∧ (s.l t).old = (s.g.tables (s.l t).tbl).data.get k ∧
      (lie = true → (s.l t).old = none) := by
  refine ⟨fr_reach p s h t hpc k f lie co hop, ?_, ?_⟩
  · exact ((dinv_reach p hmin s h).ld t).old (Or.inr (Or.inr hpc)) k (by simp [opKey, hop])
  · intro hl
    exact ((inv_reach p s h).2 t).wf.lieold (Or.inr (Or.inr hpc)) (by simp [dcFlags, hop, hl])

/-- **(1a)** the commit of a writer working on the current table is a step of the sequential specification:
the abstract binding of the key goes from `absGet s.g k` to `(specDc … (absGet s.g k)).1`, and the result of
the call is fixed to the value/flag of `specDc` -/
theorem commit_is_spec_step (p : Params K) (hmin : 0 < p.minLen) (s : St K V) (h : Reach p s) (t : Tid)
    (k : K) (f : Option V → V × Bool) (lie co : Bool)
    (hop : (s.l t).op = some (.dc k f lie co)) (hpc : (s.l t).pc = .dcCommit) (htbl : (s.l t).tbl = s.g.cur)
    (c : Choice K V) (g' : G K V) (l' : L K V) (hs : tstep p t s.g (s.l t) c = some (g', l')) :
    absGet g' k = (specDc f lie co (absGet s.g k)).1 ∧
    l'.result = some (.val (specDc f lie co (absGet s.g k)).2.1 (specDc f lie co (absGet s.g k)).2.2) ∧
    ∀ k', k' ≠ k → absGet g' k' = absGet s.g k' := by
  obtain ⟨h1, h2, h3⟩ := commit_facts p hmin s h t k f lie co hop hpc
  obtain ⟨e1, e2, -, -, -, e3⟩ := commit_step_spec p t s.g (s.l t) c g' l' k f lie co hop hpc h1 h2 h3 hs
  have hab : absGet s.g k = (s.l t).old := by rw [h2, htbl]; rfl
  refine ⟨?_, ?_, ?_⟩
  · rw [hab, ← e1]; unfold absGet; rw [e3, htbl]
  · rw [hab]; exact e2
  · intro k' hk'
    exact commit_changes_only_key p t s.g (s.l t) c g' l' hpc hs k' (by simp [opKey, hop]; exact hk')

/-- shape of the step at `dcScan` (under the bucket lock): nothing shared changes; a hit of a `loadIfExists` call
fixes the result; otherwise the binding found is remembered in `old` (and, when the chain is full, the counter is
summed for the grow check: `dcSum`) -/
theorem scan_step (p : Params K) (t : Tid) (g : G K V) (l : L K V) (c : Choice K V) (g' : G K V) (l' : L K V)
    (k : K) (f : Option V → V × Bool) (lie co : Bool)
    (hop : l.op = some (.dc k f lie co)) (hpc : l.pc = .dcScan)
    (hs : tstep p t g l c = some (g', l')) :
    g' = g ∧ l'.op = l.op ∧ l'.tbl = l.tbl ∧ l'.bi = l.bi ∧
    ((l'.pc = .dcUnlock ∧ lie = true ∧ ∃ x, (g.tables l.tbl).data.get k = some x ∧
        l'.result = some (.val (some x) (!co))) ∨
     (l'.pc = .dcFn ∧ l'.old = (g.tables l.tbl).data.get k ∧ l'.result = l.result) ∨
     (l'.pc = .dcSum ∧ l'.old = (g.tables l.tbl).data.get k ∧ l'.result = l.result)) := by
  simp only [tstep, hpc, opKey, dcFlags, hop] at hs
  (repeat' split at hs) <;> simp only [Option.some.injEq, Prod.mk.injEq] at hs <;>
    obtain ⟨rfl, rfl⟩ := hs <;> simp_all

/-- **(1b)** the hit of `loadIfExists` under the bucket lock, on the current table: the call returns what the
specification returns on the current abstract binding, and the abstract content does not change -/
theorem scan_hit_is_spec_step (p : Params K) (s : St K V) (t : Tid)
    (k : K) (f : Option V → V × Bool) (lie co : Bool)
    (hop : (s.l t).op = some (.dc k f lie co)) (hpc : (s.l t).pc = .dcScan) (htbl : (s.l t).tbl = s.g.cur)
    (c : Choice K V) (g' : G K V) (l' : L K V) (hs : tstep p t s.g (s.l t) c = some (g', l'))
    (hhit : l'.pc = .dcUnlock) :
    lie = true ∧ g' = s.g ∧ absGet g' k = (specDc f lie co (absGet s.g k)).1 ∧
    l'.result = some (.val (specDc f lie co (absGet s.g k)).2.1 (specDc f lie co (absGet s.g k)).2.2) := by
  obtain ⟨e1, -, -, -, hcase⟩ := scan_step p t s.g (s.l t) c g' l' k f lie co hop hpc hs
  rcases hcase with ⟨-, hl, x, hx, hr⟩ | ⟨h, -⟩ | ⟨h, -⟩
  · have hab : absGet s.g k = some x := by unfold absGet; rw [← htbl]; exact hx
    subst hl; subst e1
    refine ⟨rfl, rfl, ?_, ?_⟩
    · rw [hab]; simp [specDc]
    · rw [hab, hr]; simp [specDc]
  · rw [hhit] at h; cases h
  · rw [hhit] at h; cases h

/-- shape of the step at `ldRead` (the lock-free read of `Load` and of the fast path of LoadOrStore/LoadOrCompute) -/
theorem read_step (p : Params K) (t : Tid) (g : G K V) (l : L K V) (c : Choice K V) (g' : G K V) (l' : L K V)
    (k : K) (hk : opKey l = some k) (hpc : l.pc = .ldRead) (hs : tstep p t g l c = some (g', l')) :
    g' = g ∧ l'.op = l.op ∧
    ((isDcOp l.op = false ∧ l'.pc = .ret ∧
        l'.result = some (.val ((g.tables l.tbl).data.get k) ((g.tables l.tbl).data.get k).isSome)) ∨
     (∃ k0 f lie co x, l.op = some (.dc k0 f lie co) ∧ (g.tables l.tbl).data.get k = some x ∧ l'.pc = .ret ∧
        l'.result = some (.val (some x) (!co))) ∨
     (isDcOp l.op = true ∧ (g.tables l.tbl).data.get k = none ∧ l'.pc = .dcLoadTable ∧ l'.result = l.result)) := by
  simp only [tstep, hpc, hk] at hs
  rcases hop : l.op with _ | (_ | ⟨k0, f, lie, co⟩ | _ | _ | _) <;> simp only [hop] at hs
  case some.dc =>
    have hk0 : k0 = k := by simpa [opKey, hop] using hk
    subst hk0
    cases hget : (g.tables l.tbl).data.get k0 <;> simp only [hget, Option.some.injEq, Prod.mk.injEq] at hs <;>
      obtain ⟨rfl, rfl⟩ := hs <;> simp [hop]
  all_goals (simp only [Option.some.injEq, Prod.mk.injEq] at hs; obtain ⟨rfl, rfl⟩ := hs; simp [hop])

/-- **(1c)** the hit of the lock-free fast path: the call returns the binding of the key in the table generation
it loaded (`(s.l t).tbl`), with flag `!computeOnly`, i.e. the value/flag of `specDc f true co` on that binding;
nothing shared changes.  (That this binding was the abstract binding at some instant inside the call is
`read_hindsight` below.) -/
theorem fastpath_hit (p : Params K) (s : St K V) (h : Reach p s) (t : Tid)
    (k : K) (f : Option V → V × Bool) (lie co : Bool)
    (hop : (s.l t).op = some (.dc k f lie co)) (hpc : (s.l t).pc = .ldRead)
    (c : Choice K V) (g' : G K V) (l' : L K V) (hs : tstep p t s.g (s.l t) c = some (g', l'))
    (hhit : l'.pc = .ret) :
    lie = true ∧ g' = s.g ∧ ∃ x, (s.g.tables (s.l t).tbl).data.get k = some x ∧
      l'.result = some (.val (some x) (!co)) ∧
      l'.result = some (.val (specDc f lie co (some x)).2.1 (specDc f lie co (some x)).2.2) ∧
      (specDc f lie co (some x)).1 = some x := by
  have hl : lie = true := by
    have := (((inv_reach p s h).2 t).wf.ldpre hpc (by rw [hop]; rfl)).2
    simpa [dcFlags, hop] using this
  obtain ⟨e1, -, hcase⟩ := read_step p t s.g (s.l t) c g' l' k (by simp [opKey, hop]) hpc hs
  rcases hcase with ⟨h1, -⟩ | ⟨k0, f0, lie0, co0, x, h1, hx, -, hr⟩ | ⟨-, -, h1, -⟩
  · rw [hop] at h1; cases h1
  · rw [hop] at h1; cases h1
    subst hl
    exact ⟨rfl, e1, x, hx, hr, by rw [hr]; simp [specDc], by simp [specDc]⟩
  · rw [hhit] at h1; cases h1

/-! ### (1d) the result is fixed at the linearization point -/

/-- the pcs between the linearization point of a writer (commit or `loadIfExists` hit under the lock) and its
return: unlock, counter update, the shrink attempt (a nested `resize`, possibly waiting for another resize) -/
def fixedPc (l : L K V) : Prop :=
  l.pc = .dcUnlock ∨ l.pc = .dcAddSize ∨ l.pc = .dcMaybeShrink ∨ .dcDone ∈ l.conts

theorem fixed_popCont (l : L K V) (hw : WF l) (h : inRz l.pc = true ∨ inWf l.pc = true) (hd : .dcDone ∈ l.conts) :
    (popCont l).result = l.result ∧ (popCont l).op = l.op ∧ (popCont l).tbl = l.tbl ∧
      (fixedPc (popCont l) ∨ (popCont l).pc = .ret) := by
  by_cases hh : l.hint = .clear <;> rcases conts_cases l hw h with hc | hc | hc | hc | hc | hc <;>
    simp [popCont, popCont.popContAux, hc, hh, fixedPc] at hd ⊢

/-- between the linearization point and the return, no step of the thread changes `result` (nor `op`) -/
theorem fixed_step (p : Params K) (t : Tid) (g : G K V) (l : L K V) (c : Choice K V) (g' : G K V) (l' : L K V)
    (hw : WF l) (hf : fixedPc l) (hs : tstep p t g l c = some (g', l')) :
    l'.result = l.result ∧ l'.op = l.op ∧ (fixedPc l' ∨ l'.pc = .ret) := by
  have hc := hw.cshape
  have hpop := fixed_popCont l hw
  unfold fixedPc at hf
  cases hpc : l.pc <;> simp only [tstep, hpc] at hs <;> (repeat' split at hs) <;>
    simp only [Option.some.injEq, reduceCtorEq, Prod.mk.injEq] at hs <;> obtain ⟨-, rfl⟩ := hs <;>
    simp_all [fixedPc, contsOK, inRz, inWf, callResize, callWait]

/-- the return step hands `result` to the caller unchanged -/
theorem ret_step (p : Params K) (t : Tid) (g : G K V) (l : L K V) (c : Choice K V) (g' : G K V) (l' : L K V)
    (hpc : l.pc = .ret) (hs : tstep p t g l c = some (g', l')) : l'.result = l.result ∧ g' = g := by
  simp only [tstep, hpc] at hs
  split at hs <;> simp only [Option.some.injEq, Prod.mk.injEq] at hs <;> obtain ⟨rfl, rfl⟩ := hs <;> exact ⟨rfl, rfl⟩

/-! ## part: history — the steps of a run, without changing the model -/

/-- one step of a run: the state before, the thread that moved, its input, the state after -/
structure Ev (K V : Type) where
  pre : St K V
  tid : Tid
  ch : Choice K V
  post : St K V

/-- the steps taken by `run p s sched` (defined alongside `run`; a blocked step ends the list) -/
def events (p : Params K) (s : St K V) : List (Tid × Choice K V) → List (Ev K V)
  | [] => []
  | (t, c) :: rest =>
    match step p s t c with
    | some s' => ⟨s, t, c, s'⟩ :: events p s' rest
    | none => []

/-- the states visited by `run p s sched`, the start state included -/
def trace (p : Params K) (s : St K V) (sched : List (Tid × Choice K V)) : List (St K V) :=
  s :: (events p s sched).map (·.post)

/-- the global states visited by the run of `sched` from the initial state -/
def states (p : Params K) (sched : List (Tid × Choice K V)) : List (G K V) :=
  (trace (V := V) p (init p) sched).map (·.g)

theorem reach_step (p : Params K) (s s' : St K V) (t : Tid) (c : Choice K V) (h : Reach p s)
    (hs : step p s t c = some s') : Reach p s' := by
  obtain ⟨sched, hr⟩ := h
  refine ⟨sched ++ [(t, c)], ?_⟩
  have : ∀ (sched : List (Tid × Choice K V)) (s0 : St K V), run p s0 sched = some s →
      run p s0 (sched ++ [(t, c)]) = some s' := by
    intro sched
    induction sched with
    | nil => intro s0 h0; simp only [run, Option.some.injEq] at h0; subst h0; simp [run, hs]
    | cons a rest ih =>
      intro s0 h0
      obtain ⟨u, d⟩ := a
      simp only [run, List.cons_append] at h0 ⊢
      split at h0
      · rename_i s1 heq; exact ih s1 h0
      · simp at h0
  exact this sched _ hr

theorem reach_run (p : Params K) (sched : List (Tid × Choice K V)) (s s' : St K V) (h : Reach p s)
    (hr : run p s sched = some s') : Reach p s' := by
  induction sched generalizing s with
  | nil => simp only [run, Option.some.injEq] at hr; subst hr; exact h
  | cons a rest ih =>
    obtain ⟨t, c⟩ := a
    simp only [run] at hr
    split at hr
    · rename_i s1 heq; exact ih s1 (reach_step p s s1 t c h heq) hr
    · simp at hr

/-- **induction over the history of a run**: a predicate `J H s` of the list `H` of steps taken so far and the
current state `s`, preserved when a step is appended, holds at the end of the run with `H` extended by the
steps of the run -/
theorem hist_run (p : Params K) (J : List (Ev K V) → St K V → Prop)
    (hstep : ∀ H s t c s', Reach p s → J H s → step p s t c = some s' → J (H ++ [⟨s, t, c, s'⟩]) s')
    (sched : List (Tid × Choice K V)) (s s' : St K V) (H : List (Ev K V)) (hreach : Reach p s) (h : J H s)
    (hr : run p s sched = some s') : J (H ++ events p s sched) s' := by
  induction sched generalizing s H with
  | nil => simp only [run, Option.some.injEq] at hr; subst hr; simpa [events] using h
  | cons a rest ih =>
    obtain ⟨t, c⟩ := a
    simp only [run] at hr
    split at hr
    · rename_i s1 heq
      have := ih s1 (H ++ [⟨s, t, c, s1⟩]) (reach_step p s s1 t c hreach heq) (hstep H s t c s1 hreach h heq) hr
      simpa [events, heq] using this
    · simp at hr

/-- every recorded step is a step of the model from a reachable state -/
theorem events_sound (p : Params K) (sched : List (Tid × Choice K V)) (s : St K V) (hreach : Reach p s) :
    ∀ e ∈ events p s sched, Reach p e.pre ∧ step p e.pre e.tid e.ch = some e.post := by
  induction sched generalizing s with
  | nil => intro e he; simp [events] at he
  | cons a rest ih =>
    obtain ⟨t, c⟩ := a
    intro e he
    simp only [events] at he
    split at he
    · rename_i s1 heq
      rcases List.mem_cons.mp he with rfl | he
      · exact ⟨hreach, heq⟩
      · exact ih s1 (reach_step p s s1 t c hreach heq) e he
    · simp at he

/-- the state before a recorded step is one of the visited states -/
theorem pre_mem_trace (p : Params K) (sched : List (Tid × Choice K V)) (s : St K V) :
    ∀ e ∈ events p s sched, e.pre ∈ trace p s sched := by
  induction sched generalizing s with
  | nil => intro e he; simp [events] at he
  | cons a rest ih =>
    obtain ⟨t, c⟩ := a
    intro e he
    simp only [events] at he
    split at he
    · rename_i s1 heq
      rcases List.mem_cons.mp he with rfl | he
      · simp [trace]
      · have := ih s1 e he
        simp only [trace, events, heq, List.map_cons, List.mem_cons] at this ⊢
        rcases this with h | h
        · exact Or.inr (Or.inl h)
        · exact Or.inr (Or.inr h)
    · simp at he

/-- the final state of a run is one of the visited states -/
theorem last_mem_trace (p : Params K) (sched : List (Tid × Choice K V)) (s s' : St K V)
    (hr : run p s sched = some s') : s' ∈ trace p s sched := by
  induction sched generalizing s with
  | nil => simp only [run, Option.some.injEq] at hr; subst hr; simp [trace]
  | cons a rest ih =>
    obtain ⟨t, c⟩ := a
    simp only [run] at hr
    split at hr
    · rename_i s1 heq
      have := ih s1 hr
      simp only [trace, events, heq, List.map_cons, List.mem_cons] at this ⊢
      exact Or.inr this
    · simp at hr

theorem run_append (p : Params K) (pre mid : List (Tid × Choice K V)) (s s0 : St K V)
    (h0 : run p s pre = some s0) : run p s (pre ++ mid) = run p s0 mid := by
  induction pre generalizing s with
  | nil => simp only [run, Option.some.injEq] at h0; subst h0; rfl
  | cons a rest ih =>
    obtain ⟨t, c⟩ := a
    simp only [run, List.cons_append] at h0 ⊢
    cases heq : step p s t c with
    | none => simp [heq] at h0
    | some s1 => simp only [heq] at h0 ⊢; exact ih s1 h0

theorem events_append (p : Params K) (pre mid : List (Tid × Choice K V)) (s s0 : St K V)
    (h0 : run p s pre = some s0) : events p s (pre ++ mid) = events p s pre ++ events p s0 mid := by
  induction pre generalizing s with
  | nil => simp only [run, Option.some.injEq] at h0; subst h0; rfl
  | cons a rest ih =>
    obtain ⟨t, c⟩ := a
    simp only [run] at h0
    split at h0
    · rename_i s1 heq
      simp only [events, List.cons_append, heq]
      rw [ih s1 h0]
    · simp at h0

theorem events_length (p : Params K) (sched : List (Tid × Choice K V)) (s s' : St K V)
    (hr : run p s sched = some s') : (events p s sched).length = sched.length := by
  induction sched generalizing s with
  | nil => rfl
  | cons a rest ih =>
    obtain ⟨t, c⟩ := a
    simp only [run] at hr
    split at hr
    · rename_i s1 heq
      simp only [events, heq, List.length_cons, ih s1 hr]
    · simp at hr

/-- the states visited during the second part of a schedule (its start included) are the states visited by the
whole schedule after the first `pre.length` ones -/
theorem states_drop (p : Params K) (pre mid : List (Tid × Choice K V)) (s0 : St K V)
    (h0 : run p (init p) pre = some s0) :
    (states (V := V) p (pre ++ mid)).drop pre.length = (trace p s0 mid).map (·.g) := by
  have hlen := events_length p pre _ _ h0
  have hlast : ∀ (sched : List (Tid × Choice K V)) (s s1 : St K V), run p s sched = some s1 →
      (trace p s sched).drop sched.length = [s1] := by
    intro sched
    induction sched with
    | nil => intro s s1 h; simp only [run, Option.some.injEq] at h; subst h; rfl
    | cons a rest ih =>
      intro s s1 h
      obtain ⟨t, c⟩ := a
      simp only [run] at h
      split at h
      · rename_i s2 heq
        have := ih s2 s1 h
        simpa [trace, events, heq] using this
      · simp at h
  have h1 := hlast pre _ _ h0
  unfold states
  rw [← List.map_drop]
  congr 1
  simp only [trace, events_append p pre mid _ _ h0, List.map_append] at h1 ⊢
  have h2 : (init p :: List.map (·.post) (events p (init p) pre)).length = pre.length + 1 := by
    simp [hlen]
  rw [← List.cons_append, List.drop_append, h1]
  simp [hlen]

theorem step_def (p : Params K) (s s' : St K V) (t : Tid) (c : Choice K V) (hs : step p s t c = some s') :
    tstep p t s.g (s.l t) c = some (s'.g, s'.l t) ∧ ∀ u, u ≠ t → s'.l u = s.l u := by
  unfold step at hs
  split at hs
  · simp at hs
  · rename_i g' l' heq
    simp only [Option.some.injEq] at hs; subst hs
    exact ⟨by simpa using heq, fun u hu => by simp [hu]⟩

/-- thread `t` takes no return step among the recorded steps -/
def NoRet (t : Tid) (H : List (Ev K V)) : Prop := ∀ e ∈ H, e.tid = t → (e.pre.l t).pc ≠ .ret

/-- **(1d)** once the result of a writer is fixed (after its commit or its `loadIfExists` hit under the lock),
`result` does not change until the thread executes its return step — through the unlock, the counter update,
the shrink attempt with its nested `resize`/`waitForResize` — so the value returned is the value fixed at the
linearization point -/
theorem result_stable (p : Params K) (s s' : St K V) (hreach : Reach p s) (t : Tid)
    (hf : fixedPc (s.l t) ∨ (s.l t).pc = .ret) (sched : List (Tid × Choice K V))
    (hr : run p s sched = some s') (hn : NoRet t (events p s sched)) :
    (fixedPc (s'.l t) ∨ (s'.l t).pc = .ret) ∧ (s'.l t).result = (s.l t).result ∧ (s'.l t).op = (s.l t).op := by
  have key := hist_run p
    (fun H x => NoRet t H → (fixedPc (x.l t) ∨ (x.l t).pc = .ret) ∧ (x.l t).result = (s.l t).result ∧ (x.l t).op = (s.l t).op)
    ?_ sched s s' [] hreach (fun _ => ⟨hf, rfl, rfl⟩) hr
  · exact key (by simpa using hn)
  · intro H x u c x' hx hJ hs hnr
    have hnH : NoRet t H := fun e he => hnr e (List.mem_append_left _ he)
    obtain ⟨h1, h2, h3⟩ := hJ hnH
    obtain ⟨hts, hoth⟩ := step_def p x x' u c hs
    by_cases hu : u = t
    · subst hu
      have hpc : (x.l u).pc ≠ .ret := hnr ⟨x, u, c, x'⟩ (by simp) rfl
      have hfx : fixedPc (x.l u) := by
        rcases h1 with h | h
        · exact h
        · exact absurd h hpc
      obtain ⟨e1, e2, e3⟩ := fixed_step p u x.g (x.l u) c x'.g (x'.l u) ((inv_reach p x hx).2 u).wf hfx hts
      exact ⟨e3, by rw [e1, h2], by rw [e2, h3]⟩
    · rw [hoth t (Ne.symm hu)]; exact ⟨h1, h2, h3⟩

/-! ## part: Level 2 — the helping step of `Clear` -/

/-- a writer past both re-checks (`resizing`, `cur`) that has not committed yet -/
def past2 : Pc → Bool
  | .dcScan | .dcSum | .dcFn | .dcCommit => true
  | _ => false

theorem past2_pastChk (pc : Pc) (h : past2 pc = true) : pastChk pc = true := by
  revert h; cases pc <;> simp [past2, pastChk]

theorem past2_facts (pc : Pc) (h : past2 pc = true) :
    pastChk pc = true ∧ hasBi pc = true ∧ inDc pc = true ∧ usesTbl pc = true ∧ isResizer pc = false := by
  revert h; cases pc <;> simp [past2, pastChk, hasBi, inDc, usesTbl, isResizer]

theorem pastChk_facts (pc : Pc) (h : pastChk pc = true) :
    hasBi pc = true ∧ inDc pc = true ∧ usesTbl pc = true ∧ isResizer pc = false := by
  revert h; cases pc <;> simp [pastChk, hasBi, inDc, usesTbl, isResizer]

/-- a writer inside `doCompute` has a key -/
theorem dc_key (l : L K V) (hw : WF l) (h : inDc l.pc = true) : ∃ k, opKey l = some k := by
  have := isDcOp_key l.op (hw.dcop h)
  rw [← opKey_eq] at this
  cases hk : opKey l with
  | none => simp [hk] at this
  | some k => exact ⟨k, rfl⟩

/-- **(2a)** while a grow/shrink is about to publish its new table, no writer is past its checks on the table
being retired: all root buckets have been copied (`LD.full`), a writer past its checks holds a bucket that has
not been copied (`Pair`), and its bucket index is below the length of the table (`LD.bkt`) -/
theorem no_writer_past_checks_at_resize_publish (p : Params K) (hmin : 0 < p.minLen) (s : St K V) (h : Reach p s)
    (r u : Tid) (hpc : (s.l r).pc = .rzPublish) (hh : (s.l r).hint ≠ .clear)
    (hu : pastChk (s.l u).pc = true) : (s.l u).tbl ≠ (s.l r).rtbl ∧ (s.l u).tbl ≠ s.g.cur := by
  have hd := dinv_reach p hmin s h
  have hi := inv_reach p s h
  have hrc : (s.l r).rtbl = s.g.cur := (hd.ld r).rcur (Or.inr hpc)
  suffices hne : (s.l u).tbl ≠ (s.l r).rtbl from ⟨hne, by rw [← hrc]; exact hne⟩
  intro he
  have hcc : copyC (s.l r) = some (s.l r).ci := by simp [copyC, hpc, hh]
  have h1 := hd.pair r u _ hcc hu he
  have h2 := (hd.ld r).full hpc hh
  obtain ⟨hb, hdc, -, -⟩ := pastChk_facts _ hu
  obtain ⟨k, hk⟩ := dc_key _ (hi.2 u).wf hdc
  have h3 := (hd.ld u).bkt hb k hk
  have h4 : bucketOf p s.g (s.l u).tbl k < (s.g.tables (s.l u).tbl).len := Nat.mod_lt _ (hd.gd.lenPos _)
  rw [he] at h3 h4
  omega

/-- `cur` moves only at the publish step of a resize -/
theorem cur_step (p : Params K) (t : Tid) (g : G K V) (l : L K V) (c : Choice K V) (g' : G K V) (l' : L K V)
    (hs : tstep p t g l c = some (g', l')) : g'.cur = g.cur ∨ (l.pc = .rzPublish ∧ g'.cur = l.newT) := by
  cases hpc : l.pc <;> simp only [tstep, hpc] at hs <;> (repeat' split at hs) <;>
    simp only [Option.some.injEq, reduceCtorEq, Prod.mk.injEq] at hs <;> obtain ⟨rfl, -⟩ := hs <;> simp [setTbl]

/-- how a thread gets past both checks: from `dcChkTable`, having seen its table current; afterwards it keeps
its table, bucket and call, and changes nothing shared, until the commit -/
theorem past2_step (p : Params K) (t : Tid) (g : G K V) (l : L K V) (c : Choice K V) (g' : G K V) (l' : L K V)
    (hs : tstep p t g l c = some (g', l')) (h : past2 l'.pc = true) :
    l'.tbl = l.tbl ∧ l'.op = l.op ∧ l'.bi = l.bi ∧ g' = g ∧
      ((past2 l.pc = true ∧ l.pc ≠ .dcCommit) ∨ (l.pc = .dcChkTable ∧ g.cur = l.tbl)) := by
  have hP := popCont_pc_ne l
  have hS := fun l op => (startOp_pc_ne (K := K) (V := V) l op)
  have hP2 : (popCont l).pc ≠ .dcSum := by have := (popCont_pc l).1; grind
  have hS2 : ∀ (l : L K V) op, (startOp l op).pc ≠ .dcSum := fun l op => by have := (startOp_pc l op).1; grind
  cases hpc : l.pc <;> simp only [tstep, hpc] at hs <;> (repeat' split at hs) <;>
    simp only [Option.some.injEq, reduceCtorEq, Prod.mk.injEq] at hs <;> obtain ⟨rfl, rfl⟩ := hs <;>
    simp_all [past2, callResize, callWait]

/-- **(2a, step form)** the step that retires the table of a writer past its checks is the publish step of a
`Clear` (never of a grow/shrink), taken by another thread -/
theorem retire_step_is_clear (p : Params K) (hmin : 0 < p.minLen) (s : St K V) (h : Reach p s) (t u : Tid)
    (c : Choice K V) (g' : G K V) (l' : L K V) (hs : tstep p t s.g (s.l t) c = some (g', l'))
    (hu : pastChk (s.l u).pc = true) (htbl : (s.l u).tbl = s.g.cur) (hne : g'.cur ≠ s.g.cur) :
    (s.l t).pc = .rzPublish ∧ (s.l t).hint = .clear ∧ t ≠ u := by
  rcases cur_step p t s.g (s.l t) c g' l' hs with e | ⟨hpc, -⟩
  · exact absurd e hne
  · refine ⟨hpc, ?_, ?_⟩
    · refine Classical.byContradiction fun hh => ?_
      exact (no_writer_past_checks_at_resize_publish p hmin s h t u hpc hh hu).2 htbl
    · intro e; subst e; rw [hpc] at hu; cases hu

/-- a step changes the binding of key `k` in a published table generation `T` only if it is the commit of a
writer on `T` whose key is `k` -/
theorem data_key_step (p : Params K) (hmin : 0 < p.minLen) (s : St K V) (h : Reach p s) (t : Tid)
    (c : Choice K V) (g' : G K V) (l' : L K V) (hs : tstep p t s.g (s.l t) c = some (g', l'))
    (T : Nat) (hT : T ≤ s.g.cur) (k : K) :
    (g'.tables T).data.get k = (s.g.tables T).data.get k ∨
      ((s.l t).pc = .dcCommit ∧ (s.l t).tbl = T ∧ opKey (s.l t) = some k) := by
  have hdi := dinv_reach p hmin s h
  have hd := hdi.ld t
  have hg := (inv_reach p s h).1
  by_cases h1 : (s.l t).pc = .dcCommit
  · obtain ⟨k0, nv, del, hk0, -⟩ := commit_shape p t s.g (s.l t) c g' l' h1 hs
    obtain ⟨-, -, -, hoth, hkey, -⟩ := commit_frame p t s.g (s.l t) c g' l' h1 hs k0 hk0
    by_cases hTe : T = (s.l t).tbl
    · by_cases hk : k = k0
      · subst hk; exact Or.inr ⟨h1, hTe.symm, hk0⟩
      · subst hTe; exact Or.inl (hkey k hk)
    · exact Or.inl (by rw [hoth T hTe])
  left
  by_cases h2 : (s.l t).pc = .rzDecide ∨ (s.l t).pc = .rzDecideSum
  · obtain ⟨-, -, -, -, -, hcase⟩ := decide_shape p t s.g (s.l t) c g' l' hmin (hdi.gd.lenPos _) hd.shr h2 hs
    rcases hcase with ⟨e, -⟩ | ⟨len, -, hc, -, -, hoth, -, -⟩
    · rw [e]
    · have := hg.2
      rw [hoth _ (by omega)]
  by_cases h3 : (s.l t).pc = .rzCopyDo
  · have hgt : s.g.cur < (s.l t).newT := hd.newGt (by rw [h3]; rfl)
    simp only [tstep, h3, Option.some.injEq, Prod.mk.injEq] at hs
    obtain ⟨rfl, -⟩ := hs
    simp only [setTbl, if_neg (show T ≠ (s.l t).newT by omega)]
  by_cases h4 : (s.l t).pc = .rzPublish
  · simp only [tstep, h4, Option.some.injEq, Prod.mk.injEq] at hs
    obtain ⟨rfl, -⟩ := hs
    rfl
  · obtain ⟨-, hsame⟩ := quiet_sameD p t s.g (s.l t) c g' l' h1 h2 h3 h4 hs
    rw [(hsame _).2]

/-- **(2c)** two distinct writers past their checks on the same table generation hold distinct root buckets,
hence work on distinct keys: the writers helped by one `Clear` commute -/
theorem helped_keys_distinct (p : Params K) (hmin : 0 < p.minLen) (s : St K V) (h : Reach p s) (t u : Tid)
    (hne : t ≠ u) (ht : pastChk (s.l t).pc = true) (hu : pastChk (s.l u).pc = true)
    (htbl : (s.l t).tbl = (s.l u).tbl) :
    (s.l t).bi ≠ (s.l u).bi ∧ ∀ k1 k2, opKey (s.l t) = some k1 → opKey (s.l u) = some k2 → k1 ≠ k2 := by
  have hd := dinv_reach p hmin s h
  have hbi : (s.l t).bi ≠ (s.l u).bi := by
    intro e
    refine hne (mutex p s h t u (s.l t).tbl (s.l t).bi (holds_pastChk _ ht) ?_)
    rw [holds_pastChk _ hu, htbl, e]
  refine ⟨hbi, fun k1 k2 h1 h2 e => hbi ?_⟩
  subst e
  rw [(hd.ld t).bkt (pastChk_facts _ ht).1 k1 h1, (hd.ld u).bkt (pastChk_facts _ hu).1 k1 h2, htbl]

/-- while a writer is past its checks (it holds the lock of the root bucket of its key), no other thread changes
the binding of its key in its table generation — whether that generation is current or retired -/
theorem locked_key_stable (p : Params K) (hmin : 0 < p.minLen) (s : St K V) (h : Reach p s) (t u : Tid)
    (hne : t ≠ u) (c : Choice K V) (g' : G K V) (l' : L K V) (hs : tstep p t s.g (s.l t) c = some (g', l'))
    (hu : pastChk (s.l u).pc = true) (k : K) (hk : opKey (s.l u) = some k) :
    (g'.tables (s.l u).tbl).data.get k = (s.g.tables (s.l u).tbl).data.get k := by
  have hd := dinv_reach p hmin s h
  rcases data_key_step p hmin s h t c g' l' hs (s.l u).tbl (hd.ld u).tblLe k with e | ⟨h1, h2, h3⟩
  · exact e
  · exact absurd rfl ((helped_keys_distinct p hmin s h t u hne (by rw [h1]; rfl) hu h2).2 k k h3 hk)

/-- **(2b)** a commit into a retired table generation is invisible: the abstract content does not change -/
theorem commit_on_retired_invisible (p : Params K) (t : Tid) (g : G K V) (l : L K V) (c : Choice K V)
    (g' : G K V) (l' : L K V) (hpc : l.pc = .dcCommit) (htbl : l.tbl ≠ g.cur)
    (hs : tstep p t g l c = some (g', l')) : ∀ k, absGet g' k = absGet g k := by
  obtain ⟨k0, nv, del, hk0, -⟩ := commit_shape p t g l c g' l' hpc hs
  obtain ⟨hc, -, -, hoth, -, -⟩ := commit_frame p t g l c g' l' hpc hs k0 hk0
  intro k; unfold absGet; rw [hc, hoth _ (Ne.symm htbl)]

/-- shape of the step at `dcFn` -/
theorem fn_step (p : Params K) (t : Tid) (g : G K V) (l : L K V) (c : Choice K V) (g' : G K V) (l' : L K V)
    (hpc : l.pc = .dcFn) (hs : tstep p t g l c = some (g', l')) :
    g' = g ∧ l'.pc = .dcCommit ∧ l'.old = l.old ∧ l'.tbl = l.tbl ∧ l'.op = l.op ∧ l'.result = l.result := by
  simp only [tstep, hpc] at hs
  split at hs <;> simp only [Option.some.injEq, reduceCtorEq, Prod.mk.injEq] at hs
  obtain ⟨rfl, rfl⟩ := hs
  exact ⟨rfl, rfl, rfl, rfl, rfl, rfl⟩

/-- **(2b)** a writer at `dcFn`/`dcCommit`, on any table generation (current or retired): `old` is the binding of
its key in its table; if the table is current, `old` is the abstract binding (so at the instant of a `Clear`
publish the writer can be linearized immediately before the `Clear`); its commit installs
`(specDc f lie co old).1` in its own table and returns the value/flag of `specDc f lie co old` -/
theorem helped_result (p : Params K) (hmin : 0 < p.minLen) (s : St K V) (h : Reach p s) (u : Tid)
    (k : K) (f : Option V → V × Bool) (lie co : Bool) (hop : (s.l u).op = some (.dc k f lie co))
    (hpc : (s.l u).pc = .dcFn ∨ (s.l u).pc = .dcCommit) :
    (s.l u).old = (s.g.tables (s.l u).tbl).data.get k ∧
    ((s.l u).tbl = s.g.cur → (s.l u).old = absGet s.g k) ∧
    (∀ c g' l', tstep p u s.g (s.l u) c = some (g', l') →
      ((s.l u).pc = .dcFn → g' = s.g ∧ l'.pc = .dcCommit ∧ l'.old = (s.l u).old ∧ l'.tbl = (s.l u).tbl ∧
          l'.op = (s.l u).op) ∧
      ((s.l u).pc = .dcCommit →
        (g'.tables (s.l u).tbl).data.get k = (specDc f lie co (s.l u).old).1 ∧
        l'.result = some (.val (specDc f lie co (s.l u).old).2.1 (specDc f lie co (s.l u).old).2.2) ∧
        ((s.l u).tbl ≠ s.g.cur → ∀ k', absGet g' k' = absGet s.g k'))) := by
  have hold := ((dinv_reach p hmin s h).ld u).old (Or.inr hpc) k (by simp [opKey, hop])
  refine ⟨hold, fun e => by rw [hold, e]; rfl, fun c g' l' hs => ⟨fun h1 => ?_, fun h1 => ?_⟩⟩
  · obtain ⟨e1, e2, e3, e4, e5, -⟩ := fn_step p u s.g (s.l u) c g' l' h1 hs
    exact ⟨e1, e2, e3, e4, e5⟩
  · obtain ⟨f1, f2, f3⟩ := commit_facts p hmin s h u k f lie co hop h1
    obtain ⟨e1, e2, -⟩ := commit_step_spec p u s.g (s.l u) c g' l' k f lie co hop h1 f1 f2 f3 hs
    exact ⟨e1, e2, fun hne => commit_on_retired_invisible p u s.g (s.l u) c g' l' h1 hne hs⟩

/-! ## part: Level 3 — hindsight for lookups across table generations (history invariants) -/

/-- table generation `T` was the current one in the state before one of the recorded steps -/
def WasCurH (H : List (Ev K V)) (T : Nat) : Prop := ∃ e ∈ H, e.pre.g.cur = T

/-- table generation `T` is current, or was current in the state before one of the recorded steps -/
def WasCur (H : List (Ev K V)) (s : St K V) (T : Nat) : Prop := T = s.g.cur ∨ WasCurH H T

/-- the recorded step `e` is the publish step of a `Clear`, and in the state before it thread `u` is a writer
`doCompute k f lie co` past both its checks on the table being retired: `Clear` helps `u`, which is linearized
immediately before the `Clear` -/
def HelpAt (e : Ev K V) (u : Tid) (k : K) (f : Option V → V × Bool) (lie co : Bool) : Prop :=
  (e.pre.l e.tid).pc = .rzPublish ∧ (e.pre.l e.tid).hint = .clear ∧
  past2 (e.pre.l u).pc = true ∧ (e.pre.l u).tbl = e.pre.g.cur ∧ (e.pre.l u).op = some (.dc k f lie co)

/-- `v` is a legal answer of a lookup of `k` whose call covers the recorded steps `H` and the current state `s`:
the abstract binding of `k` in a visited state, or the binding installed by a writer helped by a recorded `Clear`
(the abstract binding in the virtual state between the linearization of that writer and the `Clear`) -/
def Wit (H : List (Ev K V)) (s : St K V) (k : K) (v : Option V) : Prop :=
  absGet s.g k = v ∨ (∃ e ∈ H, absGet e.pre.g k = v) ∨
  (∃ e ∈ H, ∃ u f lie co, HelpAt e u k f lie co ∧ v = (specDc f lie co (absGet e.pre.g k)).1)

theorem wit_mono (H : List (Ev K V)) (s s' : St K V) (k : K) (v : Option V) (ev : Ev K V) (hpre : ev.pre = s)
    (h : Wit H s k v) : Wit (H ++ [ev]) s' k v := by
  rcases h with h | ⟨e, he, h⟩ | ⟨e, he, h⟩
  · exact Or.inr (Or.inl ⟨ev, by simp, by rw [hpre]; exact h⟩)
  · exact Or.inr (Or.inl ⟨e, List.mem_append_left _ he, h⟩)
  · exact Or.inr (Or.inr ⟨e, List.mem_append_left _ he, h⟩)

theorem wasCur_mono (H : List (Ev K V)) (s s' : St K V) (T : Nat) (ev : Ev K V) (hpre : ev.pre = s)
    (h : WasCur H s T) : WasCur (H ++ [ev]) s' T := by
  rcases h with h | ⟨e, he, h⟩
  · exact Or.inr ⟨ev, by simp, by rw [hpre]; exact h.symm⟩
  · exact Or.inr ⟨e, List.mem_append_left _ he, h⟩

/-- `cur` never decreases -/
theorem cur_le_step (p : Params K) (hmin : 0 < p.minLen) (s : St K V) (h : Reach p s) (t : Tid)
    (c : Choice K V) (g' : G K V) (l' : L K V) (hs : tstep p t s.g (s.l t) c = some (g', l')) :
    s.g.cur ≤ g'.cur := by
  rcases cur_step p t s.g (s.l t) c g' l' hs with e | ⟨hpc, e⟩
  · omega
  · have := ((dinv_reach p hmin s h).ld t).newGt (by rw [hpc]; rfl); omega

theorem dc_op_of_key (l : L K V) (hw : WF l) (h : inDc l.pc = true) (k : K) (hk : opKey l = some k) :
    ∃ f lie co, l.op = some (.dc k f lie co) := by
  obtain ⟨k0, f, lie, co, hop⟩ := isDcOp_cases l.op (hw.dcop h)
  have : k0 = k := by simpa [opKey, hop] using hk
  subst this
  exact ⟨f, lie, co, hop⟩

theorem opKey_congr (l l' : L K V) (h : l'.op = l.op) : opKey l' = opKey l := by
  rw [opKey_eq, opKey_eq, h]

/-- **the history invariant of the retired table generations**, for one key `k`.  For every table generation `T`
that was current at a recorded step and is retired now:
* `r1`: the binding of `k` in `T` is a legal answer (`Wit`): the abstract binding of a visited state, or the binding
  installed by a writer helped by a recorded `Clear`;
* `r2`: every writer of `k` still past its checks on `T` was helped by the recorded `Clear` publish that retired
  `T`, and the binding of `k` in `T` is still the abstract binding at that publish (nobody else can touch it: the
  writer holds the bucket lock).  In particular `T` was not retired by a grow/shrink. -/
structure TabInv (k : K) (H : List (Ev K V)) (s : St K V) : Prop where
  mono : ∀ e ∈ H, e.pre.g.cur ≤ s.g.cur
  r1 : ∀ T, T ≠ s.g.cur → WasCurH H T → Wit H s k ((s.g.tables T).data.get k)
  r2 : ∀ T, T ≠ s.g.cur → WasCurH H T → ∀ u, past2 (s.l u).pc = true → (s.l u).tbl = T → opKey (s.l u) = some k →
    ∃ e ∈ H, ∃ f lie co, HelpAt e u k f lie co ∧ e.pre.g.cur = T ∧ (s.l u).op = some (.dc k f lie co) ∧
      (s.g.tables T).data.get k = absGet e.pre.g k

theorem tabinv_nil (k : K) (s : St K V) : TabInv k [] s :=
  ⟨fun e he => (by cases he), fun T _ hw => (by obtain ⟨e, he, -⟩ := hw; cases he),
   fun T _ hw => (by obtain ⟨e, he, -⟩ := hw; cases he)⟩

theorem tabinv_step (p : Params K) (hmin : 0 < p.minLen) (k : K) (H : List (Ev K V)) (s : St K V) (t : Tid)
    (c : Choice K V) (s' : St K V) (hreach : Reach p s) (hJ : TabInv k H s) (hs : step p s t c = some s') :
    TabInv k (H ++ [⟨s, t, c, s'⟩]) s' := by
  obtain ⟨hts, hoth⟩ := step_def p s s' t c hs
  have hcle := cur_le_step p hmin s hreach t c _ _ hts
  have hi := inv_reach p s hreach
  have hmem : ∀ e, e ∈ H ++ [(⟨s, t, c, s'⟩ : Ev K V)] → e ∈ H ∨ e = ⟨s, t, c, s'⟩ := by
    intro e he; simpa using he
  have hwas : ∀ T, T ≠ s.g.cur → WasCurH (H ++ [(⟨s, t, c, s'⟩ : Ev K V)]) T → WasCurH H T := by
    intro T hT hw
    obtain ⟨e, he, hc⟩ := hw
    rcases hmem e he with h | rfl
    · exact ⟨e, h, hc⟩
    · exact absurd hc.symm hT
  have hle : ∀ T, WasCurH (H ++ [(⟨s, t, c, s'⟩ : Ev K V)]) T → T ≤ s.g.cur := by
    intro T hw
    obtain ⟨e, he, hc⟩ := hw
    rcases hmem e he with h | rfl
    · rw [← hc]; exact hJ.mono e h
    · rw [← hc]; exact Nat.le_refl _
  refine ⟨?_, ?_, ?_⟩
  · intro e he
    rcases hmem e he with h | rfl
    · exact Nat.le_trans (hJ.mono e h) hcle
    · exact hcle
  · intro T hT hw
    have hTle := hle T hw
    rcases data_key_step p hmin s hreach t c s'.g (s'.l t) hts T hTle k with hsame | ⟨hpc, htbl, hkey⟩
    · rw [hsame]
      by_cases hTc : T = s.g.cur
      · subst hTc
        exact Or.inr (Or.inl ⟨⟨s, t, c, s'⟩, by simp, rfl⟩)
      · exact wit_mono H s s' k _ _ rfl (hJ.r1 T hTc (hwas T hTc hw))
    · have hcur : s'.g.cur = s.g.cur := by
        rcases cur_step p t s.g (s.l t) c _ _ hts with e | ⟨e, -⟩
        · exact e
        · rw [hpc] at e; cases e
      have hTc : T ≠ s.g.cur := by rw [← hcur]; exact hT
      obtain ⟨e, he, f, lie, co, hhelp, -, hop, hdata⟩ :=
        hJ.r2 T hTc (hwas T hTc hw) t (by rw [hpc]; rfl) htbl hkey
      obtain ⟨f1, f2, f3⟩ := commit_facts p hmin s hreach t k f lie co hop hpc
      obtain ⟨e1, -⟩ := commit_step_spec p t s.g (s.l t) c _ _ k f lie co hop hpc f1 f2 f3 hts
      refine Or.inr (Or.inr ⟨e, List.mem_append_left _ he, t, f, lie, co, hhelp, ?_⟩)
      rw [← htbl, e1, f2, htbl, hdata]
  · intro T hT hw u hu htbl hkey
    have hTle := hle T hw
    by_cases hTc : T = s.g.cur
    · have hne : s'.g.cur ≠ s.g.cur := by rw [← hTc]; exact fun e => hT e.symm
      have hut : u ≠ t := by
        intro e; subst e
        have := (past2_step p u s.g (s.l u) c s'.g (s'.l u) hts hu).2.2.2.1
        exact hne (by rw [this])
      rw [hoth u hut] at hu htbl hkey
      obtain ⟨hpc, hh, -⟩ := retire_step_is_clear p hmin s hreach t u c _ _ hts (past2_pastChk _ hu)
        (by rw [htbl, hTc]) hne
      obtain ⟨f, lie, co, hop⟩ := dc_op_of_key _ (hi.2 u).wf (past2_facts _ hu).2.2.1 k hkey
      refine ⟨⟨s, t, c, s'⟩, by simp, f, lie, co, ⟨hpc, hh, hu, by rw [htbl, hTc], hop⟩, hTc.symm,
        by rw [hoth u hut]; exact hop, ?_⟩
      rcases data_key_step p hmin s hreach t c s'.g (s'.l t) hts T hTle k with hsame | ⟨hpc', -⟩
      · rw [hsame, hTc]; rfl
      · rw [hpc] at hpc'; cases hpc'
    · have hw' := hwas T hTc hw
      by_cases hut : u = t
      · subst hut
        obtain ⟨e1, e2, e3, e4, hcase⟩ := past2_step p u s.g (s.l u) c s'.g (s'.l u) hts hu
        rcases hcase with ⟨hp2, -⟩ | ⟨-, hcur⟩
        · obtain ⟨e, he, f, lie, co, hhelp, hcur, hop, hdata⟩ :=
            hJ.r2 T hTc hw' u hp2 (by rw [← e1]; exact htbl) (by rw [← opKey_congr _ _ e2]; exact hkey)
          exact ⟨e, List.mem_append_left _ he, f, lie, co, hhelp, hcur, by rw [e2]; exact hop,
            by rw [e4]; exact hdata⟩
        · exact absurd (by rw [hcur, ← e1, htbl]) hTc
      · rw [hoth u hut] at hu htbl hkey ⊢
        obtain ⟨e, he, f, lie, co, hhelp, hcur, hop, hdata⟩ := hJ.r2 T hTc hw' u hu htbl hkey
        refine ⟨e, List.mem_append_left _ he, f, lie, co, hhelp, hcur, hop, ?_⟩
        rw [← htbl, locked_key_stable p hmin s hreach t u (Ne.symm hut) c _ _ hts (past2_pastChk _ hu) k hkey,
          htbl]
        exact hdata

theorem popContAux_op (l : L K V) : (popCont.popContAux l).op = l.op := by
  unfold popCont.popContAux; split <;> rfl

theorem popCont_op (l : L K V) : (popCont l).op = l.op := by
  unfold popCont; split <;> (try split) <;> (try rfl)
  exact popContAux_op _

theorem startOp_op (l : L K V) (op : POp K V) : (startOp l op).op = some op := by
  rcases op with _ | ⟨_, _, _ | _, _⟩ | _ | _ | _ <;> rfl

theorem startOp_load (l : L K V) (op : POp K V) (k : K) (h : (startOp l op).op = some (.load k)) :
    (startOp l op).pc = .ldTable := by
  rw [startOp_op] at h; cases h; rfl

/-- a `Load` call is at one of its three pcs -/
def LoadPc (l : L K V) : Prop := ∀ k, l.op = some (.load k) → l.pc = .ldTable ∨ l.pc = .ldRead ∨ l.pc = .ret

theorem loadPc_step (p : Params K) (t : Tid) (g : G K V) (l : L K V) (c : Choice K V) (g' : G K V) (l' : L K V)
    (h : LoadPc l) (hs : tstep p t g l c = some (g', l')) : LoadPc l' := by
  intro k hop
  have hP := popCont_op l
  have hS := fun l op => startOp_load (K := K) (V := V) l op k
  unfold LoadPc at h
  cases hpc : l.pc <;> simp only [tstep, hpc] at hs <;> (repeat' split at hs) <;>
    simp only [Option.some.injEq, reduceCtorEq, Prod.mk.injEq] at hs <;> obtain ⟨-, rfl⟩ := hs <;>
    simp_all [callResize, callWait] <;> exact absurd hP.symm (h k)

theorem loadPc_reach (p : Params K) (s : St K V) (h : Reach p s) (u : Tid) : LoadPc (s.l u) :=
  local_reach p LoadPc (fun k hk => by cases hk) (loadPc_step p) s h u

/-- a `Load` call reaches its return only through the read step -/
theorem ret_entry_load (p : Params K) (t : Tid) (g : G K V) (l : L K V) (c : Choice K V) (g' : G K V) (l' : L K V)
    (h : LoadPc l) (hs : tstep p t g l c = some (g', l')) (hpc' : l'.pc = .ret) (k : K)
    (hop' : l'.op = some (.load k)) : l.pc = .ldRead ∧ l.op = some (.load k) := by
  have hP := popCont_op l
  have hS := fun l op => (startOp_pc_ne (K := K) (V := V) l op).2.2.2.2.2
  unfold LoadPc at h
  cases hpc : l.pc <;> simp only [tstep, hpc] at hs <;> (repeat' split at hs) <;>
    simp only [Option.some.injEq, reduceCtorEq, Prod.mk.injEq] at hs <;> obtain ⟨-, rfl⟩ := hs <;>
    simp_all [callResize, callWait] <;> exact absurd hP.symm (h k)

/-- the read pc is entered with the current table loaded -/
theorem read_entry (p : Params K) (t : Tid) (g : G K V) (l : L K V) (c : Choice K V) (g' : G K V) (l' : L K V)
    (hs : tstep p t g l c = some (g', l')) (hpc' : l'.pc = .ldRead) : l'.tbl = g.cur ∧ g' = g := by
  have hP := (popCont_pc_ne l).2.2.2.2
  have hS := fun l op => (startOp_pc_ne (K := K) (V := V) l op).2.2.2.2.1
  cases hpc : l.pc <;> simp only [tstep, hpc] at hs <;> (repeat' split at hs) <;>
    simp only [Option.some.injEq, reduceCtorEq, Prod.mk.injEq] at hs <;> obtain ⟨rfl, rfl⟩ := hs <;>
    simp_all [callResize, callWait]

/-- the binding of `k` in a table generation that is or was current is a legal answer -/
theorem read_wit (k : K) (H : List (Ev K V)) (s : St K V) (hJ : TabInv k H s) (T : Nat) (hw : WasCur H s T) :
    Wit H s k ((s.g.tables T).data.get k) := by
  by_cases hT : T = s.g.cur
  · subst hT; exact Or.inl rfl
  · rcases hw with h | h
    · exact absurd h hT
    · exact hJ.r1 T hT h

/-- the history invariant of a lookup by thread `t`: at the read pc the table it loaded is or was current during
the recorded steps; when a `Load k` is about to return, the value it returns is a legal answer -/
structure RdInv (k : K) (t : Tid) (H : List (Ev K V)) (s : St K V) : Prop where
  rd : (s.l t).pc = .ldRead → WasCur H s (s.l t).tbl
  rt : (s.l t).pc = .ret → (s.l t).op = some (.load k) → ∀ v b, (s.l t).result = some (.val v b) → Wit H s k v

theorem rdinv_step (p : Params K) (hmin : 0 < p.minLen) (k : K) (t : Tid) (H : List (Ev K V)) (s : St K V) (x : Tid)
    (c : Choice K V) (s' : St K V) (hreach : Reach p s) (hT : TabInv k H s) (hJ : RdInv k t H s)
    (hs : step p s x c = some s') : RdInv k t (H ++ [⟨s, x, c, s'⟩]) s' := by
  obtain ⟨hts, hoth⟩ := step_def p s s' x c hs
  by_cases hx : t = x
  · subst hx
    refine ⟨fun hpc => ?_, fun hpc hop v b hres => ?_⟩
    · obtain ⟨e1, e2⟩ := read_entry p t s.g (s.l t) c _ _ hts hpc
      exact Or.inl (by rw [e1, e2])
    · obtain ⟨h1, h2⟩ := ret_entry_load p t s.g (s.l t) c _ _ (loadPc_reach p s hreach t) hts hpc k hop
      obtain ⟨e1, -, hcase⟩ := read_step p t s.g (s.l t) c _ _ k (by simp [opKey, h2]) h1 hts
      have hw := read_wit k H s hT _ (hJ.rd h1)
      rcases hcase with ⟨-, -, hr⟩ | ⟨k0, f, lie, co, y, h3, -⟩ | ⟨h3, -⟩
      · rw [hr] at hres; cases hres
        exact wit_mono H s s' k _ _ rfl hw
      · rw [h2] at h3; cases h3
      · rw [h2] at h3; cases h3
  · have hl := hoth t hx
    refine ⟨fun hpc => ?_, fun hpc hop v b hres => ?_⟩
    · rw [hl] at hpc ⊢; exact wasCur_mono H s s' _ _ rfl (hJ.rd hpc)
    · rw [hl] at hpc hop hres; exact wit_mono H s s' k v _ rfl (hJ.rt hpc hop v b hres)

/-- a legal answer w.r.t. the steps of a run, spelled out: the abstract binding in one of the visited states, or
the binding installed by a writer that one of the `Clear` publish steps of the run helped -/
theorem wit_run (p : Params K) (mid : List (Tid × Choice K V)) (s0 s' : St K V) (h1 : run p s0 mid = some s')
    (k : K) (v : Option V) (h : Wit (events p s0 mid) s' k v) :
    (∃ x ∈ trace p s0 mid, absGet x.g k = v) ∨
    (∃ e ∈ events p s0 mid, ∃ u f lie co, HelpAt e u k f lie co ∧ v = (specDc f lie co (absGet e.pre.g k)).1) := by
  rcases h with h | ⟨e, he, h⟩ | h
  · exact Or.inl ⟨s', last_mem_trace p mid s0 s' h1, h⟩
  · exact Or.inl ⟨e.pre, pre_mem_trace p mid s0 e he, h⟩
  · exact Or.inr h

/-- the two history invariants along a run that starts when thread `t` is neither at the read pc nor returning -/
theorem hind_run (p : Params K) (hmin : 0 < p.minLen) (k : K) (t : Tid) (mid : List (Tid × Choice K V))
    (s0 s' : St K V) (hreach : Reach p s0) (h1 : run p s0 mid = some s')
    (hstart : (s0.l t).pc ≠ .ldRead ∧ (s0.l t).pc ≠ .ret) :
    TabInv k (events p s0 mid) s' ∧ RdInv k t (events p s0 mid) s' := by
  have := hist_run p (fun H s => TabInv k H s ∧ RdInv k t H s) ?_ mid s0 s' [] hreach
    ⟨tabinv_nil k s0, fun h => absurd h hstart.1, fun h => absurd h hstart.2⟩ h1
  · simpa using this
  · intro H s x c s2 hr hJ hs
    exact ⟨tabinv_step p hmin k H s x c s2 hr hJ.1 hs, rdinv_step p hmin k t H s x c s2 hr hJ.1 hJ.2 hs⟩

/-- **(3a) hindsight for `Load`, across table generations.**  Let thread `t` be at the beginning of a call (or idle,
or anywhere but at the read pc / the return pc) at the end of `pre`, and let it be about to return from `Load k`
with value `v` at the end of `pre ++ mid`.  Then
* either `v` is the abstract binding of `k` in one of the states visited during `mid` (its start included),
* or `v` is the binding `(specDc f lie co (absGet g k)).1` installed by a writer `doCompute k f lie co` that was past
  its checks on the current table in the state `g` right before a `Clear` publish step taken during `mid`: the writer
  is linearized immediately before that `Clear` (Level 2), and `v` is the abstract binding in the virtual state
  between the two — an instant inside the call. -/
theorem load_hindsight (p : Params K) (hmin : 0 < p.minLen) (pre mid : List (Tid × Choice K V)) (s0 s' : St K V)
    (h0 : run p (init p) pre = some s0) (h1 : run p s0 mid = some s') (t : Tid) (k : K) (v : Option V) (b : Bool)
    (hstart : (s0.l t).pc ≠ .ldRead ∧ (s0.l t).pc ≠ .ret)
    (hop : (s'.l t).op = some (.load k)) (hret : (s'.l t).pc = .ret) (hres : (s'.l t).result = some (.val v b)) :
    (∃ x ∈ trace p s0 mid, absGet x.g k = v) ∨
    (∃ e ∈ events p s0 mid, ∃ u f lie co, HelpAt e u k f lie co ∧ v = (specDc f lie co (absGet e.pre.g k)).1) := by
  obtain ⟨-, hR⟩ := hind_run p hmin k t mid s0 s' ⟨pre, h0⟩ h1 hstart
  exact wit_run p mid s0 s' h1 k v (hR.rt hret hop v b hres)

/-- (3a), with the visited states counted from the initial state: the witness is among the states of the run of
`pre ++ mid` after the first `pre.length` ones -/
theorem load_hindsight_states (p : Params K) (hmin : 0 < p.minLen) (pre mid : List (Tid × Choice K V)) (s0 s' : St K V)
    (h0 : run p (init p) pre = some s0) (h1 : run p s0 mid = some s') (t : Tid) (k : K) (v : Option V) (b : Bool)
    (hstart : (s0.l t).pc = .ldTable)
    (hop : (s'.l t).op = some (.load k)) (hret : (s'.l t).pc = .ret) (hres : (s'.l t).result = some (.val v b)) :
    (∃ g ∈ (states p (pre ++ mid)).drop pre.length, absGet g k = v) ∨
    (∃ e ∈ events p s0 mid, ∃ u f lie co, HelpAt e u k f lie co ∧ v = (specDc f lie co (absGet e.pre.g k)).1) := by
  rcases load_hindsight p hmin pre mid s0 s' h0 h1 t k v b (by rw [hstart]; simp) hop hret hres with ⟨x, hx, h⟩ | h
  · left
    rw [states_drop p pre mid s0 h0]
    exact ⟨x.g, List.mem_map.mpr ⟨x, hx, rfl⟩, h⟩
  · exact Or.inr h

/-- **(3b) hindsight for the lock-free read of any lookup** (`Load`, and the fast path of LoadOrStore/LoadOrCompute):
if thread `t` was not at the read pc at the end of `pre` and is at the read pc at the end of `pre ++ mid`, then the
binding of its key in the table generation it loaded — which is what the read step returns, see `read_step`,
`fastpath_hit` — is a legal answer in the sense of (3a) -/
theorem read_hindsight (p : Params K) (hmin : 0 < p.minLen) (pre mid : List (Tid × Choice K V)) (s0 s' : St K V)
    (h0 : run p (init p) pre = some s0) (h1 : run p s0 mid = some s') (t : Tid) (k : K)
    (hstart : (s0.l t).pc ≠ .ldRead) (hpc : (s'.l t).pc = .ldRead) :
    let v := (s'.g.tables (s'.l t).tbl).data.get k
    (∃ x ∈ trace p s0 mid, absGet x.g k = v) ∨
    (∃ e ∈ events p s0 mid, ∃ u f lie co, HelpAt e u k f lie co ∧ v = (specDc f lie co (absGet e.pre.g k)).1) := by
  intro v
  have := hist_run p (fun H s => TabInv k H s ∧ ((s.l t).pc = .ldRead → WasCur H s (s.l t).tbl)) ?_ mid s0 s' []
    ⟨pre, h0⟩ ⟨tabinv_nil k s0, fun h => absurd h hstart⟩ h1
  · simp only [List.nil_append] at this
    exact wit_run p mid s0 s' h1 k v (read_wit k _ s' this.1 _ (this.2 hpc))
  · intro H s x c s2 hr hJ hs
    refine ⟨tabinv_step p hmin k H s x c s2 hr hJ.1 hs, fun hpc2 => ?_⟩
    obtain ⟨hts, hoth⟩ := step_def p s s2 x c hs
    by_cases hx : t = x
    · subst hx
      obtain ⟨e1, e2⟩ := read_entry p t s.g (s.l t) c _ _ hts hpc2
      exact Or.inl (by rw [e1, e2])
    · rw [hoth t hx] at hpc2 ⊢
      exact wasCur_mono H s s2 _ _ rfl (hJ.2 hpc2)

/-- **(3b), for the fast-path hit of a writer**: the binding `some x` returned by the lock-free fast path of a
`loadIfExists` call (`fastpath_hit`) is a legal answer of a lookup whose call covers `mid` -/
theorem fastpath_hindsight (p : Params K) (hmin : 0 < p.minLen) (pre mid : List (Tid × Choice K V)) (s0 s' : St K V)
    (h0 : run p (init p) pre = some s0) (h1 : run p s0 mid = some s') (t : Tid)
    (k : K) (f : Option V → V × Bool) (lie co : Bool)
    (hstart : (s0.l t).pc ≠ .ldRead) (hop : (s'.l t).op = some (.dc k f lie co)) (hpc : (s'.l t).pc = .ldRead)
    (c : Choice K V) (g' : G K V) (l' : L K V) (hs : tstep p t s'.g (s'.l t) c = some (g', l')) (hhit : l'.pc = .ret) :
    ∃ x, l'.result = some (.val (some x) (!co)) ∧
      ((∃ st ∈ trace p s0 mid, absGet st.g k = some x) ∨
       (∃ e ∈ events p s0 mid, ∃ u f' lie' co', HelpAt e u k f' lie' co' ∧
          some x = (specDc f' lie' co' (absGet e.pre.g k)).1)) := by
  have hreach : Reach p s' := reach_run p mid s0 s' ⟨pre, h0⟩ h1
  obtain ⟨-, -, x, hx, hr, -⟩ := fastpath_hit p s' hreach t k f lie co hop hpc c g' l' hs hhit
  have := read_hindsight p hmin pre mid s0 s' h0 h1 t k hstart hpc
  simp only [hx] at this
  exact ⟨x, hr, this⟩

/-! ## part: Level 2a (history form) and Level 4 — every completed writer call has a linearization point -/

/-- thread `u`, when past its checks, works on a table generation that is or was current during the recorded steps -/
def PastInv (u : Tid) (H : List (Ev K V)) (s : St K V) : Prop :=
  past2 (s.l u).pc = true → WasCur H s (s.l u).tbl

theorem pastinv_step (p : Params K) (u : Tid) (H : List (Ev K V)) (s : St K V) (x : Tid)
    (c : Choice K V) (s' : St K V) (hJ : PastInv u H s) (hs : step p s x c = some s') :
    PastInv u (H ++ [⟨s, x, c, s'⟩]) s' := by
  obtain ⟨hts, hoth⟩ := step_def p s s' x c hs
  intro hp
  by_cases hx : u = x
  · subst hx
    obtain ⟨e1, -, -, e4, hcase⟩ := past2_step p u s.g (s.l u) c _ _ hts hp
    rcases hcase with ⟨h2, -⟩ | ⟨-, hc⟩
    · rw [e1]; exact wasCur_mono H s s' _ _ rfl (hJ h2)
    · exact Or.inl (by rw [e1, e4, hc])
  · rw [hoth u hx] at hp ⊢
    exact wasCur_mono H s s' _ _ rfl (hJ hp)

/-- **(2a, history form) `retired_only_by_clear`**: in every reachable state, a writer `u` of key `k` that is past
both its checks on a table generation that is no longer current was overtaken by the publish step of a `Clear`
(never of a grow/shrink): that step `e` is in the history, `u` was already past its checks on the then current
table, and the binding of `k` in the retired table is still the abstract binding right before that `Clear` -/
theorem retired_only_by_clear (p : Params K) (hmin : 0 < p.minLen) (sched : List (Tid × Choice K V)) (s : St K V)
    (hr : run p (init p) sched = some s) (u : Tid) (k : K) (f : Option V → V × Bool) (lie co : Bool)
    (hop : (s.l u).op = some (.dc k f lie co)) (hpc : past2 (s.l u).pc = true) (hne : (s.l u).tbl ≠ s.g.cur) :
    ∃ e ∈ events p (init p) sched, HelpAt e u k f lie co ∧ e.pre.g.cur = (s.l u).tbl ∧
      (s.g.tables (s.l u).tbl).data.get k = absGet e.pre.g k := by
  have := hist_run p (fun H s => TabInv k H s ∧ PastInv u H s) ?_ sched (init p) s [] ⟨[], rfl⟩
    ⟨tabinv_nil k _, fun h => by simp [init, L.init, past2] at h⟩ hr
  · simp only [List.nil_append] at this
    obtain ⟨hT, hP⟩ := this
    have hw : WasCurH (events p (init p) sched) (s.l u).tbl := by
      rcases hP hpc with h | h
      · exact absurd h hne
      · exact h
    obtain ⟨e, he, f', lie', co', hh, hc, hop', hd⟩ := hT.r2 _ hne hw u hpc rfl (by simp [opKey, hop])
    rw [hop] at hop'; cases hop'
    exact ⟨e, he, hh, hc, hd⟩
  · intro H s x c s2 hr hJ hs
    exact ⟨tabinv_step p hmin k H s x c s2 hr hJ.1 hs, pastinv_step p u H s x c s2 hJ.2 hs⟩

/-- how a `doCompute` call gets to the pcs after its linearization point (or to its return) -/
theorem popCont_fixed_entry (l : L K V) (hw : WF l) (h : inRz l.pc = true ∨ inWf l.pc = true)
    (hf : fixedPc (popCont l) ∨ (popCont l).pc = .ret) (hdc : isDcOp (popCont l).op = true) :
    .dcDone ∈ l.conts := by
  have hcl := hw.cl
  rcases popCont_cases l hw h with ⟨e, hc⟩ | ⟨e, hc⟩ | ⟨e, hc⟩ | ⟨c, e, hc, hne⟩
  · rw [e] at hf; simp [fixedPc] at hf
  · exact hc
  · rw [e] at hdc; simp only at hdc; rw [hcl hc] at hdc; cases hdc
  · rw [e] at hf; simp [fixedPc] at hf; rw [hc, ← hf]; simp

theorem startOp_not_fixed (l : L K V) (op : POp K V) (hc : l.conts = []) :
    ¬ fixedPc (startOp l op) ∧ (startOp l op).pc ≠ .ret := by
  rcases op with _ | ⟨_, _, _ | _, _⟩ | _ | _ | _ <;> simp [startOp, fixedPc, hc]

theorem fixed_entry (p : Params K) (t : Tid) (g : G K V) (l : L K V) (c : Choice K V) (g' : G K V) (l' : L K V)
    (hw : WF l) (hs : tstep p t g l c = some (g', l')) (hf : fixedPc l' ∨ l'.pc = .ret)
    (hdc : isDcOp l'.op = true) :
    fixedPc l ∨ l.pc = .dcCommit ∨ (l.pc = .dcScan ∧ l'.pc = .dcUnlock) ∨ (l.pc = .ldRead ∧ l'.pc = .ret) := by
  have hc := hw.cshape
  have hpop := popCont_fixed_entry l hw
  have hnd := hw.nodc
  have hS := fun l op => (startOp_not_fixed (K := K) (V := V) l op)
  cases hpc : l.pc <;> simp only [tstep, hpc] at hs <;> (repeat' split at hs) <;>
    simp only [Option.some.injEq, reduceCtorEq, Prod.mk.injEq] at hs <;> obtain ⟨-, rfl⟩ := hs <;>
    simp_all [contsOK, inRz, inWf, nonDcPc, callResize, callWait] <;>
    simp_all [fixedPc]

/-- `op` changes only when a call starts or returns -/
theorem op_step (p : Params K) (t : Tid) (g : G K V) (l : L K V) (c : Choice K V) (g' : G K V) (l' : L K V)
    (hs : tstep p t g l c = some (g', l')) : l'.op = l.op ∨ l.pc = .idle ∨ l.pc = .rgVisit ∨ l.pc = .ret := by
  have hP := popCont_op l
  cases hpc : l.pc <;> simp only [tstep, hpc] at hs <;> (repeat' split at hs) <;>
    simp only [Option.some.injEq, reduceCtorEq, Prod.mk.injEq] at hs <;> obtain ⟨-, rfl⟩ := hs <;>
    simp_all [callResize, callWait]

/-- **the linearization point of a writer call** `doCompute k f lie co` of thread `t` that returns `(a, b)`, among the
recorded steps `H`:
* its own step under the bucket lock on the then current table — the commit, or the `loadIfExists` hit of the scan —
  taken from a state with abstract binding `v` of `k`, with `(a, b)` the value/flag of `specDc f lie co v`; or
* the publish step of a `Clear` by another thread, taken while `t` was past its checks on the then current table
  (`HelpAt`), with `(a, b)` the value/flag of `specDc f lie co v` for the abstract binding `v` right before the
  `Clear`: `t` is linearized immediately before the `Clear` (its later commit goes to the retired table); or
* (`loadIfExists` calls only) the lock-free fast path hit on a binding `some x` that is a legal answer of a lookup
  (`Wit`): the call is a pure lookup, `specDc f true co (some x) = (some x, some x, !co)` -/
def LinW (H : List (Ev K V)) (s : St K V) (t : Tid) (k : K) (f : Option V → V × Bool) (lie co : Bool)
    (a : Option V) (b : Bool) : Prop :=
  (∃ e ∈ H, e.tid = t ∧ ((e.pre.l t).pc = .dcCommit ∨ (e.pre.l t).pc = .dcScan) ∧ (e.post.l t).pc = .dcUnlock ∧
      (e.pre.l t).tbl = e.pre.g.cur ∧ (e.pre.l t).op = some (.dc k f lie co) ∧
      a = (specDc f lie co (absGet e.pre.g k)).2.1 ∧ b = (specDc f lie co (absGet e.pre.g k)).2.2) ∨
  (∃ e ∈ H, HelpAt e t k f lie co ∧
      a = (specDc f lie co (absGet e.pre.g k)).2.1 ∧ b = (specDc f lie co (absGet e.pre.g k)).2.2) ∨
  (lie = true ∧ ∃ x, a = some x ∧ b = (!co) ∧ Wit H s k (some x))

theorem linw_mono (H : List (Ev K V)) (s s' : St K V) (t : Tid) (k : K) (f : Option V → V × Bool) (lie co : Bool)
    (a : Option V) (b : Bool) (ev : Ev K V) (hpre : ev.pre = s) (h : LinW H s t k f lie co a b) :
    LinW (H ++ [ev]) s' t k f lie co a b := by
  rcases h with ⟨e, he, h⟩ | ⟨e, he, h⟩ | ⟨hl, x, ha, hb, hw⟩
  · exact Or.inl ⟨e, List.mem_append_left _ he, h⟩
  · exact Or.inr (Or.inl ⟨e, List.mem_append_left _ he, h⟩)
  · exact Or.inr (Or.inr ⟨hl, x, ha, hb, wit_mono H s s' k _ ev hpre hw⟩)

/-- the history invariant of a writer `t` on key `k` -/
structure WrInv (k : K) (t : Tid) (H : List (Ev K V)) (s : St K V) : Prop where
  rd : (s.l t).pc = .ldRead → WasCur H s (s.l t).tbl
  pst : PastInv t H s
  fx : (fixedPc (s.l t) ∨ (s.l t).pc = .ret) → ∀ f lie co, (s.l t).op = some (.dc k f lie co) →
    ∀ a b, (s.l t).result = some (.val a b) → LinW H s t k f lie co a b

theorem wrinv_step (p : Params K) (hmin : 0 < p.minLen) (k : K) (t : Tid) (H : List (Ev K V)) (s : St K V) (x : Tid)
    (c : Choice K V) (s' : St K V) (hreach : Reach p s) (hT : TabInv k H s) (hJ : WrInv k t H s)
    (hs : step p s x c = some s') : WrInv k t (H ++ [⟨s, x, c, s'⟩]) s' := by
  obtain ⟨hts, hoth⟩ := step_def p s s' x c hs
  refine ⟨?_, pastinv_step p t H s x c s' hJ.pst hs, ?_⟩
  · intro hpc
    by_cases hx : t = x
    · subst hx
      obtain ⟨e1, e2⟩ := read_entry p t s.g (s.l t) c _ _ hts hpc
      exact Or.inl (by rw [e1, e2])
    · rw [hoth t hx] at hpc ⊢; exact wasCur_mono H s s' _ _ rfl (hJ.rd hpc)
  · intro hf f lie co hop a b hres
    by_cases hx : t = x
    · subst hx
      have hw := ((inv_reach p s hreach).2 t).wf
      have hmem : (⟨s, t, c, s'⟩ : Ev K V) ∈ H ++ [(⟨s, t, c, s'⟩ : Ev K V)] := by simp
      rcases fixed_entry p t s.g (s.l t) c _ _ hw hts hf (by rw [hop]; rfl) with h | h | ⟨h, h'⟩ | ⟨h, h'⟩
      · -- already fixed
        obtain ⟨e1, e2, -⟩ := fixed_step p t s.g (s.l t) c _ _ hw h hts
        exact linw_mono H s s' t k f lie co a b _ rfl
          (hJ.fx (Or.inl h) f lie co (by rw [← e2]; exact hop) a b (by rw [← e1]; exact hres))
      · -- the commit
        have hop0 : (s.l t).op = some (.dc k f lie co) := by
          rcases op_step p t s.g (s.l t) c _ _ hts with e | e | e | e
          · rw [← e]; exact hop
          all_goals (rw [h] at e; cases e)
        obtain ⟨f1, f2, f3⟩ := commit_facts p hmin s hreach t k f lie co hop0 h
        obtain ⟨-, e2, e3, -⟩ := commit_step_spec p t s.g (s.l t) c _ _ k f lie co hop0 h f1 f2 f3 hts
        rw [e2] at hres
        simp only [Option.some.injEq, Ret.val.injEq] at hres
        by_cases htbl : (s.l t).tbl = s.g.cur
        · have hab : absGet s.g k = (s.l t).old := by rw [f2, htbl]; rfl
          refine Or.inl ⟨_, hmem, rfl, Or.inl h, e3, htbl, hop0, ?_, ?_⟩
          · dsimp only; rw [hab]; exact hres.1.symm
          · dsimp only; rw [hab]; exact hres.2.symm
        · have hwc : WasCurH H (s.l t).tbl := by
            rcases hJ.pst (by rw [h]; rfl) with e | e
            · exact absurd e htbl
            · exact e
          obtain ⟨e, he, f', lie', co', hh, -, hop', hd⟩ :=
            hT.r2 _ htbl hwc t (by rw [h]; rfl) rfl (by simp [opKey, hop0])
          rw [hop0] at hop'; cases hop'
          refine Or.inr (Or.inl ⟨e, List.mem_append_left _ he, hh, ?_, ?_⟩)
          · rw [← hd, ← f2]; exact hres.1.symm
          · rw [← hd, ← f2]; exact hres.2.symm
      · -- the `loadIfExists` hit under the lock
        have hop0 : (s.l t).op = some (.dc k f lie co) := by
          rcases op_step p t s.g (s.l t) c _ _ hts with e | e | e | e
          · rw [← e]; exact hop
          all_goals (rw [h] at e; cases e)
        obtain ⟨-, -, -, -, hcase⟩ := scan_step p t s.g (s.l t) c _ _ k f lie co hop0 h hts
        rcases hcase with ⟨-, hl, y, hy, hr⟩ | ⟨e, -⟩ | ⟨e, -⟩
        · subst hl
          rw [hr] at hres
          simp only [Option.some.injEq, Ret.val.injEq] at hres
          by_cases htbl : (s.l t).tbl = s.g.cur
          · have hab : absGet s.g k = some y := by unfold absGet; rw [← htbl]; exact hy
            refine Or.inl ⟨_, hmem, rfl, Or.inr h, h', htbl, hop0, ?_, ?_⟩
            · dsimp only; rw [hab]; simp [specDc, hres.1]
            · dsimp only; rw [hab]; simp [specDc, hres.2]
          · have hwc : WasCurH H (s.l t).tbl := by
              rcases hJ.pst (by rw [h]; rfl) with e | e
              · exact absurd e htbl
              · exact e
            obtain ⟨e, he, f', lie', co', hh, -, hop', hd⟩ :=
              hT.r2 _ htbl hwc t (by rw [h]; rfl) rfl (by simp [opKey, hop0])
            rw [hop0] at hop'; cases hop'
            refine Or.inr (Or.inl ⟨e, List.mem_append_left _ he, hh, ?_, ?_⟩)
            · rw [← hd, hy]; simp [specDc, hres.1]
            · rw [← hd, hy]; simp [specDc, hres.2]
        · rw [h'] at e; cases e
        · rw [h'] at e; cases e
      · -- the lock-free fast path
        have hop0 : (s.l t).op = some (.dc k f lie co) := by
          rcases op_step p t s.g (s.l t) c _ _ hts with e | e | e | e
          · rw [← e]; exact hop
          all_goals (rw [h] at e; cases e)
        have hl : lie = true := by
          have := (hw.ldpre h (by rw [hop0]; rfl)).2
          simpa [dcFlags, hop0] using this
        have hwit := read_wit k H s hT _ (hJ.rd h)
        obtain ⟨-, -, hcase⟩ := read_step p t s.g (s.l t) c _ _ k (by simp [opKey, hop0]) h hts
        rcases hcase with ⟨e, -⟩ | ⟨k0, f0, lie0, co0, y, e, hy, -, hr⟩ | ⟨-, -, e, -⟩
        · rw [hop0] at e; cases e
        · rw [hop0] at e; cases e
          rw [hr] at hres
          simp only [Option.some.injEq, Ret.val.injEq] at hres
          rw [hy] at hwit
          exact Or.inr (Or.inr ⟨hl, y, hres.1.symm, hres.2.symm, wit_mono H s s' k _ _ rfl hwit⟩)
        · rw [h'] at e; cases e
    · have hl := hoth t hx
      rw [hl] at hf hop hres
      exact linw_mono H s s' t k f lie co a b _ rfl (hJ.fx hf f lie co hop a b hres)

/-- the history invariants of a writer along a run that starts when the thread is at the beginning of a call -/
theorem wr_run (p : Params K) (hmin : 0 < p.minLen) (k : K) (t : Tid) (mid : List (Tid × Choice K V))
    (s0 s' : St K V) (hreach : Reach p s0) (h1 : run p s0 mid = some s')
    (hstart : (s0.l t).pc = .dcFast ∨ (s0.l t).pc = .dcLoadTable) :
    TabInv k (events p s0 mid) s' ∧ WrInv k t (events p s0 mid) s' := by
  have hc := ((inv_reach p s0 hreach).2 t).wf.cshape
  have hconts : (s0.l t).conts = [] := by
    rcases hstart with e | e <;> exact hc.1 (by rw [e]; rfl) (by rw [e]; rfl)
  have h0 : WrInv k t [] s0 := by
    refine ⟨fun h => ?_, fun h => ?_, fun h => ?_⟩
    · rcases hstart with e | e <;> rw [e] at h <;> cases h
    · rcases hstart with e | e <;> rw [e] at h <;> cases h
    · exfalso
      rcases hstart with e | e <;> simp [fixedPc, e, hconts] at h
  have := hist_run p (fun H s => TabInv k H s ∧ WrInv k t H s) ?_ mid s0 s' [] hreach ⟨tabinv_nil k s0, h0⟩ h1
  · simpa using this
  · intro H s x c s2 hr hJ hs
    exact ⟨tabinv_step p hmin k H s x c s2 hr hJ.1 hs, wrinv_step p hmin k t H s x c s2 hr hJ.1 hJ.2 hs⟩

/-- **Level 4: every completed writer call is linearizable at a step inside the call.**  Let thread `t` be at the
first pc of a `doCompute` call at the end of `pre`, and about to return `(a, b)` from `doCompute k f lie co` at the end
of `pre ++ mid`.  Then one of the steps `e` taken during `mid` is its linearization point:
1. *own step, table current*: `e` is `t`'s commit — or the hit of `loadIfExists` in the scan under the lock — on the
   table that is current at that instant; the abstract binding of `k` goes from `v := absGet e.pre.g k` to
   `(specDc f lie co v).1`, no other key changes, and `(a, b)` is the value/flag of `specDc f lie co v`;
2. *helped*: `e` is the publish step of a `Clear` by another thread, taken while `t` was past both its checks on the
   then current table; after `e` the abstract content is empty; `(a, b)` is the value/flag of `specDc f lie co v` for
   `v := absGet e.pre.g k`: `t` is linearized immediately before the `Clear` (its own commit comes later and goes to
   the retired table: `commit_on_retired_invisible`);
3. *lock-free fast path* (`loadIfExists` calls only): the call is a pure lookup returning `(some x, !co)` — what
   `specDc f true co (some x)` returns, without changing the binding — where `some x` is a legal answer of a lookup
   in the sense of `load_hindsight`. -/
theorem writer_linearizable (p : Params K) (hmin : 0 < p.minLen) (pre mid : List (Tid × Choice K V)) (s0 s' : St K V)
    (h0 : run p (init p) pre = some s0) (h1 : run p s0 mid = some s') (t : Tid)
    (k : K) (f : Option V → V × Bool) (lie co : Bool) (a : Option V) (b : Bool)
    (hstart : (s0.l t).pc = .dcFast ∨ (s0.l t).pc = .dcLoadTable)
    (hop : (s'.l t).op = some (.dc k f lie co)) (hret : (s'.l t).pc = .ret)
    (hres : (s'.l t).result = some (.val a b)) :
    (∃ e ∈ events p s0 mid, e.tid = t ∧ ((e.pre.l t).pc = .dcCommit ∨ (e.pre.l t).pc = .dcScan) ∧
        (e.pre.l t).tbl = e.pre.g.cur ∧ (e.pre.l t).op = some (.dc k f lie co) ∧
        absGet e.post.g k = (specDc f lie co (absGet e.pre.g k)).1 ∧
        (∀ k', k' ≠ k → absGet e.post.g k' = absGet e.pre.g k') ∧
        a = (specDc f lie co (absGet e.pre.g k)).2.1 ∧ b = (specDc f lie co (absGet e.pre.g k)).2.2) ∨
    (∃ e ∈ events p s0 mid, e.tid ≠ t ∧ HelpAt e t k f lie co ∧ (∀ k', absGet e.post.g k' = none) ∧
        a = (specDc f lie co (absGet e.pre.g k)).2.1 ∧ b = (specDc f lie co (absGet e.pre.g k)).2.2) ∨
    (lie = true ∧ ∃ x, a = some x ∧ b = (!co) ∧
      ((∃ st ∈ trace p s0 mid, absGet st.g k = some x) ∨
       (∃ e ∈ events p s0 mid, ∃ u f' lie' co', HelpAt e u k f' lie' co' ∧
          some x = (specDc f' lie' co' (absGet e.pre.g k)).1))) := by
  have hreach : Reach p s0 := ⟨pre, h0⟩
  obtain ⟨-, hW⟩ := wr_run p hmin k t mid s0 s' hreach h1 hstart
  have hsound := events_sound p mid s0 hreach
  rcases hW.fx (Or.inr hret) f lie co hop a b hres with
    ⟨e, he, htid, hpc, hpost, htbl, hope, ha, hb⟩ | ⟨e, he, hh, ha, hb⟩ | ⟨hl, x, ha, hb, hw⟩
  · left
    obtain ⟨hr, hst⟩ := hsound e he
    rw [htid] at hst
    obtain ⟨hts, -⟩ := step_def p e.pre e.post t e.ch hst
    refine ⟨e, he, htid, hpc, htbl, hope, ?_, ?_, ha, hb⟩
    · rcases hpc with hpc | hpc
      · exact (commit_is_spec_step p hmin e.pre hr t k f lie co hope hpc htbl e.ch _ _ hts).1
      · exact (scan_hit_is_spec_step p e.pre t k f lie co hope hpc htbl e.ch _ _ hts hpost).2.2.1
    · rcases hpc with hpc | hpc
      · exact (commit_is_spec_step p hmin e.pre hr t k f lie co hope hpc htbl e.ch _ _ hts).2.2
      · have := (scan_hit_is_spec_step p e.pre t k f lie co hope hpc htbl e.ch _ _ hts hpost).2.1
        intro k' _; rw [this]
  · right; left
    obtain ⟨hr, hst⟩ := hsound e he
    obtain ⟨hts, -⟩ := step_def p e.pre e.post e.tid e.ch hst
    have hh0 := hh
    obtain ⟨hpc, hhint, hp2, -, -⟩ := hh0
    have hne : e.tid ≠ t := by
      intro e'; rw [e'] at hpc; rw [hpc] at hp2; cases hp2
    exact ⟨e, he, hne, hh, clear_publish_empties p hmin e.pre hr e.tid e.ch _ _ hpc hhint hts, ha, hb⟩
  · right; right
    exact ⟨hl, x, ha, hb, wit_run p mid s0 s' h1 k _ hw⟩

/-! ## part: the `Size()` call is exact when it does not overlap a modifying call -/

/-- **`Size()` is exact when no modifying call overlaps it.**  Thread `t` is at the first pc of `Size` in the reachable
state `s0`; no writer is between its commit and its counter update on the current table in `s0` (`hq`); during `mid`
thread `t` does not return (`NoRet`: it is still the same call at the end) and every step of another thread is taken
at a read-only pc (`roPc`: starting a call, `Load`, the lock-free fast path, `Size`, returning).  If `t` is about to
return at the end of `mid`, the value it returns — the stripes summed one atomic load at a time — is the number of
entries of the table.  (`hst`: every table has at least one counter stripe.) -/
theorem size_call_exact (p : Params K) (hmin : 0 < p.minLen) (hst : ∀ n, 0 < p.stripes n) (s0 s' : St K V)
    (h : Reach p s0) (t : Tid) (hpc : (s0.l t).pc = .szTable)
    (hq : ∀ u, pendingOn (s0.l u) s0.g.cur = false)
    (mid : List (Tid × Choice K V)) (hr : run p s0 mid = some s')
    (hn : NoRet t (events p s0 mid))
    (hro : ∀ e ∈ events p s0 mid, e.tid ≠ t → roPc (e.pre.l e.tid).pc = true)
    (hret : (s'.l t).pc = .ret) :
    (s'.l t).result = some (.size ((s0.g.tables s0.g.cur).data.length)) := by
  have key := hist_run p
    (fun H x => NoRet t H → (∀ e ∈ H, e.tid ≠ t → roPc (e.pre.l e.tid).pc = true) →
      x.g = s0.g ∧ SzL s0.g.cur (s0.g.tables s0.g.cur).ctr (p.stripes (s0.g.tables s0.g.cur).len) (x.l t))
    ?_ mid s0 s' [] h (fun _ _ => ⟨rfl, Or.inl hpc⟩) hr
  · obtain ⟨-, hL⟩ := key (by simpa using hn) (by simpa using hro)
    rcases hL with e | ⟨e, -⟩ | ⟨-, e⟩
    · rw [hret] at e; cases e
    · rw [hret] at e; cases e
    · rw [e, ← total_eq, total_exact_no_pending p hmin hst s0 h hq]
  · intro H x u c x' hx hJ hs hnr hro'
    have hnH : NoRet t H := fun e he => hnr e (List.mem_append_left _ he)
    obtain ⟨hg, hL⟩ := hJ hnH (fun e he => hro' e (List.mem_append_left _ he))
    obtain ⟨hts, hoth⟩ := step_def p x x' u c hs
    by_cases hu : u = t
    · subst hu
      have hpcr : (x.l u).pc ≠ .ret := hnr ⟨x, u, c, x'⟩ (by simp) rfl
      obtain ⟨e1, e2⟩ := szL_step p u x.g (x.l u) c x'.g (x'.l u) _ _ _ (hst _) (by rw [hg]) (by rw [hg]) (by rw [hg])
        hL hpcr hts
      exact ⟨by rw [e1, hg], e2⟩
    · have hro1 := hro' ⟨x, u, c, x'⟩ (by simp) hu
      have e1 := ro_step_g p u x.g (x.l u) c x'.g (x'.l u) hro1 hts
      rw [hoth t (Ne.symm hu)]; exact ⟨by rw [e1, hg], hL⟩

/-- the same, with the hypothesis on the start state spelled out by pcs: every other thread is at a read-only pc
(idle, in a `Load`/`Size`, returning), hence has no pending counter delta -/
theorem size_call_exact_ro (p : Params K) (hmin : 0 < p.minLen) (hst : ∀ n, 0 < p.stripes n) (s0 s' : St K V)
    (h : Reach p s0) (t : Tid) (hpc : (s0.l t).pc = .szTable)
    (hq : ∀ u, u ≠ t → roPc (s0.l u).pc = true)
    (mid : List (Tid × Choice K V)) (hr : run p s0 mid = some s')
    (hn : NoRet t (events p s0 mid))
    (hro : ∀ e ∈ events p s0 mid, e.tid ≠ t → roPc (e.pre.l e.tid).pc = true)
    (hret : (s'.l t).pc = .ret) :
    (s'.l t).result = some (.size ((s0.g.tables s0.g.cur).data.length)) := by
  refine size_call_exact p hmin hst s0 s' h t hpc (fun u => ?_) mid hr hn hro hret
  by_cases hu : u = t
  · subst hu; exact ro_not_pending _ _ (by rw [hpc]; rfl)
  · exact ro_not_pending _ _ (hq u hu)

end Proofs.ProtoLin
