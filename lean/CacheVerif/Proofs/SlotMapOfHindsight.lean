import CacheVerif.Model.SlotMapOf
import CacheVerif.Proofs.SlotMapOfInv
/-!
# M4b (MapOf): the lock-free `Load` is linearizable against the chain's logical content (hindsight), and a
solo reader terminates within a bound
-/
set_option linter.unusedSectionVars false
namespace Proofs.SlotMapOfHindsight
open Model.SlotMapOf Proofs.SlotMapOfBasic Proofs.SlotMapOfInv

variable {K V : Type} [DecidableEq K] (h2 : K → Nat)

/-- run the reader alone (the writer does not move) for `n` steps -/
def soloReader (g : G K V) (l : RL K V) : Nat → RL K V
  | 0 => l
  | n + 1 => soloReader g (rstep h2 g l) n

/-! ## the per-reader invariant

`Seen o` stands for "the logical content of the reader's key was `o` at some instant since the lookup started". -/

/-- the scan has not yet gone past slot `(b0, i0)` -/
def notPassed : RPc → Nat → Nat → Prop
  | .rdMeta b, b0, _ => b ≤ b0
  | .rdEntry b cands, b0, i0 => b < b0 ∨ (b = b0 ∧ i0 ∈ cands)
  | .rdNext b, b0, _ => b < b0
  | .done, _, _ => False

structure RI (Seen : Option V → Prop) (g : G K V) (l : RL K V) : Prop where
  /-- a returned result was the logical content at some instant since the start -/
  dn : l.pc = .done → Seen l.result
  /-- any entry for the key sitting in a candidate slot is a value the key logically had since the start -/
  cand : ∀ b cands, l.pc = .rdEntry b cands → ∀ i ∈ cands, ∀ p v,
    getEntry g b i = some p → g.heap p = some (l.key, v) → Seen (some v)
  /-- the key was logically absent at some instant since the start, or it is (and has continuously been) held by a
  slot the scan has not passed yet -/
  pres : l.pc ≠ .done → Seen none ∨ ∃ b0 i0 v, slotHolds h2 g b0 i0 l.key = some v ∧ notPassed l.pc b0 i0

theorem RI_mono (Seen Seen' : Option V → Prop) (g : G K V) (l : RL K V) (hmono : ∀ o, Seen o → Seen' o)
    (ri : RI h2 Seen g l) : RI h2 Seen' g l :=
  ⟨fun h => hmono _ (ri.dn h), fun b c hpc i hi p v he hh => hmono _ (ri.cand b c hpc i hi p v he hh),
   fun h => (ri.pres h).imp (hmono _) id⟩

theorem RI_wstep (Seen Seen' : Option V → Prop) (g g' : G K V) (l : RL K V) (hI : Inv h2 g) (ws : WStep K V)
    (hw : wstep h2 g ws = some g') (hmono : ∀ o, Seen o → Seen' o) (hcur : Seen' (content h2 g' l.key))
    (ri : RI h2 Seen g l) : RI h2 Seen' g' l := by
  have hI' := inv_wstep h2 g g' hI ws hw
  refine ⟨fun h => hmono _ (ri.dn h), ?_, ?_⟩
  · intro b cands hpc i hi p v he hh
    rcases entry_new h2 g g' hI ws hw b i p l.key v he hh with ⟨he0, hh0⟩ | hold
    · exact hmono _ (ri.cand b cands hpc i hi p v he0 hh0)
    · rw [← content_some_of_holds h2 g' hI' b i l.key v hold]; exact hcur
  · intro hnd
    rcases ri.pres hnd with hs | ⟨b0, i0, v, hold, hnp⟩
    · exact Or.inl (hmono _ hs)
    · rcases holds_or_none h2 g g' hI ws hw b0 i0 l.key v hold with ⟨v', h'⟩ | hnone
      · exact Or.inr ⟨b0, i0, v', h', hnp⟩
      · exact Or.inl (hnone ▸ hcur)

theorem rstep_key (g : G K V) (l : RL K V) : (rstep h2 g l).key = l.key := by
  unfold rstep
  split
  · rfl
  · rfl
  · split
    · split
      · split <;> rfl
      · rfl
    · rfl
  · split <;> rfl
  · rfl

theorem RI_rstep (Seen : Option V → Prop) (g : G K V) (l : RL K V) (hI : Inv h2 g)
    (hcur : Seen (content h2 g l.key)) (ri : RI h2 Seen g l) : RI h2 Seen g (rstep h2 g l) := by
  obtain ⟨key, pc, result⟩ := l
  cases pc with
  | rdMeta b =>
    show RI h2 Seen g { key := key, pc := .rdEntry b (candidates (g.buckets.getD b Bucket.empty) (h2 key)), result := result }
    refine ⟨fun h => (nomatch h), ?_, ?_⟩
    · intro b' cands' hpc i hi p v he hh
      cases hpc
      obtain ⟨_, hm⟩ := (mem_candidates g b i (h2 key)).mp hi
      have hold := holds_of_entry h2 g hI b i _ p key v hm he hh
      rw [← content_some_of_holds h2 g hI b i key v hold]; exact hcur
    · intro _
      rcases ri.pres (by intro h; cases h) with hs | ⟨b0, i0, v, hold, hnp⟩
      · exact Or.inl hs
      · refine Or.inr ⟨b0, i0, v, hold, ?_⟩
        have hnp : b ≤ b0 := hnp
        show b < b0 ∨ (b = b0 ∧ i0 ∈ _)
        by_cases hlt : b < b0
        · exact Or.inl hlt
        · have hb : b = b0 := by omega
          subst hb
          obtain ⟨p, hm, _, _⟩ := (slotHolds_some_iff h2 g b i0 key v).mp hold
          exact Or.inr ⟨rfl, (mem_candidates g b i0 (h2 key)).mpr ⟨getMeta_lt_S g hI.sizes b i0 _ hm, hm⟩⟩
  | rdEntry b cands =>
    cases cands with
    | nil =>
      show RI h2 Seen g { key := key, pc := .rdNext b, result := result }
      refine ⟨fun h => (nomatch h), fun _ _ h => (nomatch h), ?_⟩
      intro _
      rcases ri.pres (by intro h; cases h) with hs | ⟨b0, i0, v, hold, hnp⟩
      · exact Or.inl hs
      · refine Or.inr ⟨b0, i0, v, hold, ?_⟩
        have hnp : b < b0 ∨ (b = b0 ∧ i0 ∈ []) := hnp
        rcases hnp with h | ⟨_, h⟩
        · exact h
        · cases h
    | cons i rest =>
      -- the entry read either is an entry for the key (return), or the slot is skipped
      have hskip : (∀ p v, getEntry g b i = some p → g.heap p = some (key, v) → False) →
          RI h2 Seen g { key := key, pc := .rdEntry b rest, result := result } := by
        intro hno
        refine ⟨fun h => (nomatch h), ?_, ?_⟩
        · intro b' c' hpc i' hi' p v he hh
          cases hpc
          exact ri.cand b (i :: rest) rfl i' (List.mem_cons_of_mem _ hi') p v he hh
        · intro _
          rcases ri.pres (by intro h; cases h) with hs | ⟨b0, i0, v, hold, hnp⟩
          · exact Or.inl hs
          · refine Or.inr ⟨b0, i0, v, hold, ?_⟩
            have hnp : b < b0 ∨ (b = b0 ∧ i0 ∈ i :: rest) := hnp
            show b < b0 ∨ (b = b0 ∧ i0 ∈ rest)
            rcases hnp with h | ⟨hb, hmem⟩
            · exact Or.inl h
            · rcases List.mem_cons.mp hmem with hi0 | hmem'
              · subst hb; subst hi0
                obtain ⟨p, _, he, hh⟩ := (slotHolds_some_iff h2 g b i0 key v).mp hold
                exact absurd (hno p v he hh) id
              · exact Or.inr ⟨hb, hmem'⟩
      have hdone : ∀ p v, getEntry g b i = some p → g.heap p = some (key, v) →
          RI h2 Seen g { key := key, pc := .done, result := some v } := by
        intro p v he hh
        refine ⟨fun _ => ?_, fun _ _ h => (nomatch h), fun h => absurd rfl h⟩
        exact ri.cand b (i :: rest) rfl i (List.mem_cons_self) p v he hh
      unfold rstep
      dsimp only
      split
      · next p he =>
        split
        · next k' v hh =>
          split
          · next hk => subst hk; exact hdone p v he hh
          · next hk =>
            refine hskip ?_
            intro p' v' he' hh'
            rw [he] at he'; cases he'
            rw [hh] at hh'; cases hh'
            exact hk rfl
        · next hh =>
          refine hskip ?_
          intro p' v' he' hh'
          rw [he] at he'; cases he'
          rw [hh] at hh'; cases hh'
      · next he =>
        refine hskip ?_
        intro p' v' he' _
        rw [he] at he'; cases he'
  | rdNext b =>
    unfold rstep
    dsimp only
    split
    · next hlt =>
      refine ⟨fun h => (nomatch h), fun _ _ h => (nomatch h), ?_⟩
      intro _
      rcases ri.pres (by intro h; cases h) with hs | ⟨b0, i0, v, hold, hnp⟩
      · exact Or.inl hs
      · refine Or.inr ⟨b0, i0, v, hold, ?_⟩
        have hnp : b < b0 := hnp
        show b + 1 ≤ b0
        omega
    · next hge =>
      refine ⟨fun _ => ?_, fun _ _ h => (nomatch h), fun h => absurd rfl h⟩
      rcases ri.pres (by intro h; cases h) with hs | ⟨b0, i0, v, hold, hnp⟩
      · exact hs
      · have hnp : b < b0 := hnp
        obtain ⟨p, hm, _, _⟩ := (slotHolds_some_iff h2 g b0 i0 key v).mp hold
        have := getMeta_lt_len g b0 i0 _ hm
        omega
  | done => exact ri

/-! ## runs -/

theorem run_append (s : St K V) (as bs : List (Act K V)) :
    run h2 s (as ++ bs) = (run h2 s as).bind fun s' => run h2 s' bs := by
  induction as generalizing s with
  | nil => rfl
  | cons a as ih =>
    simp only [List.cons_append, run]
    split
    · exact ih _
    · rfl

theorem inv_step (s s' : St K V) (a : Act K V) (hI : Inv h2 s.g) (h : step h2 s a = some s') : Inv h2 s'.g := by
  cases a with
  | w ws =>
    simp only [step, Option.map_eq_some_iff] at h
    obtain ⟨g', hw, rfl⟩ := h
    exact inv_wstep h2 s.g g' hI ws hw
  | r t => simp only [step, Option.some.injEq] at h; subst h; exact hI
  | start t k => simp only [step, Option.some.injEq] at h; subst h; exact hI

theorem inv_run (as : List (Act K V)) : ∀ (s s' : St K V), Inv h2 s.g → run h2 s as = some s' → Inv h2 s'.g := by
  induction as with
  | nil => intro s s' hI h; simp only [run, Option.some.injEq] at h; subst h; exact hI
  | cons a as ih =>
    intro s s' hI h
    simp only [run] at h
    split at h
    · next s1 hs => exact ih s1 s' (inv_step h2 s s1 a hI hs) h
    · cases h

/-- one global step preserves the reader invariant of thread `t` (which does not restart), with the current
content added to `Seen` -/
theorem RI_step (t : Tid) (k : K) (Seen : Option V → Prop) (s s1 : St K V) (a : Act K V)
    (hns : ∀ k', a ≠ Act.start t k') (hI : Inv h2 s.g) (hk : (s.r t).key = k)
    (hcur : Seen (content h2 s.g k)) (ri : RI h2 Seen s.g (s.r t)) (hs : step h2 s a = some s1) :
    (s1.r t).key = k ∧ RI h2 (fun o => Seen o ∨ o = content h2 s1.g k) s1.g (s1.r t) := by
  cases a with
  | w ws =>
    simp only [step, Option.map_eq_some_iff] at hs
    obtain ⟨g', hw, rfl⟩ := hs
    refine ⟨hk, ?_⟩
    exact RI_wstep h2 Seen _ s.g g' (s.r t) hI ws hw (fun _ => Or.inl) (Or.inr (by rw [hk])) ri
  | r u =>
    simp only [step, Option.some.injEq] at hs
    subst hs
    by_cases hu : t = u
    · subst hu
      simp only [if_true]
      refine ⟨by rw [rstep_key, hk], ?_⟩
      exact RI_mono h2 Seen _ s.g _ (fun _ => Or.inl) (RI_rstep h2 Seen s.g (s.r t) hI (by rw [hk]; exact hcur) ri)
    · simp only [if_neg hu]
      exact ⟨hk, RI_mono h2 Seen _ s.g _ (fun _ => Or.inl) ri⟩
  | start u k' =>
    simp only [step, Option.some.injEq] at hs
    subst hs
    have hu : t ≠ u := by
      intro h; subst h; exact hns k' rfl
    simp only [if_neg hu]
    exact ⟨hk, RI_mono h2 Seen _ s.g _ (fun _ => Or.inl) ri⟩

theorem hindsight_gen (t : Tid) (k : K) (mid : List (Act K V)) :
    ∀ (s0 s : St K V) (Seen : Option V → Prop),
      (∀ a ∈ mid, ∀ k', a ≠ Act.start t k') → Inv h2 s0.g → (s0.r t).key = k →
      Seen (content h2 s0.g k) → RI h2 Seen s0.g (s0.r t) →
      run h2 s0 mid = some s → (s.r t).pc = .done →
      Seen (s.r t).result ∨
        ∃ j, j ≤ mid.length ∧ ∃ s', run h2 s0 (mid.take j) = some s' ∧ content h2 s'.g k = (s.r t).result := by
  induction mid with
  | nil =>
    intro s0 s Seen _ _ _ _ ri hrun hdone
    simp only [run, Option.some.injEq] at hrun
    subst hrun
    exact Or.inl (ri.dn hdone)
  | cons a as ih =>
    intro s0 s Seen hns hI hk hcur ri hrun hdone
    simp only [run] at hrun
    split at hrun
    · next s1 hs =>
      have hns' : ∀ a' ∈ as, ∀ k', a' ≠ Act.start t k' := fun a' ha' => hns a' (List.mem_cons_of_mem _ ha')
      obtain ⟨hk1, ri1⟩ := RI_step h2 t k Seen s0 s1 a (hns a List.mem_cons_self) hI hk hcur ri hs
      rcases ih s1 s _ hns' (inv_step h2 s0 s1 a hI hs) hk1 (Or.inr rfl) ri1 hrun hdone with
        (hseen | heq) | ⟨j, hj, s', hrun', hc⟩
      · exact Or.inl hseen
      · refine Or.inr ⟨1, by simp, s1, ?_, heq.symm⟩
        simp [run, hs]
      · refine Or.inr ⟨j + 1, by simp; omega, s', ?_, hc⟩
        simp only [List.take_succ_cons, run, hs]
        exact hrun'
    · cases hrun

/-- hindsight for a lookup that starts in state `s0` (reader `t` at `rdMeta 0`) -/
theorem hindsight_from (t : Tid) (k : K) (mid : List (Act K V)) (s0 s : St K V)
    (hns : ∀ a ∈ mid, ∀ k', a ≠ Act.start t k') (hI : Inv h2 s0.g)
    (hstart : s0.r t = { key := k, pc := .rdMeta 0, result := none })
    (hrun : run h2 s0 mid = some s) (hdone : (s.r t).pc = .done) :
    ∃ j, j ≤ mid.length ∧ ∃ s', run h2 s0 (mid.take j) = some s' ∧ content h2 s'.g k = (s.r t).result := by
  have ri : RI h2 (fun o => o = content h2 s0.g k) s0.g (s0.r t) := by
    rw [hstart]
    refine ⟨fun h => (nomatch h), fun _ _ h => (nomatch h), fun _ => ?_⟩
    cases hc : content h2 s0.g k with
    | none => exact Or.inl rfl
    | some v =>
      obtain ⟨b, i, hold⟩ := holds_of_content_some h2 s0.g k v hc
      exact Or.inr ⟨b, i, v, hold, Nat.zero_le _⟩
  rcases hindsight_gen h2 t k mid s0 s (fun o => o = content h2 s0.g k) hns hI (by rw [hstart]) rfl ri hrun hdone with heq | h
  · exact ⟨0, Nat.zero_le _, s0, by simp [run], heq.symm⟩
  · exact h

/-! ## the initial state -/

theorem getMeta_init (k0 : K) (b i : Nat) : getMeta (init (V := V) k0).g b i = none := by
  unfold getMeta init
  cases b with
  | zero => exact getD_replicate_none _ _
  | succ b => exact getD_replicate_none _ _

theorem getEntry_init (k0 : K) (b i : Nat) : getEntry (init (V := V) k0).g b i = none := by
  unfold getEntry init
  cases b with
  | zero => exact getD_replicate_none _ _
  | succ b => exact getD_replicate_none _ _

theorem inv_init (k0 : K) : Inv h2 (init (V := V) k0).g := by
  refine ⟨?_, ?_, ?_, ?_, ?_⟩
  · intro bk hbk
    simp only [init, List.mem_singleton] at hbk
    subst hbk
    simp [Bucket.empty]
  · intro b i p h; rw [getEntry_init] at h; cases h
  · intro b i m p h; rw [getMeta_init] at h; cases h
  · intro b i b' i' k v v' h
    rw [slotHolds_none_of_meta h2 _ b i k (getMeta_init k0 b i)] at h; cases h
  · intro b i p h; cases h

/-- every reachable global state satisfies the representation invariant -/
theorem inv_reachable (k0 : K) (as : List (Act K V)) (s : St K V) (h : run h2 (init k0) as = some s) : Inv h2 s.g :=
  inv_run h2 as _ s (inv_init h2 k0) h

/-! ## reader hindsight -/

/-- **Reader hindsight**: the result of a lock-free lookup was the logical content of its key at some instant
between the start of the lookup and its end. -/
theorem reader_hindsight (k0 : K) (pre mid : List (Act K V)) (t : Tid) (k : K) (s : St K V)
    (hns : ∀ a ∈ mid, ∀ k', a ≠ Act.start t k')
    (hrun : run h2 (init k0) (pre ++ [Act.start t k] ++ mid) = some s)
    (hdone : (s.r t).pc = .done) :
    ∃ j, j ≤ mid.length ∧ ∃ s', run h2 (init k0) (pre ++ [Act.start t k] ++ mid.take j) = some s' ∧
      content h2 s'.g k = (s.r t).result := by
  rw [run_append] at hrun
  cases h0 : run h2 (init k0) (pre ++ [Act.start t k]) with
  | none => rw [h0] at hrun; cases hrun
  | some s0 =>
    rw [h0] at hrun
    have hrun : run h2 s0 mid = some s := hrun
    have hI : Inv h2 s0.g := inv_reachable h2 k0 _ s0 h0
    have hstart : s0.r t = { key := k, pc := .rdMeta 0, result := none } := by
      rw [run_append] at h0
      cases h1 : run h2 (init k0) pre with
      | none => rw [h1] at h0; cases h0
      | some s1 =>
        rw [h1] at h0
        simp only [Option.bind_some, run, step, Option.some.injEq] at h0
        subst h0
        simp
    obtain ⟨j, hj, s', hrun', hc⟩ := hindsight_from h2 t k mid s0 s hns hI hstart hrun hdone
    refine ⟨j, hj, s', ?_, hc⟩
    rw [run_append, h0]
    exact hrun'

/-! ## the solo reader: bounded termination ("reads never wait for writers") and its result -/

/-- upper bound on the number of steps a reader at `pc` still needs, in a chain of `L` buckets -/
def mu (L : Nat) : RPc → Nat
  | .rdMeta b => (S + 3) * (L - (b + 1)) + (S + 3)
  | .rdEntry b cands => (S + 3) * (L - (b + 1)) + cands.length + 2
  | .rdNext b => (S + 3) * (L - (b + 1)) + 1
  | .done => 0

theorem mu_rstep (g : G K V) (l : RL K V) (h : l.pc ≠ .done) :
    mu g.buckets.length (rstep h2 g l).pc + 1 ≤ mu g.buckets.length l.pc := by
  obtain ⟨key, pc, result⟩ := l
  cases pc with
  | rdMeta b =>
    show (S + 3) * (g.buckets.length - (b + 1)) + (candidates (g.buckets.getD b Bucket.empty) (h2 key)).length + 2 + 1
      ≤ (S + 3) * (g.buckets.length - (b + 1)) + (S + 3)
    have := candidates_length_le (g.buckets.getD b Bucket.empty) (h2 key)
    generalize (S + 3) * (g.buckets.length - (b + 1)) = X
    omega
  | rdEntry b cands =>
    cases cands with
    | nil =>
      show (S + 3) * (g.buckets.length - (b + 1)) + 1 + 1 ≤ (S + 3) * (g.buckets.length - (b + 1)) + 0 + 2
      omega
    | cons i rest =>
      have hd : mu g.buckets.length RPc.done + 1 ≤ mu g.buckets.length (RPc.rdEntry b (i :: rest)) := by
        show 0 + 1 ≤ (S + 3) * (g.buckets.length - (b + 1)) + (rest.length + 1) + 2
        omega
      have hr : mu g.buckets.length (RPc.rdEntry b rest) + 1 ≤ mu g.buckets.length (RPc.rdEntry b (i :: rest)) := by
        show (S + 3) * (g.buckets.length - (b + 1)) + rest.length + 2 + 1
          ≤ (S + 3) * (g.buckets.length - (b + 1)) + (rest.length + 1) + 2
        omega
      unfold rstep
      dsimp only
      split
      · split
        · split
          · exact hd
          · exact hr
        · exact hr
      · exact hr
  | rdNext b =>
    unfold rstep
    dsimp only
    split
    · next hlt =>
      show (S + 3) * (g.buckets.length - (b + 1 + 1)) + (S + 3) + 1 ≤ (S + 3) * (g.buckets.length - (b + 1)) + 1
      have : g.buckets.length - (b + 1) = (g.buckets.length - (b + 1 + 1)) + 1 := by omega
      rw [this, Nat.mul_succ]
      omega
    · show 0 + 1 ≤ (S + 3) * (g.buckets.length - (b + 1)) + 1
      omega
  | done => exact absurd rfl h

theorem rstep_done (g : G K V) (l : RL K V) (h : l.pc = .done) : rstep h2 g l = l := by
  obtain ⟨key, pc, result⟩ := l
  cases h
  rfl

theorem soloReader_done (g : G K V) (n : Nat) : ∀ (l : RL K V), l.pc = .done → soloReader h2 g l n = l := by
  induction n with
  | zero => intro l _; rfl
  | succ n ih =>
    intro l h
    show soloReader h2 g (rstep h2 g l) n = l
    rw [rstep_done h2 g l h]
    exact ih l h

theorem solo_done_of_mu (g : G K V) (n : Nat) :
    ∀ (l : RL K V), mu g.buckets.length l.pc ≤ n → (soloReader h2 g l n).pc = .done := by
  induction n with
  | zero =>
    intro l h
    show l.pc = .done
    cases hpc : l.pc with
    | rdMeta b => rw [hpc] at h; simp only [mu] at h; omega
    | rdEntry b c => rw [hpc] at h; simp only [mu] at h; omega
    | rdNext b => rw [hpc] at h; simp only [mu] at h; omega
    | done => rfl
  | succ n ih =>
    intro l h
    by_cases hd : l.pc = .done
    · rw [soloReader_done h2 g (n + 1) l hd]; exact hd
    · show (soloReader h2 g (rstep h2 g l) n).pc = .done
      have := mu_rstep h2 g l hd
      exact ih _ (by omega)

/-- once the solo reader is done it stays done (with the same result) -/
theorem soloReader_add (g : G K V) (n m : Nat) : ∀ (l : RL K V),
    soloReader h2 g l (n + m) = soloReader h2 g (soloReader h2 g l n) m := by
  induction n with
  | zero => intro l; rw [Nat.zero_add]; rfl
  | succ n ih =>
    intro l
    rw [Nat.add_right_comm]
    exact ih _

/-- **Bounded solo run** ("reads never wait for writers"): from ANY global state — in particular with a half-done
writer operation pending — a reader running alone reaches `done` within `(S + 3) * max (#buckets) 1` steps
(per bucket: one meta load, at most `S` entry loads, the step leaving the candidate loop, one `next` load).

The bound `(S + 2) * #buckets + 1` of the task statement is too small as soon as there are two buckets whose meta
bytes all match: see `original_bound_fails`. -/
theorem solo_terminates (g : G K V) (k : K) :
    ∃ n, n ≤ (S + 3) * max g.buckets.length 1 ∧
      (soloReader h2 g { key := k, pc := .rdMeta 0, result := none } n).pc = .done := by
  refine ⟨(S + 3) * (g.buckets.length - (0 + 1)) + (S + 3), ?_, solo_done_of_mu h2 g _ _ (Nat.le_refl _)⟩
  have hmax : max g.buckets.length 1 = (g.buckets.length - (0 + 1)) + 1 := by omega
  rw [hmax, Nat.mul_succ]
  exact Nat.le_refl _

/-- the same, at exactly the bound (and hence at every later step) -/
theorem solo_terminates_at (g : G K V) (k : K) (n : Nat) (hn : (S + 3) * max g.buckets.length 1 ≤ n) :
    (soloReader h2 g { key := k, pc := .rdMeta 0, result := none } n).pc = .done := by
  refine solo_done_of_mu h2 g n _ ?_
  show (S + 3) * (g.buckets.length - (0 + 1)) + (S + 3) ≤ n
  have hmax : max g.buckets.length 1 = (g.buckets.length - (0 + 1)) + 1 := by omega
  rw [hmax, Nat.mul_succ] at hn
  exact hn

/-- two buckets whose `2 * S` meta bytes all match the searched `h2` and whose entries are all nil -/
def cexG : G Nat Nat :=
  { buckets := [{ mbytes := List.replicate S (some 0), entries := List.replicate S none },
                { mbytes := List.replicate S (some 0), entries := List.replicate S none }],
    heap := fun _ => none, nextPtr := 0, pending := .none }

/-- the bound `(S + 2) * #buckets + 1` does not hold: in `cexG` the reader needs `2 * (S + 3) = 16 > 15` steps -/
theorem original_bound_fails :
    ∀ n, n ≤ (S + 2) * cexG.buckets.length + 1 →
      (soloReader (fun _ => 0) cexG { key := 0, pc := .rdMeta 0, result := none } n).pc ≠ .done := by
  decide

theorem run_solo (t : Tid) (n : Nat) : ∀ (s : St K V),
    ∃ s', run h2 s (List.replicate n (Act.r t)) = some s' ∧ s'.g = s.g ∧ s'.r t = soloReader h2 s.g (s.r t) n := by
  induction n with
  | zero => intro s; exact ⟨s, rfl, rfl, rfl⟩
  | succ n ih =>
    intro s
    obtain ⟨s', hrun, hg, hr⟩ := ih { s with r := fun u => if u = t then rstep h2 s.g (s.r t) else s.r u }
    refine ⟨s', ?_, hg, ?_⟩
    · simp only [List.replicate_succ, run, step]
      exact hrun
    · rw [hr]
      simp only [if_true]
      rfl

/-- **Result of a solo run**: from a state satisfying the representation invariant (with or without a pending
writer operation) the solo reader returns exactly the logical content of its key. -/
theorem solo_result_gen (g : G K V) (k : K) (hI : Inv h2 g) (n : Nat)
    (hd : (soloReader h2 g { key := k, pc := .rdMeta 0, result := none } n).pc = .done) :
    (soloReader h2 g { key := k, pc := .rdMeta 0, result := none } n).result = content h2 g k := by
  let s0 : St K V := { g := g, r := fun _ => { key := k, pc := .rdMeta 0, result := none } }
  obtain ⟨s, hrun, _, hr⟩ := run_solo h2 0 n s0
  have hr : s.r 0 = soloReader h2 g { key := k, pc := .rdMeta 0, result := none } n := hr
  have hns : ∀ a ∈ List.replicate n (Act.r (K := K) (V := V) 0), ∀ k', a ≠ Act.start 0 k' := by
    intro a ha k' he
    rw [List.eq_of_mem_replicate ha] at he
    cases he
  obtain ⟨j, _, s', hrun', hc⟩ :=
    hindsight_from h2 0 k _ s0 s hns hI rfl hrun (by rw [hr]; exact hd)
  rw [List.take_replicate] at hrun'
  obtain ⟨s'', hrun'', hg'', _⟩ := run_solo h2 0 (min j n) s0
  rw [hrun''] at hrun'
  cases hrun'
  rw [hg''] at hc
  rw [← hr, ← hc]

/-- the form asked for: no pending writer operation -/
theorem solo_result (g : G K V) (k : K) (hI : Inv h2 g) (_hp : g.pending = .none) (n : Nat)
    (hd : (soloReader h2 g { key := k, pc := .rdMeta 0, result := none } n).pc = .done) :
    (soloReader h2 g { key := k, pc := .rdMeta 0, result := none } n).result = content h2 g k :=
  solo_result_gen h2 g k hI n hd

end Proofs.SlotMapOfHindsight
