import CacheVerif.Proofs.WordsInv
import CacheVerif.Proofs.TableRefine
/-!
# The in-place stores of `MapOf.doCompute` on a bucket are M3's `upd` and `del` on the chain's slots

`doCompute` updates or deletes *the slot its search found* - the first slot of the chain whose key equals the argument:
update = a new entry pointer in that slot (`meta` untouched), delete = `setByte(meta, emptyMetaSlot, idx)` and a nil pointer.
On the flat slot list M3 works with, that is `upd` / `del` (which act on the first slot holding the key); with
`Proofs/WordsInv.lean` the new bucket is representative again.  (Insertion into the first free slot / a new bucket is
`appendSpec` = `place`, `Proofs/DeepAppend.lean`.)
-/
set_option linter.unusedSectionVars false
namespace Proofs.StoreSpec
open Model.Words Model.Table

variable {K V : Type} [DecidableEq K]

/-- no slot before position `p` holds key `k` -/
def FirstAt (k : K) (s : Slots K V) (p : Nat) : Prop := ∀ q, q < p → ∀ x w, s[q]? = some (some (x, w)) → x ≠ k

theorem upd_eq_set (k : K) (v old : V) : ∀ (s : Slots K V) (p : Nat), s[p]? = some (some (k, old)) → FirstAt k s p →
    upd k v s = s.set p (some (k, v)) := by
  intro s
  induction s with
  | nil => intro p h; simp at h
  | cons a r ih =>
    intro p h hfirst
    cases p with
    | zero =>
      simp at h; subst h
      simp [upd]
    | succ p =>
      have hr : r[p]? = some (some (k, old)) := by simpa using h
      have hf : FirstAt k r p := fun q hq x w hx => hfirst (q + 1) (by omega) x w (by simpa using hx)
      rcases a with _ | ⟨k', v'⟩
      · simp [upd, ih p hr hf]
      · have hne : k' ≠ k := hfirst 0 (by omega) k' v' (by simp)
        simp [upd, hne, ih p hr hf]

theorem del_eq_set (k : K) (old : V) : ∀ (s : Slots K V) (p : Nat), s[p]? = some (some (k, old)) → FirstAt k s p →
    del k s = s.set p none := by
  intro s
  induction s with
  | nil => intro p h; simp at h
  | cons a r ih =>
    intro p h hfirst
    cases p with
    | zero =>
      simp at h; subst h
      simp [del]
    | succ p =>
      have hr : r[p]? = some (some (k, old)) := by simpa using h
      have hf : FirstAt k r p := fun q hq x w hx => hfirst (q + 1) (by omega) x w (by simpa using hx)
      rcases a with _ | ⟨k', v'⟩
      · simp [del, ih p hr hf]
      · have hne : k' ≠ k := hfirst 0 (by omega) k' v' (by simp)
        simp [del, hne, ih p hr hf]

/-- replacing slot `i` of bucket `j` replaces slot `5 j + i` of the flat chain -/
theorem flat_set : ∀ (c : List (BucketOf K V)) (j i : Nat) (b : BucketOf K V) (w : BitVec 64) (x : Option (K × V)),
    (∀ b ∈ c, b.entries.length = 5) → c[j]? = some b → i < 5 →
    flat (c.set j ⟨w, b.entries.set i x⟩) = (flat c).set (5 * j + i) x := by
  intro c
  induction c with
  | nil => intro j i b w x _ h; simp at h
  | cons a r ih =>
    intro j i b w x hlen h hi
    have ha : a.entries.length = 5 := hlen a (by simp)
    cases j with
    | zero =>
      simp at h; subst h
      simp only [List.set_cons_zero, flat, List.flatMap_cons, Nat.mul_zero, Nat.zero_add]
      rw [List.set_append_left _ _ (by omega)]
    | succ j =>
      have hr : r[j]? = some b := by simpa using h
      have := ih j i b w x (fun y hy => hlen y (by simp [hy])) hr hi
      simp only [flat, List.set_cons_succ, List.flatMap_cons] at this ⊢
      rw [this, List.set_append_right _ _ (by omega)]
      congr 2
      omega

theorem flat_get : ∀ (c : List (BucketOf K V)) (j i : Nat) (b : BucketOf K V),
    (∀ b ∈ c, b.entries.length = 5) → c[j]? = some b → i < 5 → (flat c)[5 * j + i]? = b.entries[i]? := by
  intro c
  induction c with
  | nil => intro j i b _ h; simp at h
  | cons a r ih =>
    intro j i b hlen h hi
    have ha : a.entries.length = 5 := hlen a (by simp)
    cases j with
    | zero =>
      simp at h; subst h
      simp only [flat, List.flatMap_cons, Nat.mul_zero, Nat.zero_add]
      rw [List.getElem?_append_left (by omega)]
    | succ j =>
      have hr : r[j]? = some b := by simpa using h
      have := ih j i b (fun y hy => hlen y (by simp [hy])) hr hi
      simp only [flat, List.flatMap_cons] at this ⊢
      rw [List.getElem?_append_right (by omega), ← this]
      congr 1
      omega

/-- **in-place update of the slot the search found is M3's `upd`**, and the bucket stays representative -/
theorem update_is_upd (hk : K → BitVec 8) (c : List (BucketOf K V)) (hrep : ∀ b ∈ c, RepB hk b) (j i : Nat) (b : BucketOf K V)
    (hb : c[j]? = some b) (hi : i < 5) (k : K) (old v : V) (hs : b.entries[i]? = some (some (k, old)))
    (hfirst : FirstAt k (flat c) (5 * j + i)) :
    flat (c.set j ⟨b.metaw, b.entries.set i (some (k, v))⟩) = upd k v (flat c) ∧
    RepB hk ⟨b.metaw, b.entries.set i (some (k, v))⟩ := by
  have hlen : ∀ b ∈ c, b.entries.length = 5 := fun b hb => (hrep b hb).1
  have hbm : b ∈ c := List.mem_of_getElem? hb
  refine ⟨?_, ?_⟩
  · rw [flat_set c j i b b.metaw _ hlen hb hi,
      upd_eq_set k v old (flat c) (5 * j + i) (by rw [flat_get c j i b hlen hb hi, hs]) hfirst]
  · exact Proofs.WordsInv.repB_update hk b (hrep b hbm) i hi k old v (by rw [List.getD_eq_getElem?_getD, hs]; rfl)

/-- **deletion from the slot the search found is M3's `del`**, and the bucket stays representative -/
theorem delete_is_del (hk : K → BitVec 8) (c : List (BucketOf K V)) (hrep : ∀ b ∈ c, RepB hk b) (j i : Nat) (b : BucketOf K V)
    (hb : c[j]? = some b) (hi : i < 5) (k : K) (old : V) (hs : b.entries[i]? = some (some (k, old)))
    (hfirst : FirstAt k (flat c) (5 * j + i)) :
    flat (c.set j ⟨Gen.setByte b.metaw Gen.emptyMetaSlot i, b.entries.set i none⟩) = del k (flat c) ∧
    RepB hk ⟨Gen.setByte b.metaw Gen.emptyMetaSlot i, b.entries.set i none⟩ := by
  have hlen : ∀ b ∈ c, b.entries.length = 5 := fun b hb => (hrep b hb).1
  have hbm : b ∈ c := List.mem_of_getElem? hb
  refine ⟨?_, ?_⟩
  · rw [flat_set c j i b _ _ hlen hb hi,
      del_eq_set k old (flat c) (5 * j + i) (by rw [flat_get c j i b hlen hb hi, hs]) hfirst]
  · exact Proofs.WordsInv.repB_delete hk b (hrep b hbm) i hi

end Proofs.StoreSpec
