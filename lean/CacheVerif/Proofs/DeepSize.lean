import CacheVerif.Proofs.DeepLoad
/-!
# The printed `sumSize` of both tables adds up the counter stripes

`Gen.Deep.T_mapOfTable_sumSize` / `T_mapTable_sumSize` are printed from `internal/xsync` on every run (`for i := range
table.size { sum += atomic.LoadInt64(&table.size[i].c) }`).  For every heap the interpreter returns the sum of the
stripes - what `Size()` converts and returns, and what M3 keeps as `Tbl.size` (M4a sums the stripes one load at a time;
the sequential reading here is the quiescent case of C08).
-/
set_option linter.unusedSimpArgs false
namespace Proofs.DeepSize
open Deep.T Proofs.DeepLoad

variable {K V : Type} [DecidableEq K]

def rangeS (d : FuncDecl) : Stmt := nth d.body 1
def rangeBody : Stmt → Stmt | .rangeIdx _ _ b => b | s => s

theorem range_getD (l : List Int) : (List.range l.length).map (fun i => l.getD i 0) = l := by
  apply List.ext_getElem
  · simp
  · intro i h1 h2
    simp at h1
    simp [List.getD_eq_getElem?_getD, h1]

/-- the loop over the stripes, for either printed function whose loop body is the one both files have -/
theorem stripes_loop (fuel : Nat) (h : Heap K V) (res : List String) (body : Stmt)
    (hbody : ∀ (i : Nat) (acc : Int), i < h.stripes.length →
      exec fuel h res body [("i", .int i), ("sum", .int acc), ("", .int 0)] =
        some (.normal [("i", .int i), ("sum", .int (acc + h.stripes.getD i 0)), ("", .int 0)])) :
    ∀ (l : List Nat) (acc : Int), (∀ i ∈ l, i < h.stripes.length) →
      forIdx "i" (fun env => exec fuel h res body env) l [("sum", .int acc), ("", .int 0)] =
        some (.normal [("sum", .int (acc + (l.map fun i => h.stripes.getD i 0).sum)), ("", .int 0)]) := by
  intro l
  induction l with
  | nil => intro acc _; simp [forIdx]
  | cons i r ih =>
    intro acc hl
    rw [forIdx, hbody i acc (hl i (by simp))]
    simp only [List.length_cons, List.length_nil]
    have := ih (acc + h.stripes.getD i 0) (fun x hx => hl x (by simp [hx]))
    simp only [List.drop, List.map_cons, List.sum_cons] at this ⊢
    rw [show acc + (h.stripes.getD i 0 + (List.map (fun i => h.stripes.getD i 0) r).sum) =
      acc + h.stripes.getD i 0 + (List.map (fun i => h.stripes.getD i 0) r).sum by omega]
    exact this

theorem sumSize_of (fuel : Nat) (h : Heap K V) : call fuel h Gen.Deep.T_mapOfTable_sumSize [] = some [.int h.stripes.sum] := by
  have hbody : ∀ (i : Nat) (acc : Int), i < h.stripes.length →
      exec fuel h [""] (rangeBody (rangeS Gen.Deep.T_mapOfTable_sumSize)) [("i", .int i), ("sum", .int acc), ("", .int 0)] =
        some (.normal [("i", .int i), ("sum", .int (acc + h.stripes.getD i 0)), ("", .int 0)]) := by
    intro i acc hi
    have hg : h.stripes[i]? = some (h.stripes.getD i 0) := by
      rw [List.getD_eq_getElem?_getD, List.getElem?_eq_getElem hi]; rfl
    simp [rangeBody, rangeS, nth, Gen.Deep.T_mapOfTable_sumSize, exec, eval, List.lookup, binop, atomicLoad, addrOf, hi, hg,
      leave, setVar]
  have hl := stripes_loop fuel h [""] _ hbody (List.range h.stripes.length) 0 (by intro i hi; simpa using hi)
  rw [range_getD, Int.zero_add] at hl
  have hrun : exec fuel h [""] Gen.Deep.T_mapOfTable_sumSize.body [("", .int 0)] = some (.ret [.int h.stripes.sum]) := by
    have hshape : Gen.Deep.T_mapOfTable_sumSize.body =
        .seq (nth Gen.Deep.T_mapOfTable_sumSize.body 0)
          (.seq (.rangeIdx "i" (.recvField "size") (rangeBody (rangeS Gen.Deep.T_mapOfTable_sumSize)))
            (nth Gen.Deep.T_mapOfTable_sumSize.body 2)) := rfl
    have p0 : exec fuel h [""] (nth Gen.Deep.T_mapOfTable_sumSize.body 0) [("", .int 0)] =
        some (.normal [("sum", .int 0), ("", .int 0)]) := by
      simp [nth, Gen.Deep.T_mapOfTable_sumSize, exec, eval, conv]
    have p2 : exec fuel h [""] (nth Gen.Deep.T_mapOfTable_sumSize.body 2) [("sum", .int h.stripes.sum), ("", .int 0)] =
        some (.ret [.int h.stripes.sum]) := by
      simp [nth, Gen.Deep.T_mapOfTable_sumSize, exec, eval, evalList, List.lookup]
    rw [hshape]
    simp only [exec, p0, eval, hl, p2]
  have hcall : call fuel h Gen.Deep.T_mapOfTable_sumSize [] =
      (match exec fuel h [""] Gen.Deep.T_mapOfTable_sumSize.body [("", .int 0)] with
        | some (.ret vs) => some vs
        | _ => none) := rfl
  rw [hcall, hrun]

theorem sumSize_map (fuel : Nat) (h : Heap K V) : call fuel h Gen.Deep.T_mapTable_sumSize [] = some [.int h.stripes.sum] := by
  have hbody : ∀ (i : Nat) (acc : Int), i < h.stripes.length →
      exec fuel h [""] (rangeBody (rangeS Gen.Deep.T_mapTable_sumSize)) [("i", .int i), ("sum", .int acc), ("", .int 0)] =
        some (.normal [("i", .int i), ("sum", .int (acc + h.stripes.getD i 0)), ("", .int 0)]) := by
    intro i acc hi
    have hg : h.stripes[i]? = some (h.stripes.getD i 0) := by
      rw [List.getD_eq_getElem?_getD, List.getElem?_eq_getElem hi]; rfl
    simp [rangeBody, rangeS, nth, Gen.Deep.T_mapTable_sumSize, exec, eval, List.lookup, binop, atomicLoad, addrOf, hi, hg,
      leave, setVar]
  have hl := stripes_loop fuel h [""] _ hbody (List.range h.stripes.length) 0 (by intro i hi; simpa using hi)
  rw [range_getD, Int.zero_add] at hl
  have hrun : exec fuel h [""] Gen.Deep.T_mapTable_sumSize.body [("", .int 0)] = some (.ret [.int h.stripes.sum]) := by
    have hshape : Gen.Deep.T_mapTable_sumSize.body =
        .seq (nth Gen.Deep.T_mapTable_sumSize.body 0)
          (.seq (.rangeIdx "i" (.recvField "size") (rangeBody (rangeS Gen.Deep.T_mapTable_sumSize)))
            (nth Gen.Deep.T_mapTable_sumSize.body 2)) := rfl
    have p0 : exec fuel h [""] (nth Gen.Deep.T_mapTable_sumSize.body 0) [("", .int 0)] =
        some (.normal [("sum", .int 0), ("", .int 0)]) := by
      simp [nth, Gen.Deep.T_mapTable_sumSize, exec, eval, conv]
    have p2 : exec fuel h [""] (nth Gen.Deep.T_mapTable_sumSize.body 2) [("sum", .int h.stripes.sum), ("", .int 0)] =
        some (.ret [.int h.stripes.sum]) := by
      simp [nth, Gen.Deep.T_mapTable_sumSize, exec, eval, evalList, List.lookup]
    rw [hshape]
    simp only [exec, p0, eval, hl, p2]
  have hcall : call fuel h Gen.Deep.T_mapTable_sumSize [] =
      (match exec fuel h [""] Gen.Deep.T_mapTable_sumSize.body [("", .int 0)] with
        | some (.ret vs) => some vs
        | _ => none) := rfl
  rw [hcall, hrun]

end Proofs.DeepSize
