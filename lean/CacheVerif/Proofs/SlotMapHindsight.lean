import CacheVerif.Model.SlotMap
import CacheVerif.Proofs.SlotMapRep
import CacheVerif.Proofs.SlotMapReader
/-!
# M4b (Map): the three-read atomic snapshot of `Load` is linearizable against the chain's logical content
(hindsight), and a solo reader terminates within a bound
-/
set_option linter.unusedSectionVars false
set_option linter.unusedVariables false
set_option linter.unusedSimpArgs false
namespace Proofs.SlotMapHindsight
open Model.SlotMap

variable {K V : Type} [DecidableEq K] (top : K → Nat)

/-- run the reader alone (the writer does not move) for `n` steps -/
def soloReader (g : G K V) (l : RL K V) : Nat → RL K V
  | 0 => l
  | n + 1 => soloReader g (rstep top g l) n

/-! ## reader hindsight -/

theorem run_append (xs ys : List (Act K V)) : ∀ s : St K V,
    run top s (xs ++ ys) = (run top s xs).bind fun s' => run top s' ys := by
  induction xs with
  | nil => intro s; rfl
  | cons a xs ih =>
    intro s
    simp only [List.cons_append, run]
    split
    · exact ih _
    · rfl

/-- one global step keeps reader `t`'s invariant, with the new content added to the witness set -/
theorem rdInv_step (t : Tid) (k : K) (s0 s1 : St K V) (a : Act K V) (W : Option V → Prop)
    (ri : RI top s0.g) (hinv : RdInv top W s0.g (s0.r t)) (hkey : (s0.r t).key = k)
    (hns : ∀ k', a ≠ Act.start t k') (hs : step top s0 a = some s1) :
    ∃ W' : Option V → Prop, (∀ v, W' v → W v ∨ v = content top s1.g k) ∧
      RdInv top W' s1.g (s1.r t) ∧ (s1.r t).key = k := by
  cases a with
  | w ws =>
    simp only [step, Option.map_eq_some_iff] at hs
    obtain ⟨g', hg', rfl⟩ := hs
    refine ⟨fun v => W v ∨ v = content top g' k, fun v hv => hv, ?_, hkey⟩
    have ri' := ri_wstep top _ _ ws ri hg'
    exact rdInv_wstep top (wstep_WR top _ _ ws ri hg') ri ri' (fun v hv => Or.inl hv) (s0.r t)
      (Or.inr (by rw [hkey])) hinv
  | r u =>
    simp only [step, Option.some.injEq] at hs
    subst hs
    refine ⟨W, fun v hv => Or.inl hv, ?_, ?_⟩
    · dsimp only
      by_cases hu : t = u
      · subst hu; rw [if_pos rfl]; exact rdInv_rstep top s0.g (s0.r t) ri hinv
      · rw [if_neg hu]; exact hinv
    · dsimp only
      by_cases hu : t = u
      · subst hu; rw [if_pos rfl, rstep_key]; exact hkey
      · rw [if_neg hu]; exact hkey
  | start u k' =>
    simp only [step, Option.some.injEq] at hs
    subst hs
    have hu : ¬ t = u := fun e => hns k' (by rw [e])
    refine ⟨W, fun v hv => Or.inl hv, ?_, ?_⟩
    · dsimp only; rw [if_neg hu]; exact hinv
    · dsimp only; rw [if_neg hu]; exact hkey

theorem hindsight_aux (t : Tid) (k : K) (mid : List (Act K V)) :
    ∀ (s0 s : St K V) (W : Option V → Prop), RI top s0.g → RdInv top W s0.g (s0.r t) → (s0.r t).key = k →
      (∀ a ∈ mid, ∀ k', a ≠ Act.start t k') → run top s0 mid = some s → (s.r t).pc = .done →
      W (s.r t).result ∨
        ∃ j, j ≤ mid.length ∧ ∃ s', run top s0 (mid.take j) = some s' ∧ content top s'.g k = (s.r t).result := by
  induction mid with
  | nil =>
    intro s0 s W ri hinv hkey _ hrun hdone
    simp only [run, Option.some.injEq] at hrun
    subst hrun
    left
    have := hinv.pcinv
    rw [hdone] at this
    exact this
  | cons a mid ih =>
    intro s0 s W ri hinv hkey hns hrun hdone
    simp only [run] at hrun
    split at hrun
    · rename_i s1 hs1
      have ri1 := ri_step top s0 s1 a ri hs1
      obtain ⟨W', hW', hinv1, hkey1⟩ :=
        rdInv_step top t k s0 s1 a W ri hinv hkey (hns a List.mem_cons_self) hs1
      rcases ih s1 s W' ri1 hinv1 hkey1 (fun a' ha' => hns a' (List.mem_cons_of_mem _ ha')) hrun hdone with
        hw | ⟨j, hj, s', hr, hc⟩
      · rcases hW' _ hw with h | h
        · exact Or.inl h
        · right
          refine ⟨1, by simp, s1, ?_, h.symm⟩
          simp [run, hs1]
      · right
        refine ⟨j + 1, by simp; omega, s', ?_, hc⟩
        simp [run, hs1, hr]
    · cases hrun

/-- **Reader hindsight**: the result returned by a lock-free lookup was the logical content of its key at some
instant between the start of the lookup and its end. -/
theorem reader_hindsight (k0 : K) (pre mid : List (Act K V)) (t : Tid) (k : K) (s : St K V)
    (hns : ∀ a ∈ mid, ∀ k', a ≠ Act.start t k')
    (hrun : run top (init k0) (pre ++ [Act.start t k] ++ mid) = some s)
    (hdone : (s.r t).pc = .done) :
    ∃ j, j ≤ mid.length ∧ ∃ s', run top (init k0) (pre ++ [Act.start t k] ++ mid.take j) = some s' ∧
      content top s'.g k = (s.r t).result := by
  rw [run_append] at hrun
  cases h1 : run top (init k0) (pre ++ [Act.start t k]) with
  | none => rw [h1] at hrun; cases hrun
  | some s0 =>
    rw [h1] at hrun
    simp only [Option.bind_some] at hrun
    have ri0 : RI top s0.g := ri_run top _ _ _ (ri_init top k0) h1
    have h1' := h1
    rw [run_append] at h1'
    cases h2 : run top (init k0) pre with
    | none => rw [h2] at h1'; cases h1'
    | some sp =>
      rw [h2] at h1'
      simp only [Option.bind_some, run, step, Option.some.injEq] at h1'
      have hr : s0.r t = { key := k, pc := .rdWord 0, result := none } := by
        rw [← h1']; simp
      have hinv : RdInv top (fun v => v = content top s0.g k) s0.g (s0.r t) := by
        rw [hr]
        exact ⟨rfl, Or.inr (fun _ _ _ => Nat.zero_le _), trivial⟩
      rcases hindsight_aux top t k mid s0 s _ ri0 hinv (by rw [hr]) hns hrun hdone with hw | ⟨j, hj, s', hr', hc⟩
      · refine ⟨0, Nat.zero_le _, s0, ?_, hw.symm⟩
        simpa using h1
      · refine ⟨j, hj, s', ?_, hc⟩
        rw [run_append, h1]; exact hr'

/-! ## bounded solo run -/

/-- upper bound on the number of solo steps left (`len` = number of buckets) -/
def mu (len : Nat) : RPc → Nat
  | .rdWord b => 10 * (len - (b + 1)) + 10
  | .rdVal b cs => 2 * cs.length + 2 + (1 + 10 * (len - (b + 1)))
  | .rdKey b cs _ => 2 * cs.length + 1 + (1 + 10 * (len - (b + 1)))
  | .rdVal2 b _ _ => 1 + (1 + 10 * (len - (b + 1)))
  | .rdNext b => 1 + 10 * (len - (b + 1))
  | .done => 0

/-- in a solo run the value pointer held by the reader is the one in the slot -/
def SoloJ (g : G K V) : RPc → Prop
  | .rdKey b (i :: _) vp => vp = (getSlot g b i).valp
  | .rdVal2 b (i :: _) vp => (getSlot g b i).valp = some vp
  | _ => True

theorem candidates_length (bk : List Slot) (h : Nat) : (candidates bk h).length ≤ 3 := by
  unfold candidates
  refine Nat.le_trans (List.length_filter_le _ _) ?_
  simp [S]

theorem solo_step (g : G K V) (l : RL K V) (hj : SoloJ g l.pc) :
    SoloJ g (rstep top g l).pc ∧
      (l.pc = .done ∨ mu g.buckets.length (rstep top g l).pc < mu g.buckets.length l.pc) := by
  obtain ⟨k, pc, res⟩ := l
  dsimp only at hj ⊢
  cases pc with
  | rdWord b =>
    simp only [rstep]
    refine ⟨trivial, Or.inr ?_⟩
    have := candidates_length (g.buckets.getD b []) (top k)
    simp only [mu]; omega
  | rdVal b cs =>
    cases cs with
    | nil => simp only [rstep]; exact ⟨trivial, Or.inr (by simp only [mu, List.length_nil]; omega)⟩
    | cons i rest => simp only [rstep]; exact ⟨rfl, Or.inr (by simp only [mu]; omega)⟩
  | rdKey b cs vp =>
    cases cs with
    | nil => simp only [rstep]; exact ⟨trivial, Or.inr (by simp only [mu, List.length_nil]; omega)⟩
    | cons i rest =>
      rcases rstep_rdKey top g k res b i rest vp with ⟨kp, vp', hk, rfl, hkey, hr⟩ | ⟨hno, hr⟩
      · rw [hr]; exact ⟨hj.symm, Or.inr (by simp only [mu, List.length_cons]; omega)⟩
      · rw [hr]; exact ⟨trivial, Or.inr (by simp only [mu, List.length_cons]; omega)⟩
  | rdVal2 b cs vp =>
    cases cs with
    | nil => simp only [rstep]; exact ⟨trivial, Or.inr (by simp only [mu]; omega)⟩
    | cons i rest =>
      have hv : (getSlot g b i).valp = some vp := hj
      simp only [rstep, hv, if_true]
      exact ⟨trivial, Or.inr (by simp only [mu]; omega)⟩
  | rdNext b =>
    by_cases hb : b + 1 < g.buckets.length
    · simp only [rstep, hb, if_true]
      exact ⟨trivial, Or.inr (by simp only [mu]; omega)⟩
    · simp only [rstep, hb, if_false]
      exact ⟨trivial, Or.inr (by simp only [mu]; omega)⟩
  | done => exact ⟨trivial, Or.inl rfl⟩

theorem solo_done (g : G K V) : ∀ (n : Nat) (l : RL K V), SoloJ g l.pc → mu g.buckets.length l.pc ≤ n →
    (soloReader top g l n).pc = .done := by
  intro n
  induction n with
  | zero =>
    intro l _ hm
    simp only [soloReader]
    cases hpc : l.pc <;> rw [hpc] at hm <;> simp only [mu] at hm <;> first | rfl | omega
  | succ n ih =>
    intro l hj hm
    simp only [soloReader]
    obtain ⟨hj', hd⟩ := solo_step top g l hj
    apply ih _ hj'
    rcases hd with hd | hd
    · have : rstep top g l = l := by
        obtain ⟨k, pc, res⟩ := l
        dsimp only at hd; subst hd; rfl
      rw [this, hd]; simp [mu]
    · omega

/-- **Bounded solo run**: from ANY global state (also with a half-done writer operation) a reader running alone
finishes its lookup within `(3 * S + 2) * (number of buckets + 1)` steps. -/
theorem solo_terminates (g : G K V) (k : K) :
    ∃ n, n ≤ (3 * S + 2) * (g.buckets.length + 1) ∧
      (soloReader top g { key := k, pc := .rdWord 0, result := none } n).pc = .done := by
  refine ⟨(3 * S + 2) * (g.buckets.length + 1), Nat.le_refl _, ?_⟩
  apply solo_done top g _ { key := k, pc := .rdWord 0, result := none } trivial
  simp only [mu, S]; omega

theorem solo_inv (g : G K V) (ri : RI top g) (W : Option V → Prop) : ∀ (n : Nat) (l : RL K V),
    RdInv top W g l → RdInv top W g (soloReader top g l n) ∧ (soloReader top g l n).key = l.key := by
  intro n
  induction n with
  | zero => intro l h; exact ⟨h, rfl⟩
  | succ n ih =>
    intro l h
    simp only [soloReader]
    have := ih _ (rdInv_rstep top g l ri h)
    exact ⟨this.1, by rw [this.2, rstep_key]⟩

/-- the result of a finished solo run is the logical content (for any state satisfying the representation
invariant, even with a half-done writer operation) -/
theorem solo_result_any (g : G K V) (k : K) (ri : RI top g) (n : Nat)
    (hd : (soloReader top g { key := k, pc := .rdWord 0, result := none } n).pc = .done) :
    (soloReader top g { key := k, pc := .rdWord 0, result := none } n).result = content top g k := by
  have h0 : RdInv top (fun v => v = content top g k) g { key := k, pc := .rdWord 0, result := none } :=
    ⟨rfl, Or.inr (fun _ _ _ => Nat.zero_le _), trivial⟩
  have := (solo_inv top g ri _ n _ h0).1.pcinv
  rw [hd] at this
  exact this

/-- **Solo result**: from a quiescent state satisfying the representation invariant, the solo lookup finishes
within the bound and returns the logical content. -/
theorem solo_result (g : G K V) (k : K) (ri : RI top g) (hp : g.pending = .none) :
    ∃ n, n ≤ (3 * S + 2) * (g.buckets.length + 1) ∧
      (soloReader top g { key := k, pc := .rdWord 0, result := none } n).pc = .done ∧
      (soloReader top g { key := k, pc := .rdWord 0, result := none } n).result = content top g k := by
  obtain ⟨n, hn, hd⟩ := solo_terminates top g k
  exact ⟨n, hn, hd, solo_result_any top g k ri n hd⟩

end Proofs.SlotMapHindsight
