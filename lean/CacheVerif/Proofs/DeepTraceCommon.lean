import CacheVerif.Proofs.DeepSimpSet
import CacheVerif.Proofs.ConcCacheSolo
/-!
Twin-independent part of the trace theorems (`DeepTrace.lean`, `DeepTraceOf.lean`): the action a step of M5 stands
for, the trace of a solo thread, and the loop lemmas with the recorded actions.
-/
namespace DeepTraceCommon
open Deep Model Spec Model.ConcCache Proofs.ConcCacheSolo
variable {K V : Type} [DecidableEq K] [Inhabited V]

theorem sweep_cons (now : Int) (hasCb : Bool) (p : K × Item V) (l : List (K × Item V)) (acc : AMap K (Item V) × List (K × V)) :
    Model.Cache.sweep now hasCb (p :: l) acc = Model.Cache.sweep now hasCb l (Model.Cache.sweep now hasCb [p] acc) := by
  obtain ⟨k, i⟩ := p
  by_cases he : Gen.item_expiredWithNow i.e now <;> simp [Model.Cache.sweep, he]

/-- the atomic action a step of M5 stands for (`[]`: no action of the code, a silent step of the model) -/
def evOf (l : L K V) (c : Choice K V) : List (Ev K V) :=
  match l.pc with
  | .idle | .ret => []
  | .setReadDflt => [.loadSetting "defaultExpiration"]
  | .setReadClock => if l.d > 0 then [.clock] else []
  | .setStore | .getLoad | .getCompute | .rmw | .gdCompute =>
    match opKey l with
    | some k => [match l.pc with | .setStore => .store k | .getLoad => .load k | _ => .compute k]
    | none => []
  | .getChkClock | .getTTLClock | .deReadClock => [.clock]
  | .gdReadCb | .deReadCb => [.loadSetting "evictedCallback"]
  | .gdFire =>
    match opKey l, l.removed, l.ec with
    | some k, some i, some cb => [.fire cb k i.v]
    | _, _, _ => []
  | .deVisit => match c.key with | some k => [.visit k] | none => []
  | .deCompute => match l.cur with | some (k, _) => [.compute k] | none => []
  | .deFire =>
    match l.queue, l.ec with
    | (k, v) :: _, some cb => [.fire cb k v]
    | _, _ => []
  | .clClear => [.clear]
  | .cntSize => [.size]
  | .sdStore => [.storeSetting "defaultExpiration"]
  | .scStore => [.storeSetting "evictedCallback"]

/-- the actions of thread 0 running alone through the given choices -/
def soloTrace (g : G K V) (l : L K V) : List (Choice K V) → Option (List (Ev K V))
  | [] => some []
  | c :: cs =>
    match tstep 0 g l c with
    | some (g', l') => (soloTrace g' l' cs).map fun t => evOf l c ++ t
    | none => none


/-! ### DeleteExpired -/

/-- actions of the traversal part of a pass over the snapshot `snap` -/
def visitEvs (now : Int) : List (K × Item V) → List (Ev K V)
  | [] => []
  | (k, i) :: rest =>
    if Gen.item_expiredWithNow i.e now then .visit k :: .compute k :: visitEvs now rest else .visit k :: visitEvs now rest

theorem soloTrace_append (g : G K V) (l : L K V) (a b : List (Choice K V)) :
    soloTrace g l (a ++ b) =
      match soloSteps g l a, soloTrace g l a with
      | some r, some t => (soloTrace r.1 r.2 b).map fun t' => t ++ t'
      | _, _ => none := by
  induction a generalizing g l with
  | nil => simp [soloSteps, soloTrace]
  | cons c a ih =>
    simp only [List.cons_append, soloSteps, soloTrace]
    cases tstep 0 g l c with
    | none => rfl
    | some r =>
      simp only [ih r.1 r.2]
      cases soloSteps r.1 r.2 a <;> cases soloTrace r.1 r.2 a <;> simp [Option.map]
      rename_i x y
      cases soloTrace x.1 x.2 b <;> simp

theorem trace_visits (snap : List (K × Item V)) (g : G K V) (l : L K V) (hpc : l.pc = .deVisit) :
    soloTrace g l (visitChoices l.passNow snap) = some (visitEvs l.passNow snap) := by
  induction snap generalizing g l with
  | nil => rfl
  | cons p snap ih =>
    obtain ⟨k, i⟩ := p
    by_cases he : Gen.item_expiredWithNow i.e l.passNow
    · simp only [visitChoices, visitEvs, he, if_true, soloTrace, tstep, hpc, evOf]
      rw [ih _ _ rfl]
      simp
    · simp only [visitChoices, visitEvs, he, soloTrace, tstep, hpc, evOf, Bool.false_eq_true, if_false]
      rw [ih g l hpc]
      simp

theorem trace_fire (q : List (K × V)) (c : Nat) (g : G K V) (l : L K V) (hpc : l.pc = .deFire) (hq : l.queue = q)
    (hec : l.ec = some c) :
    soloTrace g l (List.replicate (q.length + 1) {}) = some (q.map fun p => .fire c p.1 p.2) := by
  induction q generalizing g l with
  | nil => simp [List.replicate, soloTrace, tstep, hpc, hq, evOf]
  | cons p q ih =>
    obtain ⟨k, v⟩ := p
    simp only [List.length_cons, List.replicate_succ (n := q.length + 1), soloTrace, tstep, hpc, hq, hec, evOf]
    rw [ih _ _ rfl rfl rfl]
    simp

/-- traced version of `DeepCache.loop_sweep`: the visitor of `DeleteExpired` over a snapshot -/
theorem loop_sweep_tr (call : List (Val K V) → W K V → Deep.Res K V) (now : Int) (hasCb : Bool) (C N : Val K V)
    (hcall : ∀ k (i : Item V) (w : W K V) (ev : List (K × V)), w.heap = [.kvs ev, C, N] → w.atomic = false →
      call [.key k, ofItem i] w =
      some ([.bool true], { w with items := (Model.Cache.sweep now hasCb [(k, i)] (w.items, ev)).1,
                                   heap := [.kvs (Model.Cache.sweep now hasCb [(k, i)] (w.items, ev)).2, C, N],
                                   ev := w.ev ++ visitEvs now [(k, i)] }))
    (l : List (K × Item V)) (w : W K V) (ev : List (K × V)) (hw : w.heap = [.kvs ev, C, N]) (ha : w.atomic = false) :
    loopItems call l w = some { w with items := (Model.Cache.sweep now hasCb l (w.items, ev)).1,
                                       heap := [.kvs (Model.Cache.sweep now hasCb l (w.items, ev)).2, C, N],
                                       ev := w.ev ++ visitEvs now l } := by
  induction l generalizing w ev with
  | nil => cases w; simp only at hw; subst hw; simp [loopItems, Model.Cache.sweep, visitEvs]
  | cons p l ih =>
    obtain ⟨k, i⟩ := p
    simp only [loopItems, hcall k i w ev hw ha]
    rw [ih _ _ rfl (by simpa using ha), sweep_cons now hasCb (k, i) l]
    by_cases he : Gen.item_expiredWithNow i.e now <;> simp [visitEvs, he]

theorem loop_cbs_tr (body : Val K V → W K V → Option (Option (List (Val K V)) × W K V)) (c : Nat) (h0 : List (Val K V))
    (hbody : ∀ k a (w : W K V), w.heap = h0 → w.atomic = false →
      body (.kv k a) w = some (none, { w with cbs := w.cbs ++ [(c, k, a)], ev := w.ev ++ [.fire c k a] }))
    (l : List (K × V)) (w : W K V) (hw : w.heap = h0) (ha : w.atomic = false) :
    loopKvs body l w = some (none, { w with cbs := w.cbs ++ l.map (fun p => (c, p.1, p.2)),
                                            ev := w.ev ++ l.map fun p => .fire c p.1 p.2 }) := by
  induction l generalizing w with
  | nil => simp [loopKvs]
  | cons p l ih =>
    obtain ⟨k, a⟩ := p
    simp only [loopKvs, hbody k a w hw ha]
    rw [ih _ (by simpa using hw) (by simpa using ha)]
    simp


/-- no step of M5 stands for a callback invoked under a bucket lock -/
theorem soloTrace_unlocked (cs : List (Choice K V)) (g : G K V) (l : L K V) (t : List (Ev K V))
    (h : soloTrace g l cs = some t) : Ev.calledLocked ∉ t := by
  induction cs generalizing g l t with
  | nil => simp [soloTrace] at h; subst h; simp
  | cons c cs ih =>
    simp only [soloTrace] at h
    cases hs : tstep 0 g l c with
    | none => simp [hs] at h
    | some r =>
      simp only [hs, Option.map_eq_some_iff] at h
      obtain ⟨t', ht', rfl⟩ := h
      have := ih r.1 r.2 t' ht'
      simp only [List.mem_append, not_or]
      refine ⟨?_, this⟩
      unfold evOf
      cases l.pc <;> simp <;> (try split) <;> simp


/-! ### Range: the visitor is handed every entry of the snapshot; it is invoked (outside any lock) for the unexpired
ones until it returns false -/

/-- actions of a `Range` over the snapshot: one visit per entry handed over, up to and including the one at which the
user's visitor stops the traversal -/
def rangeEvs (now : Int) (f : K → V → Bool) : List (K × Item V) → List (Ev K V)
  | [] => []
  | (k, i) :: rest =>
    if Gen.item_expiredWithNow i.e now then .visit k :: rangeEvs now f rest
    else if f k i.v then .visit k :: rangeEvs now f rest else [.visit k]

theorem rangeEvs_unlocked (now : Int) (f : K → V → Bool) (l : List (K × Item V)) : Ev.calledLocked ∉ rangeEvs now f l := by
  induction l with
  | nil => simp [rangeEvs]
  | cons p l ih =>
    obtain ⟨k, i⟩ := p
    unfold rangeEvs
    split
    · simp [ih]
    · split <;> simp [ih]

/-- traced version of `DeepCache.loop_walk` -/
theorem loop_walk_tr (call : List (Val K V) → W K V → Deep.Res K V) (now : Int) (f : K → V → Bool) (h0 : List (Val K V))
    (hcall : ∀ k (i : Item V) (w : W K V), w.heap = h0 → w.atomic = false → call [.key k, ofItem i] w =
      if Gen.item_expiredWithNow i.e now then some ([.bool true], { w with ev := w.ev ++ [.visit k] })
      else some ([.bool (f k i.v)], { w with visits := w.visits ++ [(k, i.v)], ev := w.ev ++ [.visit k] }))
    (l : List (K × Item V)) (w : W K V) (hw : w.heap = h0) (ha : w.atomic = false) :
    loopItems call l w = some { w with visits := w.visits ++ Model.Cache.walk now f l, ev := w.ev ++ rangeEvs now f l } := by
  induction l generalizing w with
  | nil => simp [loopItems, Model.Cache.walk, rangeEvs]
  | cons p l ih =>
    obtain ⟨k, i⟩ := p
    simp only [loopItems, hcall k i w hw ha, Model.Cache.walk, rangeEvs]
    by_cases he : Gen.item_expiredWithNow i.e now
    · simp only [he, if_true]
      rw [ih _ (by simpa using hw) (by simpa using ha)]
      simp
    · by_cases hf : f k i.v
      · simp only [he, hf, if_true, Bool.false_eq_true, if_false]
        rw [ih _ (by simpa using hw) (by simpa using ha)]
        simp
      · simp [he, hf]

end DeepTraceCommon
