import CacheVerif.Proofs.ProtoData
/-!
# M4a invariants, bundle 5: a traversal misses no entry that stays put

`Range` loads the table pointer once and walks the root buckets of *that* generation, snapshotting each under its
lock.  While it runs the generation may be retired by a grow, a shrink or a `Clear`.  This file proves, for every
schedule, that a pair `(k, v)` which is bound in the *current* table at every instant between the call and its return
is handed to the visitor (if the visitor never stops the traversal):

* a generation retired by a grow/shrink is frozen: after the resizer has set the flag, every root bucket is locked and
  copied before the new table is published, so no writer that passed its two checks (`resizing`, `cur`) can still be
  inside its critical section on the old table (`NoStraggler`, from the resizer/writer pairing of `ProtoData`);
* a generation retired by `Clear` is *not* frozen (`Clear` locks no bucket) - but then the key is not bound in the new,
  empty table, which the hypothesis excludes;
* so the binding of `k` in the traversed generation stays what it was when the traversal began, the bucket of `k` is
  snapshotted exactly once, and the pair is in that snapshot (`Prog`: progress of the traversal, also while the
  visitor runs nested calls - `frames` - on the same container).
-/
set_option linter.unusedSectionVars false
set_option linter.unusedVariables false
namespace Proofs.ProtoRange
open Spec Model.Proto Proofs.ProtoLocks Proofs.ProtoData

variable {K V : Type} [DecidableEq K]

/-! ## a retired generation is frozen -/

/-- a writer that has passed both checks (`resizing` lowered, `cur` unchanged) and has not committed yet -/
def pastChk2 : Pc → Bool
  | .dcScan | .dcSum | .dcFn | .dcCommit => true
  | _ => false

theorem pastChk_of_pastChk2 (pc : Pc) (h : pastChk2 pc = true) : pastChk pc = true := by
  cases pc <;> simp_all [pastChk2, pastChk]

theorem hasBi_of_pastChk2 (pc : Pc) (h : pastChk2 pc = true) : hasBi pc = true := by
  cases pc <;> simp_all [pastChk2, hasBi]

theorem inDc_of_pastChk2 (pc : Pc) (h : pastChk2 pc = true) : inDc pc = true := by
  cases pc <;> simp_all [pastChk2, inDc]

theorem pastChk2_quiet (l : L K V) (h : l.pc = .ret ∨ l.pc = .dcLoadTable ∨ l.pc = .rzCas ∨ l.pc = .ldTable ∨ l.pc = .dcFast
    ∨ l.pc = .szTable ∨ l.pc = .clTable ∨ l.pc = .rgTable) : pastChk2 l.pc = false := by
  rcases h with h | h | h | h | h | h | h | h <;> simp [pastChk2, h]

/-- how a step of the thread gets it past the second check of a writer: from `dcChkTable`, with `cur` unchanged -/
theorem pastChk2_step (p : Params K) (t : Tid) (g : G K V) (l : L K V) (c : Choice K V) (g' : G K V) (l' : L K V)
    (hs : tstep p t g l c = some (g', l')) (h : pastChk2 l'.pc = true) :
    l'.tbl = l.tbl ∧ (pastChk2 l.pc = true ∨ (l.pc = .dcChkTable ∧ g.cur = l.tbl)) := by
  have hP : pastChk2 (popCont l).pc = false := pastChk2_quiet _ (by have := (popCont_pc l).1; grind)
  have hS : ∀ (l : L K V) op, pastChk2 (startOp l op).pc = false :=
    fun l op => pastChk2_quiet _ (by have := (startOp_pc l op).1; grind)
  cases hpc : l.pc <;> simp only [tstep, hpc] at hs <;> (repeat' split at hs) <;>
    simp only [Option.some.injEq, reduceCtorEq, Prod.mk.injEq] at hs <;> obtain ⟨-, rfl⟩ := hs <;>
    simp_all [pastChk2, callResize, callWait]

/-- `cur` moves only at the publish step -/
theorem cur_step (p : Params K) (t : Tid) (g : G K V) (l : L K V) (c : Choice K V) (g' : G K V) (l' : L K V)
    (hmin : 0 < p.minLen) (hgd : GD g) (hd : LD p g l)
    (hs : tstep p t g l c = some (g', l')) : g'.cur = g.cur ∨ l.pc = .rzPublish := by
  by_cases h1 : l.pc = .dcCommit
  · obtain ⟨k0, nv, del, hk0, -⟩ := commit_shape p t g l c g' l' h1 hs
    exact Or.inl (commit_frame p t g l c g' l' h1 hs k0 hk0).1
  by_cases h2 : l.pc = .rzDecide ∨ l.pc = .rzDecideSum
  · obtain ⟨-, -, -, -, -, hcase⟩ := decide_shape p t g l c g' l' hmin (hgd.lenPos _) hd.shr h2 hs
    rcases hcase with ⟨e, -⟩ | ⟨len, -, hc, -⟩
    · rw [e]; exact Or.inl rfl
    · exact Or.inl hc
  by_cases h3 : l.pc = .rzCopyDo
  · simp only [tstep, h3, Option.some.injEq, Prod.mk.injEq] at hs
    obtain ⟨rfl, -⟩ := hs; exact Or.inl rfl
  by_cases h4 : l.pc = .rzPublish
  · exact Or.inr h4
  · exact Or.inl (quiet_sameD p t g l c g' l' h1 h2 h3 h4 hs).1

/-- the data of an allocated, published generation `T ≤ cur` changes only at a commit on `T` -/
theorem data_step (p : Params K) (t : Tid) (g : G K V) (l : L K V) (c : Choice K V) (g' : G K V) (l' : L K V)
    (hmin : 0 < p.minLen) (hgi : GI g) (hgd : GD g) (hd : LD p g l) (T : Nat) (hT : T ≤ g.cur)
    (hs : tstep p t g l c = some (g', l')) (hne : ¬ (l.pc = .dcCommit ∧ l.tbl = T)) :
    (g'.tables T).data = (g.tables T).data := by
  by_cases h1 : l.pc = .dcCommit
  · obtain ⟨k0, nv, del, hk0, -⟩ := commit_shape p t g l c g' l' h1 hs
    obtain ⟨-, -, -, hoth, -, -⟩ := commit_frame p t g l c g' l' h1 hs k0 hk0
    exact hoth T (fun e => hne ⟨h1, e.symm⟩)
  by_cases h2 : l.pc = .rzDecide ∨ l.pc = .rzDecideSum
  · obtain ⟨-, -, -, -, -, hcase⟩ := decide_shape p t g l c g' l' hmin (hgd.lenPos _) hd.shr h2 hs
    rcases hcase with ⟨e, -⟩ | ⟨len, -, -, -, -, hoth, -⟩
    · rw [e]
    · have := hgi.2
      rw [hoth T (by omega)]
  by_cases h3 : l.pc = .rzCopyDo
  · have hgt : g.cur < l.newT := hd.newGt (by rw [h3]; rfl)
    simp only [tstep, h3, Option.some.injEq, Prod.mk.injEq] at hs
    obtain ⟨rfl, -⟩ := hs
    simp only [setTbl, if_neg (show T ≠ l.newT by omega)]
  by_cases h4 : l.pc = .rzPublish
  · simp only [tstep, h4, Option.some.injEq, Prod.mk.injEq] at hs
    obtain ⟨rfl, -⟩ := hs; rfl
  · exact ((quiet_sameD p t g l c g' l' h1 h2 h3 h4 hs).2 T).2

/-- no writer past its checks works on the retired generation `T` -/
def NoStraggler (s : St K V) (T : Nat) : Prop :=
  T ≠ s.g.cur → ∀ w, pastChk2 (s.l w).pc = true → (s.l w).tbl ≠ T

/-- the absence of stragglers on `T` is preserved by every step, except the publish step of a `Clear` that retires `T` -/
theorem nos_step (p : Params K) (hmin : 0 < p.minLen) (s : St K V) (t : Tid) (c : Choice K V) (g' : G K V) (l' : L K V)
    (hi : Inv s) (hd : DInv p s) (heq : tstep p t s.g (s.l t) c = some (g', l')) (T : Nat)
    (hT : T ≤ s.g.cur) (hns : NoStraggler s T)
    (hnc : ¬ ((s.l t).pc = .rzPublish ∧ (s.l t).hint = .clear ∧ T = s.g.cur)) :
    NoStraggler { g := g', l := fun x => if x = t then l' else s.l x } T ∧ T ≤ g'.cur ∧
      (g'.cur = s.g.cur ∨ (s.l t).pc = .rzPublish) := by
  have hcur := cur_step p t s.g (s.l t) c g' l' hmin hd.gd (hd.ld t) heq
  -- `cur` only grows
  have hle : s.g.cur ≤ g'.cur := by
    rcases hcur with e | e
    · omega
    · have hgt : s.g.cur < (s.l t).newT := (hd.ld t).newGt (by rw [e]; rfl)
      simp only [tstep, e, Option.some.injEq, Prod.mk.injEq] at heq
      obtain ⟨rfl, -⟩ := heq
      exact Nat.le_of_lt hgt
  refine ⟨?_, by omega, hcur⟩
  intro hne w hw
  dsimp only at hne hw ⊢
  by_cases hwt : w = t
  · subst hwt
    rw [if_pos rfl] at hw ⊢
    obtain ⟨htbl, hor⟩ := pastChk2_step p w s.g (s.l w) c g' l' heq hw
    have hc : g'.cur = s.g.cur := by
      rcases hcur with e | e
      · exact e
      · rcases hor with h | ⟨h, -⟩ <;> rw [e] at h <;> simp [pastChk2] at h
    rw [htbl]
    rcases hor with h | ⟨-, h⟩
    · exact hns (by rw [← hc]; exact hne) w h
    · rw [← h, ← hc]; exact Ne.symm hne
  · rw [if_neg hwt] at hw ⊢
    rcases hcur with e | e
    · exact hns (by rw [← e]; exact hne) w hw
    · -- the publish step
      by_cases hTc : T = s.g.cur
      · by_cases hh : (s.l t).hint = .clear
        · exact absurd ⟨e, hh, hTc⟩ hnc
        · intro hwT
          have hrc : (s.l t).rtbl = s.g.cur := (hd.ld t).rcur (Or.inr e)
          have hfull := (hd.ld t).full e hh
          have hpair := hd.pair t w (s.l t).ci (by simp [copyC, e, hh]) (pastChk_of_pastChk2 _ hw)
            (by rw [hwT, hTc, hrc])
          have hop := (hi.2 w).wf.dcop (inDc_of_pastChk2 _ hw)
          obtain ⟨k', f, lie, co, hopk⟩ := isDcOp_cases _ hop
          have hkey : opKey (s.l w) = some k' := by rw [opKey_eq, hopk]; rfl
          have hbi := (hd.ld w).bkt (hasBi_of_pastChk2 _ hw) k' hkey
          have hlt : bucketOf p s.g (s.l w).tbl k' < (s.g.tables (s.l w).tbl).len :=
            Nat.mod_lt _ (hd.gd.lenPos _)
          rw [hwT, hTc] at hlt hbi
          rw [hrc] at hfull
          omega
      · exact hns hTc w hw

/-- a retired generation does not change any more (no stragglers; a commit goes to the table its writer checked) -/
theorem retired_data_step (p : Params K) (hmin : 0 < p.minLen) (s : St K V) (t : Tid) (c : Choice K V) (g' : G K V) (l' : L K V)
    (hi : Inv s) (hd : DInv p s) (heq : tstep p t s.g (s.l t) c = some (g', l')) (T : Nat)
    (hT : T ≤ s.g.cur) (hns : NoStraggler s T) (hne : T ≠ g'.cur) : (g'.tables T).data = (s.g.tables T).data := by
  refine data_step p t s.g (s.l t) c g' l' hmin hi.1 hd.gd (hd.ld t) T hT heq ?_
  intro hcm
  have hc : g'.cur = s.g.cur := by
    rcases cur_step p t s.g (s.l t) c g' l' hmin hd.gd (hd.ld t) heq with e | e
    · exact e
    · rw [hcm.1] at e; cases e
  exact absurd hcm.2 (hns (by rw [← hc]; exact hne) t (by rw [hcm.1]; rfl))

/-- **a generation retired by a grow or a shrink is frozen** (and one retired by `Clear` no longer binds the key in
the current table): as long as `k ↦ v` in the current table after the step, the binding of `k` in generation `T`
and the absence of stragglers on `T` are preserved by any step of any thread -/
theorem frozen_step (p : Params K) (hmin : 0 < p.minLen) (s s' : St K V) (t : Tid) (c : Choice K V)
    (hi : Inv s) (hd : DInv p s) (hs : step p s t c = some s') (T : Nat) (k : K) (v : V)
    (hT : T ≤ s.g.cur) (hns : NoStraggler s T) (hdata : (s.g.tables T).data.get k = some v)
    (habs' : absGet s'.g k = some v) :
    NoStraggler s' T ∧ (s'.g.tables T).data.get k = some v ∧ T ≤ s'.g.cur := by
  unfold step at hs
  split at hs
  · simp at hs
  · rename_i g' l' heq
    simp only [Option.some.injEq] at hs; subst hs
    dsimp only at habs' ⊢
    have hnc : ¬ ((s.l t).pc = .rzPublish ∧ (s.l t).hint = .clear ∧ T = s.g.cur) := by
      intro ⟨e, hh, hTc⟩
      have hclr := (hd.ld t).clr e hh
      simp only [tstep, e, Option.some.injEq, Prod.mk.injEq] at heq
      obtain ⟨rfl, -⟩ := heq
      unfold absGet at habs'
      dsimp only at habs'
      rw [hclr] at habs'
      cases habs'
    obtain ⟨hns', hle, hcur⟩ := nos_step p hmin s t c g' l' hi hd heq T hT hns hnc
    refine ⟨hns', ?_, hle⟩
    -- the binding of `k` in `T`
    by_cases hcm : (s.l t).pc = .dcCommit ∧ (s.l t).tbl = T
    · by_cases hTc : T = s.g.cur
      · have hc : g'.cur = s.g.cur := by
          rcases hcur with e | e
          · exact e
          · rw [hcm.1] at e; cases e
        unfold absGet at habs'
        rw [hc, ← hTc] at habs'
        exact habs'
      · exact absurd hcm.2 (hns hTc t (by rw [hcm.1]; rfl))
    · rw [data_step p t s.g (s.l t) c g' l' hmin hi.1 hd.gd (hd.ld t) T hT heq hcm]
      exact hdata

/-! ## progress of one traversal -/

theorem startOp_frames (l : L K V) (op : POp K V) : (startOp l op).frames = l.frames := (startOp_pc l op).2
theorem popCont_frames (l : L K V) : (popCont l).frames = l.frames := (popCont_pc l).2

/-- what a step does to the stack of suspended traversals: nothing, push (the visitor starts a nested call), or pop
(a nested call returns into the visitor) -/
theorem frames_step (p : Params K) (t : Tid) (g : G K V) (l : L K V) (c : Choice K V) (g' : G K V) (l' : L K V)
    (hs : tstep p t g l c = some (g', l')) :
    l'.frames = l.frames ∨
    (l.pc = .rgVisit ∧ l'.frames = { tbl := l.tbl, ri := l.ri, snap := l.snap, visited := l.visited } :: l.frames) ∨
    (l.pc = .ret ∧ ∃ f fs, l.frames = f :: fs ∧ l'.frames = fs ∧ l'.pc = .rgVisit ∧ l'.tbl = f.tbl ∧ l'.ri = f.ri ∧
      l'.snap = f.snap ∧ l'.visited = f.visited) := by
  have hP := popCont_frames l
  have hS := fun (l : L K V) op => startOp_frames l op
  cases hpc : l.pc <;> simp only [tstep, hpc] at hs <;> (repeat' split at hs) <;>
    simp only [Option.some.injEq, reduceCtorEq, Prod.mk.injEq] at hs <;> obtain ⟨-, rfl⟩ := hs <;>
    simp_all [callResize, callWait] <;> (try exact ⟨_, _, ⟨rfl, rfl⟩, rfl, rfl, rfl, rfl, rfl⟩)

/-- progress of the traversal at stack depth `d` of a thread towards the pair `e`, which lives in root bucket `b` of
the traversed generation `T`: either the pair has been handed over / is in the snapshot in hand, or bucket `b` has
not been snapshotted yet -/
def Prog (T b d : Nat) (e : K × V) (l : L K V) : Prop :=
  if l.frames.length = d then
    l.tbl = T ∧
    (((l.pc = .rgLock ∨ l.pc = .rgCopy) ∧ (e ∈ l.visited ∨ l.ri ≤ b)) ∨
     ((l.pc = .rgUnlock ∨ l.pc = .rgVisit) ∧ (e ∈ l.visited ++ l.snap ∨ l.ri < b)) ∨
     (l.pc = .ret ∧ ∃ π, l.result = some (.visits π) ∧ e ∈ π))
  else ∃ f, l.frames.reverse[d]? = some f ∧ f.tbl = T ∧ (e ∈ f.visited ++ f.snap ∨ f.ri < b)

theorem reverse_cons_get_lt {α : Type} (x : α) (l : List α) (d : Nat) (h : d < l.length) :
    (x :: l).reverse[d]? = l.reverse[d]? := by
  rw [List.reverse_cons, List.getElem?_append_left (by simpa using h)]

theorem reverse_cons_get_eq {α : Type} (x : α) (l : List α) : (x :: l).reverse[l.length]? = some x := by
  rw [List.reverse_cons, List.getElem?_append_right (by simp)]; simp

/-- one step of the traversing thread preserves the progress invariant, as long as the call at depth `d` has not
returned, the visitor does not stop the traversal, and - at the snapshot of bucket `b` - the pair is in that bucket -/
theorem prog_step (p : Params K) (t : Tid) (g : G K V) (l : L K V) (c : Choice K V) (g' : G K V) (l' : L K V)
    (T b d : Nat) (e : K × V) (hs : tstep p t g l c = some (g', l')) (hp : Prog T b d e l)
    (hnr : ¬ (l.pc = .ret ∧ l.frames.length = d)) (hcont : c.cont = true)
    (hlen : b < (g.tables T).len) (hin : e ∈ bucketEntries p g T b) : Prog T b d e l' := by
  unfold Prog at hp
  by_cases hd : l.frames.length = d
  · rw [if_pos hd] at hp
    obtain ⟨hT, hcase⟩ := hp
    rcases hcase with ⟨hpc | hpc, hm⟩ | ⟨hpc | hpc, hm⟩ | ⟨hpc, -⟩
    · -- rgLock
      simp only [tstep, hpc] at hs
      split at hs
      · split at hs
        · simp only [Option.some.injEq, Prod.mk.injEq] at hs; obtain ⟨-, rfl⟩ := hs
          unfold Prog; rw [if_pos hd]; exact ⟨hT, Or.inl ⟨Or.inr rfl, hm⟩⟩
        · simp at hs
      · rename_i hge
        simp only [Option.some.injEq, Prod.mk.injEq] at hs; obtain ⟨-, rfl⟩ := hs
        unfold Prog; rw [if_pos hd]
        refine ⟨hT, Or.inr (Or.inr ⟨rfl, l.visited, rfl, ?_⟩)⟩
        rcases hm with hm | hm
        · exact hm
        · rw [hT] at hge; omega
    · -- rgCopy
      simp only [tstep, hpc, Option.some.injEq, Prod.mk.injEq] at hs; obtain ⟨-, rfl⟩ := hs
      unfold Prog; rw [if_pos hd]
      refine ⟨hT, Or.inr (Or.inl ⟨Or.inl rfl, ?_⟩)⟩
      dsimp only
      rcases hm with hm | hm
      · exact Or.inl (List.mem_append_left _ hm)
      · by_cases hb : l.ri = b
        · rw [hT, hb]; exact Or.inl (List.mem_append_right _ hin)
        · exact Or.inr (by omega)
    · -- rgUnlock
      simp only [tstep, hpc, Option.some.injEq, Prod.mk.injEq] at hs; obtain ⟨-, rfl⟩ := hs
      unfold Prog; rw [if_pos hd]; exact ⟨hT, Or.inr (Or.inl ⟨Or.inr rfl, hm⟩)⟩
    · -- rgVisit
      simp only [tstep, hpc] at hs
      split at hs
      · -- the visitor starts a nested call
        simp only [Option.some.injEq, Prod.mk.injEq] at hs; obtain ⟨-, rfl⟩ := hs
        unfold Prog
        rw [startOp_frames]
        dsimp only
        rw [if_neg (by simp only [List.length_cons]; omega)]
        exact ⟨_, by rw [← hd]; exact reverse_cons_get_eq _ _, hT, hm⟩
      · split at hs
        · rename_i hsn
          simp only [Option.some.injEq, Prod.mk.injEq] at hs; obtain ⟨-, rfl⟩ := hs
          unfold Prog; rw [if_pos hd]
          refine ⟨hT, Or.inl ⟨Or.inl rfl, ?_⟩⟩
          dsimp only
          rw [hsn, List.append_nil] at hm
          rcases hm with hm | hm
          · exact Or.inl hm
          · exact Or.inr (by omega)
        · rename_i e0 rest hsn
          rw [if_pos hcont] at hs
          simp only [Option.some.injEq, Prod.mk.injEq] at hs; obtain ⟨-, rfl⟩ := hs
          unfold Prog; rw [if_pos hd]
          refine ⟨hT, Or.inr (Or.inl ⟨Or.inr rfl, ?_⟩)⟩
          dsimp only
          rw [hsn] at hm
          rcases hm with hm | hm
          · exact Or.inl (by simpa [List.append_assoc] using hm)
          · exact Or.inr hm
    · exact absurd ⟨hpc, hd⟩ hnr
  · rw [if_neg hd] at hp
    obtain ⟨f, hf, hfT, hm⟩ := hp
    have hlt : d < l.frames.length := by
      have := (List.getElem?_eq_some_iff.mp hf).1
      simpa using this
    rcases frames_step p t g l c g' l' hs with h | ⟨-, h⟩ | ⟨-, f0, fs, h0, h1, h2, h3, h4, h5, h6⟩
    · unfold Prog; rw [h, if_neg hd]; exact ⟨f, hf, hfT, hm⟩
    · unfold Prog; rw [h, if_neg (by simp only [List.length_cons]; omega)]
      exact ⟨f, by rw [reverse_cons_get_lt _ _ _ hlt]; exact hf, hfT, hm⟩
    · rw [h0] at hf hlt
      simp only [List.length_cons] at hlt
      by_cases hfd : fs.length = d
      · have : f = f0 := by
          rw [← hfd, reverse_cons_get_eq] at hf
          exact (Option.some.inj hf).symm
        subst this
        unfold Prog; rw [h1, if_pos hfd]
        exact ⟨by rw [h3]; exact hfT, Or.inr (Or.inl ⟨Or.inr h2, by rw [h4, h5, h6]; exact hm⟩)⟩
      · unfold Prog; rw [h1, if_neg hfd]
        exact ⟨f, by rw [← reverse_cons_get_lt f0 fs d (by omega)]; exact hf, hfT, hm⟩

/-! ## the window of one `Range` call -/

theorem step_cases (p : Params K) (s s' : St K V) (t : Tid) (c : Choice K V) (hs : step p s t c = some s') :
    ∃ g' l', tstep p t s.g (s.l t) c = some (g', l') ∧ s' = { g := g', l := fun x => if x = t then l' else s.l x } := by
  unfold step at hs
  split at hs
  · simp at hs
  · rename_i g' l' heq
    simp only [Option.some.injEq] at hs
    exact ⟨g', l', heq, hs.symm⟩

/-- what is known about generation `T`, which the traversal at depth `d` of thread `u` walks, and about the pair
`(k, v)` of its root bucket `b` -/
structure WInv (p : Params K) (u : Tid) (T b d : Nat) (k : K) (v : V) (s : St K V) : Prop where
  tle : T ≤ s.g.cur
  bk : bucketOf p s.g T k = b
  data : (s.g.tables T).data.get k = some v
  nos : NoStraggler s T
  prog : Prog T b d (k, v) (s.l u)

/-- the invariant of the window: `k ↦ v` in the current table, and the call either has not loaded the table pointer
yet or `WInv` holds for the generation it loaded -/
def RangeInv (p : Params K) (u : Tid) (d : Nat) (k : K) (v : V) (s : St K V) : Prop :=
  absGet s.g k = some v ∧
  (((s.l u).pc = .rgTable ∧ (s.l u).frames.length = d) ∨ ∃ T b, WInv p u T b d k v s)

theorem range_step (p : Params K) (hmin : 0 < p.minLen) (s s' : St K V) (t : Tid) (c : Choice K V) (u : Tid) (d : Nat)
    (k : K) (v : V) (hi : Inv s) (hd : DInv p s) (hr : RangeInv p u d k v s)
    (hnr : ¬ ((s.l u).pc = .ret ∧ (s.l u).frames.length = d)) (hs : step p s t c = some s')
    (hcont : t = u → c.cont = true) (habs' : absGet s'.g k = some v) : RangeInv p u d k v s' := by
  refine ⟨habs', ?_⟩
  obtain ⟨habs, hr⟩ := hr
  obtain ⟨g', l', heq, hs'⟩ := step_cases p s s' t c hs
  rcases hr with ⟨hpc, hfl⟩ | ⟨T, b, hw⟩
  · by_cases htu : t = u
    · subst htu
      right
      simp only [tstep, hpc, Option.some.injEq, Prod.mk.injEq] at heq
      obtain ⟨rfl, rfl⟩ := heq
      subst hs'
      refine ⟨s.g.cur, bucketOf p s.g s.g.cur k, ⟨Nat.le_refl _, rfl, habs, fun h => absurd rfl h, ?_⟩⟩
      dsimp only
      rw [if_pos rfl]
      unfold Prog
      rw [if_pos hfl]
      exact ⟨rfl, Or.inl ⟨Or.inl rfl, Or.inr (Nat.zero_le _)⟩⟩
    · left
      subst hs'
      dsimp only
      rw [if_neg (Ne.symm htu)]
      exact ⟨hpc, hfl⟩
  · right
    obtain ⟨hns, hdata, hle⟩ := frozen_step p hmin s s' t c hi hd hs T k v hw.tle hw.nos hw.data habs'
    have hTlt : T < s.g.ntables := Nat.lt_of_le_of_lt hw.tle hi.1.2
    have hlen := step_len p t s.g (s.l t) c g' l' heq T hTlt
    refine ⟨T, b, ⟨hle, ?_, hdata, hns, ?_⟩⟩
    · subst hs'
      dsimp only
      rw [bucketOf_congr p s.g g' T k hlen]; exact hw.bk
    · subst hs'
      dsimp only
      by_cases htu : t = u
      · subst htu
        rw [if_pos rfl]
        refine prog_step p t s.g (s.l t) c g' l' T b d (k, v) heq hw.prog hnr (hcont rfl) ?_ ?_
        · rw [← hw.bk]; exact Nat.mod_lt _ (hd.gd.lenPos _)
        · unfold bucketEntries
          exact List.mem_filter.mpr ⟨AMap.mem_of_get _ _ _ hw.data, by simp [hw.bk]⟩
      · rw [if_neg (Ne.symm htu)]; exact hw.prog

/-- **the window of one `Range` call** of thread `u` at visitor-nesting depth `d`: any steps of any threads, as long as
the call has not returned, the visitor of `u` never stops a traversal, and `k ↦ v` stays in the current table -/
inductive Window (p : Params K) (u : Tid) (d : Nat) (k : K) (v : V) : St K V → St K V → Prop
  | refl (s : St K V) : Window p u d k v s s
  | step (s s' s1 : St K V) (t : Tid) (c : Choice K V) :
      ¬ ((s.l u).pc = .ret ∧ (s.l u).frames.length = d) → Model.Proto.step p s t c = some s' →
      (t = u → c.cont = true) → absGet s'.g k = some v → Window p u d k v s' s1 → Window p u d k v s s1

theorem range_window (p : Params K) (hmin : 0 < p.minLen) (u : Tid) (d : Nat) (k : K) (v : V) (s s1 : St K V)
    (hw : Window p u d k v s s1) (hi : Inv s) (hd : DInv p s) (hr : RangeInv p u d k v s) :
    RangeInv p u d k v s1 := by
  induction hw with
  | refl s => exact hr
  | step s s' s1 t c hnr hs hcont habs _ ih =>
    exact ih (inv_step p s s' t c hi hs) (dinv_step p hmin s s' t c hi hd hs)
      (range_step p hmin s s' t c u d k v hi hd hr hnr hs hcont habs)

/-- **a traversal misses no entry that stays put** (every schedule, any number of threads, any hash function and table
sizes; grow, shrink and `Clear` running concurrently; the visitor calling back into the map): if thread `u` is about to
load the table pointer in `Range`, `(k, v)` is bound in the current table then and after every step until the call
returns, and the visitor never stops the traversal, then `(k, v)` is among the pairs handed to the visitor -/
theorem range_complete (p : Params K) (hmin : 0 < p.minLen) (u : Tid) (k : K) (v : V) (s0 s1 : St K V)
    (h0 : Reach p s0) (hpc : (s0.l u).pc = .rgTable) (hk : absGet s0.g k = some v)
    (hw : Window p u (s0.l u).frames.length k v s0 s1)
    (hret : (s1.l u).pc = .ret) (hdep : (s1.l u).frames.length = (s0.l u).frames.length) :
    ∃ π, (s1.l u).result = some (.visits π) ∧ (k, v) ∈ π := by
  have h1 := range_window p hmin u _ k v s0 s1 hw (inv_reach p s0 h0) (dinv_reach p hmin s0 h0)
    ⟨hk, Or.inl ⟨hpc, rfl⟩⟩
  obtain ⟨-, ⟨h, -⟩ | ⟨T, b, hw⟩⟩ := h1
  · rw [hret] at h; cases h
  · have hp := hw.prog
    unfold Prog at hp
    rw [if_pos hdep] at hp
    obtain ⟨-, ⟨h | h, -⟩ | ⟨h | h, -⟩ | ⟨-, π, h1, h2⟩⟩ := hp
    · rw [hret] at h; cases h
    · rw [hret] at h; cases h
    · rw [hret] at h; cases h
    · rw [hret] at h; cases h
    · exact ⟨π, h1, h2⟩

/-! ## the same, over the list of states the call went through -/

/-- `Trav p u d s sts s1`: `sts` are the states from `s` to `s1` (both included) of an execution fragment during which
the call of thread `u` at depth `d` does not return (except in `s1`) and the visitor of `u` never stops a traversal -/
inductive Trav (p : Params K) (u : Tid) (d : Nat) : St K V → List (St K V) → St K V → Prop
  | refl (s : St K V) : Trav p u d s [s] s
  | step (s s' s1 : St K V) (t : Tid) (c : Choice K V) (sts : List (St K V)) :
      ¬ ((s.l u).pc = .ret ∧ (s.l u).frames.length = d) → Model.Proto.step p s t c = some s' →
      (t = u → c.cont = true) → Trav p u d s' sts s1 → Trav p u d s (s :: sts) s1

theorem Trav.head_mem {p : Params K} {u : Tid} {d : Nat} {s s1 : St K V} {sts : List (St K V)}
    (h : Trav p u d s sts s1) : s ∈ sts := by
  cases h <;> simp

theorem Trav.window {p : Params K} {u : Tid} {d : Nat} {s s1 : St K V} {sts : List (St K V)}
    (h : Trav p u d s sts s1) (k : K) (v : V) (hall : ∀ σ ∈ sts, absGet σ.g k = some v) : Window p u d k v s s1 := by
  induction h with
  | refl s => exact Window.refl s
  | step s s' s1 t c sts hnr hs hcont htr ih =>
    have hsub : ∀ σ ∈ sts, absGet σ.g k = some v := fun σ hσ => hall σ (List.mem_cons_of_mem _ hσ)
    exact Window.step s s' s1 t c hnr hs hcont (hsub s' htr.head_mem) (ih hsub)

/-- completeness of a traversal over the states of its window -/
theorem trav_complete (p : Params K) (hmin : 0 < p.minLen) (u : Tid) (s0 s1 : St K V) (sts : List (St K V))
    (π : List (K × V)) (h0 : Reach p s0) (hpc : (s0.l u).pc = .rgTable)
    (htr : Trav p u (s0.l u).frames.length s0 sts s1)
    (hret : (s1.l u).pc = .ret) (hdep : (s1.l u).frames.length = (s0.l u).frames.length)
    (hres : (s1.l u).result = some (.visits π)) :
    ∀ k v, (∀ σ ∈ sts, absGet σ.g k = some v) → (k, v) ∈ π := by
  intro k v hall
  obtain ⟨π', h1, h2⟩ :=
    range_complete p hmin u k v s0 s1 h0 hpc (hall s0 htr.head_mem) (htr.window k v hall) hret hdep
  rw [hres] at h1
  cases h1
  exact h2

/-! ## the pairs handed over: no key twice -/

theorem popContAux_result (l : L K V) :
    (popCont.popContAux l).result = l.result ∨ (popCont.popContAux l).result = some .unit := by
  unfold popCont.popContAux; split <;> simp

theorem popCont_result (l : L K V) : (popCont l).result = l.result ∨ (popCont l).result = some .unit := by
  unfold popCont; split <;> (try split) <;> (try simp)
  rename_i cs _ _
  exact popContAux_result { l with conts := cs }

theorem startOp_result (l : L K V) (op : POp K V) : (startOp l op).result = none := by
  rcases op with _ | ⟨_, _, _ | _, _⟩ | _ | _ | _ <;> simp [startOp]

/-- the result register of a thread: unchanged, or not a list of visits, or the list of visits of the traversal that
ends with this step -/
theorem result_step (p : Params K) (t : Tid) (g : G K V) (l : L K V) (c : Choice K V) (g' : G K V) (l' : L K V)
    (hs : tstep p t g l c = some (g', l')) :
    l'.result = l.result ∨ (∀ π, l'.result ≠ some (.visits π)) ∨
    (l.pc = .rgLock ∧ l'.result = some (.visits l.visited)) ∨
    (l.pc = .rgVisit ∧ ∃ e rest, l.snap = e :: rest ∧ l'.result = some (.visits (l.visited ++ [e]))) := by
  have hP := popCont_result l
  have hS := fun (l : L K V) op => startOp_result l op
  cases hpc : l.pc <;> simp only [tstep, hpc] at hs <;> (repeat' split at hs) <;>
    simp only [Option.some.injEq, reduceCtorEq, Prod.mk.injEq] at hs <;> obtain ⟨-, rfl⟩ := hs <;>
    (try (rcases hP with hP | hP <;> simp_all [callResize, callWait]; done)) <;>
    simp_all [callResize, callWait]

/-- a list of visits in the result register holds no key twice -/
def ResOK (l : L K V) : Prop := ∀ π, l.result = some (.visits π) → (AMap.keys π).Nodup

theorem resOK_step (p : Params K) (t : Tid) (g : G K V) (l : L K V) (c : Choice K V) (g' : G K V) (l' : L K V)
    (hr : RD p g l) (ho : ResOK l) (hs : tstep p t g l c = some (g', l')) : ResOK l' := by
  intro π hπ
  rcases result_step p t g l c g' l' hs with h | h | ⟨hpc, h⟩ | ⟨hpc, e, rest, hsn, h⟩
  · exact ho π (by rw [← h]; exact hπ)
  · exact absurd hπ (h π)
  · rw [h] at hπ; cases hπ
    have := (hr.rg (by rw [hpc]; rfl)).1
    rw [(hr.rgl (Or.inl hpc)).1, List.append_nil] at this
    exact this
  · rw [h] at hπ; cases hπ
    have := (hr.rg (by rw [hpc]; rfl)).1
    rw [hsn, keys_append] at this
    rw [keys_append]
    refine List.Nodup.sublist ?_ this
    exact List.Sublist.append_left (by simp [AMap.keys]) _

theorem resOK_run (p : Params K) (hmin : 0 < p.minLen) (sched : List (Tid × Choice K V)) (s s' : St K V)
    (hi : Inv s) (hd : DInv p s) (hr : RInv p s) (ho : ∀ u, ResOK (s.l u)) (hrun : run p s sched = some s') :
    ∀ u, ResOK (s'.l u) := by
  induction sched generalizing s with
  | nil => simp only [run, Option.some.injEq] at hrun; subst hrun; exact ho
  | cons a rest ih =>
    obtain ⟨t, c⟩ := a
    simp only [run] at hrun
    split at hrun
    · rename_i s1 heq
      refine ih s1 (inv_step p s s1 t c hi heq) (dinv_step p hmin s s1 t c hi hd heq) (rinv_step p s s1 t c hi hd hr heq) ?_ hrun
      obtain ⟨g', l', hts, rfl⟩ := step_cases p s s1 t c heq
      intro u; dsimp only
      by_cases hu : u = t
      · rw [if_pos hu]; exact resOK_step p t s.g (s.l t) c g' l' (hr t) (ho t) hts
      · rw [if_neg hu]; exact ho u
    · simp at hrun

/-- **at most once per key, for the list a `Range` call returns** -/
theorem result_nodup (p : Params K) (hmin : 0 < p.minLen) (s : St K V) (h : Reach p s) (u : Tid) (π : List (K × V))
    (hres : (s.l u).result = some (.visits π)) : (AMap.keys π).Nodup := by
  obtain ⟨sched, hr⟩ := h
  exact resOK_run p hmin sched _ s (inv_init p) (dinv_init p hmin) (rinv_init p)
    (fun u π h => by simp [init, L.init] at h) hr u π hres

/-! ## the pairs handed over were bound in the map during the call (windows in which no `Clear` publishes) -/

/-- every pair the traversal at depth `d` has handed over, or holds in its snapshot, or returns, satisfies `Φ` -/
def FrameAll (Φ : K × V → Prop) (T d : Nat) (l : L K V) : Prop :=
  if l.frames.length = d then
    (rgPc l.pc = true ∧ l.tbl = T ∧ ∀ e ∈ l.visited ++ l.snap, Φ e) ∨
    (l.pc = .ret ∧ ∀ π, l.result = some (.visits π) → ∀ e ∈ π, Φ e)
  else ∃ f, l.frames.reverse[d]? = some f ∧ f.tbl = T ∧ ∀ e ∈ f.visited ++ f.snap, Φ e

theorem frameAll_mono (Φ Ψ : K × V → Prop) (h : ∀ e, Φ e → Ψ e) (T d : Nat) (l : L K V) (hf : FrameAll Φ T d l) :
    FrameAll Ψ T d l := by
  unfold FrameAll at hf ⊢
  split
  · rename_i hd
    rw [if_pos hd] at hf
    rcases hf with ⟨h1, h2, h3⟩ | ⟨h1, h2⟩
    · exact Or.inl ⟨h1, h2, fun e he => h e (h3 e he)⟩
    · exact Or.inr ⟨h1, fun π hπ e he => h e (h2 π hπ e he)⟩
  · rename_i hd
    rw [if_neg hd] at hf
    obtain ⟨f, h1, h2, h3⟩ := hf
    exact ⟨f, h1, h2, fun e he => h e (h3 e he)⟩

/-- one step of the traversing thread preserves `FrameAll`, as long as the call at depth `d` has not returned and the
entries of a bucket of `T` satisfy `Φ` at the moment it is snapshotted -/
theorem frameAll_step (p : Params K) (t : Tid) (g : G K V) (l : L K V) (c : Choice K V) (g' : G K V) (l' : L K V)
    (Φ : K × V → Prop) (T d : Nat) (hs : tstep p t g l c = some (g', l')) (hp : FrameAll Φ T d l)
    (hnr : ¬ (l.pc = .ret ∧ l.frames.length = d))
    (hcopy : l.pc = .rgCopy → l.frames.length = d → ∀ e ∈ bucketEntries p g T l.ri, Φ e) : FrameAll Φ T d l' := by
  unfold FrameAll at hp
  by_cases hd : l.frames.length = d
  · rw [if_pos hd] at hp
    rcases hp with ⟨hrg, hT, hm⟩ | ⟨hpc, -⟩
    · cases hpc : l.pc <;> rw [hpc] at hrg <;> simp only [rgPc, reduceCtorEq] at hrg
      · -- rgLock
        simp only [tstep, hpc] at hs
        split at hs
        · split at hs
          · simp only [Option.some.injEq, Prod.mk.injEq] at hs; obtain ⟨-, rfl⟩ := hs
            unfold FrameAll; rw [if_pos hd]; exact Or.inl ⟨rfl, hT, hm⟩
          · simp at hs
        · simp only [Option.some.injEq, Prod.mk.injEq] at hs; obtain ⟨-, rfl⟩ := hs
          unfold FrameAll; rw [if_pos hd]
          refine Or.inr ⟨rfl, fun π hπ e he => ?_⟩
          simp only [Option.some.injEq, Ret.visits.injEq] at hπ
          subst hπ
          exact hm e (List.mem_append_left _ he)
      · -- rgCopy
        simp only [tstep, hpc, Option.some.injEq, Prod.mk.injEq] at hs; obtain ⟨-, rfl⟩ := hs
        unfold FrameAll; rw [if_pos hd]
        refine Or.inl ⟨rfl, hT, fun e he => ?_⟩
        dsimp only at he
        rcases List.mem_append.mp he with he | he
        · exact hm e (List.mem_append_left _ he)
        · rw [hT] at he; exact hcopy hpc hd e he
      · -- rgUnlock
        simp only [tstep, hpc, Option.some.injEq, Prod.mk.injEq] at hs; obtain ⟨-, rfl⟩ := hs
        unfold FrameAll; rw [if_pos hd]; exact Or.inl ⟨rfl, hT, hm⟩
      · -- rgVisit
        simp only [tstep, hpc] at hs
        split at hs
        · simp only [Option.some.injEq, Prod.mk.injEq] at hs; obtain ⟨-, rfl⟩ := hs
          unfold FrameAll
          rw [startOp_frames]
          dsimp only
          rw [if_neg (by simp only [List.length_cons]; omega)]
          exact ⟨_, by rw [← hd]; exact reverse_cons_get_eq _ _, hT, hm⟩
        · split at hs
          · simp only [Option.some.injEq, Prod.mk.injEq] at hs; obtain ⟨-, rfl⟩ := hs
            unfold FrameAll; rw [if_pos hd]; exact Or.inl ⟨rfl, hT, hm⟩
          · rename_i e0 rest hsn
            rw [hsn] at hm
            have hm' : ∀ e ∈ (l.visited ++ [e0]) ++ rest, Φ e := by
              intro e he; exact hm e (by simpa [List.append_assoc] using he)
            split at hs <;> simp only [Option.some.injEq, Prod.mk.injEq] at hs <;> obtain ⟨-, rfl⟩ := hs
            · unfold FrameAll; rw [if_pos hd]; exact Or.inl ⟨rfl, hT, hm'⟩
            · unfold FrameAll; rw [if_pos hd]
              refine Or.inr ⟨rfl, fun π hπ e he => ?_⟩
              simp only [Option.some.injEq, Ret.visits.injEq] at hπ
              subst hπ
              exact hm' e (List.mem_append_left _ he)
    · exact absurd ⟨hpc, hd⟩ hnr
  · rw [if_neg hd] at hp
    obtain ⟨f, hf, hfT, hm⟩ := hp
    have hlt : d < l.frames.length := by
      have := (List.getElem?_eq_some_iff.mp hf).1
      simpa using this
    rcases frames_step p t g l c g' l' hs with h | ⟨-, h⟩ | ⟨-, f0, fs, h0, h1, h2, h3, h4, h5, h6⟩
    · unfold FrameAll; rw [h, if_neg hd]; exact ⟨f, hf, hfT, hm⟩
    · unfold FrameAll; rw [h, if_neg (by simp only [List.length_cons]; omega)]
      exact ⟨f, by rw [reverse_cons_get_lt _ _ _ hlt]; exact hf, hfT, hm⟩
    · rw [h0] at hf hlt
      simp only [List.length_cons] at hlt
      by_cases hfd : fs.length = d
      · have : f = f0 := by
          rw [← hfd, reverse_cons_get_eq] at hf
          exact (Option.some.inj hf).symm
        subst this
        unfold FrameAll; rw [h1, if_pos hfd]
        exact Or.inl ⟨by rw [h2]; rfl, by rw [h3]; exact hfT, by rw [h5, h6]; exact hm⟩
      · unfold FrameAll; rw [h1, if_neg hfd]
        exact ⟨f, by rw [← reverse_cons_get_lt f0 fs d (by omega)]; exact hf, hfT, hm⟩

/-- the resizer, if there is one, is not about to publish the empty table of a `Clear` -/
def NoClearPublish (s : St K V) : Prop := ∀ w, s.g.resizer = some w → (s.l w).pc = .rzPublish → (s.l w).hint ≠ .clear

/-- "was bound in the current table in one of the states seen so far" -/
def Seen (seen : List (St K V)) (e : K × V) : Prop := ∃ σ ∈ seen, absGet σ.g e.1 = some e.2

structure RealW (p : Params K) (u : Tid) (T d : Nat) (seen : List (St K V)) (s : St K V) : Prop where
  tle : T ≤ s.g.cur
  nos : NoStraggler s T
  frozen : T ≠ s.g.cur → ∃ σ ∈ seen, ∀ k, absGet σ.g k = (s.g.tables T).data.get k
  fr : FrameAll (Seen seen) T d (s.l u)

def RealInv (p : Params K) (u : Tid) (d : Nat) (seen : List (St K V)) (s : St K V) : Prop :=
  ((s.l u).pc = .rgTable ∧ (s.l u).frames.length = d) ∨ ∃ T, RealW p u T d seen s

theorem real_step (p : Params K) (hmin : 0 < p.minLen) (s s' : St K V) (t : Tid) (c : Choice K V) (u : Tid) (d : Nat)
    (seen : List (St K V)) (hi : Inv s) (hd : DInv p s) (hri : RInv p s) (hseen : s ∈ seen)
    (hr : RealInv p u d seen s) (hnr : ¬ ((s.l u).pc = .ret ∧ (s.l u).frames.length = d))
    (hnc : NoClearPublish s) (hs : step p s t c = some s') : RealInv p u d (seen ++ [s']) s' := by
  obtain ⟨g', l', heq, hs'⟩ := step_cases p s s' t c hs
  rcases hr with ⟨hpc, hfl⟩ | ⟨T, hw⟩
  · by_cases htu : t = u
    · subst htu
      right
      have hsn := (hri t).rgt hpc
      simp only [tstep, hpc, Option.some.injEq, Prod.mk.injEq] at heq
      obtain ⟨rfl, rfl⟩ := heq
      subst hs'
      refine ⟨s.g.cur, ⟨Nat.le_refl _, fun h => absurd rfl h, fun h => absurd rfl h, ?_⟩⟩
      dsimp only
      rw [if_pos rfl]
      unfold FrameAll
      rw [if_pos hfl]
      refine Or.inl ⟨rfl, rfl, fun e he => ?_⟩
      dsimp only at he
      rw [hsn] at he
      cases he
    · left
      subst hs'
      dsimp only
      rw [if_neg (Ne.symm htu)]
      exact ⟨hpc, hfl⟩
  · right
    have hncT : ¬ ((s.l t).pc = .rzPublish ∧ (s.l t).hint = .clear ∧ T = s.g.cur) :=
      fun ⟨e, hh, _⟩ => hnc t ((hi.2 t).rsz.mpr (by rw [e]; rfl)) e hh
    obtain ⟨hns', hle, hcur⟩ := nos_step p hmin s t c g' l' hi hd heq T hw.tle hw.nos hncT
    have hret := retired_data_step p hmin s t c g' l' hi hd heq T hw.tle hw.nos
    subst hs'
    refine ⟨T, ⟨hle, hns', ?_, ?_⟩⟩
    · intro hne
      dsimp only at hne ⊢
      rw [hret hne]
      by_cases hTc : T = s.g.cur
      · exact ⟨s, List.mem_append_left _ hseen, fun k => by unfold absGet; rw [← hTc]⟩
      · obtain ⟨σ, hσ, h⟩ := hw.frozen hTc
        exact ⟨σ, List.mem_append_left _ hσ, h⟩
    · dsimp only
      have hmono : FrameAll (Seen (seen ++ [{ g := g', l := fun x => if x = t then l' else s.l x }])) T d (s.l u) :=
        frameAll_mono _ _ (fun e ⟨σ, hσ, h⟩ => ⟨σ, List.mem_append_left _ hσ, h⟩) T d _ hw.fr
      by_cases htu : t = u
      · subst htu
        rw [if_pos rfl]
        refine frameAll_step p t s.g (s.l t) c g' l' _ T d heq hmono hnr ?_
        intro hpc hdd e he
        have hget : (s.g.tables T).data.get e.1 = some e.2 :=
          AMap.get_of_mem _ (hd.gd.wf T) e.1 e.2 (List.mem_filter.mp he).1
        by_cases hTc : T = s.g.cur
        · exact ⟨s, List.mem_append_left _ hseen, by unfold absGet; rw [← hTc]; exact hget⟩
        · obtain ⟨σ, hσ, h⟩ := hw.frozen hTc
          exact ⟨σ, List.mem_append_left _ hσ, by rw [h]; exact hget⟩
      · rw [if_neg (Ne.symm htu)]; exact hmono

theorem real_trav (p : Params K) (hmin : 0 < p.minLen) (u : Tid) (d : Nat) (s s1 : St K V) (sts : List (St K V))
    (htr : Trav p u d s sts s1) (hncs : ∀ σ ∈ sts, NoClearPublish σ) (pre : List (St K V))
    (hi : Inv s) (hd : DInv p s) (hri : RInv p s) (hr : RealInv p u d (pre ++ [s]) s) :
    RealInv p u d (pre ++ sts) s1 := by
  induction htr generalizing pre with
  | refl s => exact hr
  | step s s' s1 t c sts hnr hs hcont htr ih =>
    have h1 := real_step p hmin s s' t c u d (pre ++ [s]) hi hd hri (by simp) hr hnr
      (hncs s (by simp)) hs
    have := ih (fun σ hσ => hncs σ (List.mem_cons_of_mem _ hσ)) (pre ++ [s]) (inv_step p s s' t c hi hs)
      (dinv_step p hmin s s' t c hi hd hs) (rinv_step p s s' t c hi hd hri hs) h1
    simpa [List.append_assoc] using this

/-- **only real entries, partial: windows in which no `Clear` publishes its empty table.**  Every pair a `Range` call
returns was bound to that key in the current table in one of the states the call went through.  (A `Clear` that
publishes during the call lets a writer that had already passed its checks commit into the retired generation; the
traversal may then hand over that pair, which the helping step of `Clear` linearizes *before* the `Clear`
(`ProtoLin`), but which the current table never held.) -/
theorem trav_real_partial (p : Params K) (hmin : 0 < p.minLen) (u : Tid) (s0 s1 : St K V) (sts : List (St K V))
    (π : List (K × V)) (h0 : Reach p s0) (hpc : (s0.l u).pc = .rgTable)
    (htr : Trav p u (s0.l u).frames.length s0 sts s1) (hncs : ∀ σ ∈ sts, NoClearPublish σ)
    (hret : (s1.l u).pc = .ret) (hdep : (s1.l u).frames.length = (s0.l u).frames.length)
    (hres : (s1.l u).result = some (.visits π)) :
    ∀ e ∈ π, ∃ σ ∈ sts, absGet σ.g e.1 = some e.2 := by
  have h1 := real_trav p hmin u _ s0 s1 sts htr hncs [] (inv_reach p s0 h0) (dinv_reach p hmin s0 h0)
    (rinv_reach p hmin s0 h0) (Or.inl ⟨hpc, rfl⟩)
  rw [List.nil_append] at h1
  rcases h1 with ⟨h, -⟩ | ⟨T, hw⟩
  · rw [hret] at h; cases h
  · have hf := hw.fr
    unfold FrameAll at hf
    rw [if_pos hdep] at hf
    rcases hf with ⟨h, -⟩ | ⟨-, h⟩
    · rw [hret] at h; cases h
    · exact h π hres

/-! ## no phantom: every pair handed over was stored by a writer (all schedules, `Clear` included) -/

/-- the pair a step of a thread at `dcCommit` stores (none if the step deletes or is not a commit) -/
def commitOf (l : L K V) : Option (K × V) :=
  if l.pc = .dcCommit then
    match opKey l, l.fnres with
    | some k, some (nv, false) => some (k, nv)
    | _, _ => none
  else none

/-- the pairs stored by the commit steps of a run -/
def commits (p : Params K) : St K V → List (Tid × Choice K V) → List (K × V)
  | _, [] => []
  | s, (t, c) :: rest =>
    match Model.Proto.step p s t c with
    | some s' => (commitOf (s.l t)).toList ++ commits p s' rest
    | none => []

theorem mem_erase_sub (m : AMap K V) (k : K) (e : K × V) (h : e ∈ m.erase k) : e ∈ m :=
  (List.mem_filter.mp h).1

theorem mem_set_sub (m : AMap K V) (k : K) (v : V) (e : K × V) (h : e ∈ m.set k v) : e = (k, v) ∨ e ∈ m := by
  unfold AMap.set at h
  rcases List.mem_cons.mp h with h | h
  · exact Or.inl h
  · exact Or.inr (mem_erase_sub m k e h)

theorem mem_copyInto_sub (d : AMap K V) (es : List (K × V)) (e : K × V) (h : e ∈ copyInto d es) : e ∈ d ∨ e ∈ es := by
  induction es generalizing d with
  | nil => exact Or.inl h
  | cons x xs ih =>
    rw [copyInto_cons] at h
    rcases ih _ h with h1 | h1
    · rcases mem_set_sub d x.1 x.2 e h1 with h2 | h2
      · exact Or.inr (by rw [h2]; exact List.mem_cons_self)
      · exact Or.inl h2
    · exact Or.inr (List.mem_cons_of_mem _ h1)

/-- the pairs a thread holds in its traversal registers all belong to `C` -/
structure LProv (C : List (K × V)) (l : L K V) : Prop where
  vis : ∀ e ∈ l.visited, e ∈ C
  snap : ∀ e ∈ l.snap, e ∈ C
  fr : ∀ f ∈ l.frames, (∀ e ∈ f.visited, e ∈ C) ∧ (∀ e ∈ f.snap, e ∈ C)
  res : ∀ π, l.result = some (.visits π) → ∀ e ∈ π, e ∈ C

theorem lprov_mono (C D : List (K × V)) (h : ∀ e ∈ C, e ∈ D) (l : L K V) (hl : LProv C l) : LProv D l :=
  ⟨fun e he => h e (hl.vis e he), fun e he => h e (hl.snap e he),
   fun f hf => ⟨fun e he => h e ((hl.fr f hf).1 e he), fun e he => h e ((hl.fr f hf).2 e he)⟩,
   fun π hπ e he => h e (hl.res π hπ e he)⟩

theorem popContAux_regs (l : L K V) :
    (popCont.popContAux l).visited = l.visited ∧ (popCont.popContAux l).snap = l.snap := by
  unfold popCont.popContAux; split <;> simp

theorem popCont_regs (l : L K V) : (popCont l).visited = l.visited ∧ (popCont l).snap = l.snap := by
  unfold popCont; split <;> (try split) <;> (try simp)
  rename_i cs _ _
  exact popContAux_regs { l with conts := cs }

theorem startOp_vis (l : L K V) (op : POp K V) (e : K × V) (h : e ∈ (startOp l op).visited) : e ∈ l.visited := by
  rcases op with _ | ⟨_, _, _ | _, _⟩ | _ | _ | _ <;> simp [startOp] at h <;> exact h

theorem startOp_snap (l : L K V) (op : POp K V) (e : K × V) (h : e ∈ (startOp l op).snap) : e ∈ l.snap := by
  rcases op with _ | ⟨_, _, _ | _, _⟩ | _ | _ | _ <;> simp [startOp] at h <;> exact h

/-- where the pairs in the `visited` register of the stepping thread come from -/
theorem vis_step (p : Params K) (t : Tid) (g : G K V) (l : L K V) (c : Choice K V) (g' : G K V) (l' : L K V)
    (hs : tstep p t g l c = some (g', l')) (e : K × V) (he : e ∈ l'.visited) :
    e ∈ l.visited ∨ e ∈ l.snap ∨ ∃ f ∈ l.frames, e ∈ f.visited := by
  have hP := (popCont_regs l).1
  have hS := fun (l : L K V) op => startOp_vis l op e
  cases hpc : l.pc <;> simp only [tstep, hpc] at hs <;> (repeat' split at hs) <;>
    simp only [Option.some.injEq, reduceCtorEq, Prod.mk.injEq] at hs <;> obtain ⟨-, rfl⟩ := hs <;>
    first
    | exact Or.inl he
    | exact Or.inl (hS _ _ he)
    | (rw [hP] at he; exact Or.inl he)
    | (simp_all [callResize, callWait]; done)
    | (have := hS _ _ he; exact Or.inl this)
    | (simp only [List.mem_append, List.mem_singleton, List.mem_cons] at he; grind)

/-- where the pairs in the `snap` register of the stepping thread come from -/
theorem snap_step (p : Params K) (t : Tid) (g : G K V) (l : L K V) (c : Choice K V) (g' : G K V) (l' : L K V)
    (hs : tstep p t g l c = some (g', l')) (e : K × V) (he : e ∈ l'.snap) :
    e ∈ l.snap ∨ e ∈ bucketEntries p g l.tbl l.ri ∨ ∃ f ∈ l.frames, e ∈ f.snap := by
  have hP := (popCont_regs l).2
  have hS := fun (l : L K V) op => startOp_snap l op e
  cases hpc : l.pc <;> simp only [tstep, hpc] at hs <;> (repeat' split at hs) <;>
    simp only [Option.some.injEq, reduceCtorEq, Prod.mk.injEq] at hs <;> obtain ⟨-, rfl⟩ := hs <;>
    first
    | exact Or.inl he
    | exact Or.inl (hS _ _ he)
    | (rw [hP] at he; exact Or.inl he)
    | (simp_all [callResize, callWait]; done)
    | (have := hS _ _ he; exact Or.inl this)
    | (simp only [List.mem_append, List.mem_singleton, List.mem_cons] at he; grind)

/-- the traversal registers of the stepping thread stay inside `C`, given that the bucket it snapshots does -/
theorem lprov_step (p : Params K) (t : Tid) (g : G K V) (l : L K V) (c : Choice K V) (g' : G K V) (l' : L K V)
    (C : List (K × V)) (hs : tstep p t g l c = some (g', l')) (hl : LProv C l)
    (hb : ∀ e ∈ bucketEntries p g l.tbl l.ri, e ∈ C) : LProv C l' := by
  refine ⟨fun e he => ?_, fun e he => ?_, fun f hf => ?_, fun π hπ e he => ?_⟩
  · rcases vis_step p t g l c g' l' hs e he with h | h | ⟨f, hf, h⟩
    · exact hl.vis e h
    · exact hl.snap e h
    · exact (hl.fr f hf).1 e h
  · rcases snap_step p t g l c g' l' hs e he with h | h | ⟨f, hf, h⟩
    · exact hl.snap e h
    · exact hb e h
    · exact (hl.fr f hf).2 e h
  · rcases frames_step p t g l c g' l' hs with h | ⟨-, h⟩ | ⟨-, f0, fs, h0, h1, -⟩
    · exact hl.fr f (by rw [← h]; exact hf)
    · rw [h] at hf
      rcases List.mem_cons.mp hf with rfl | hf
      · exact ⟨hl.vis, hl.snap⟩
      · exact hl.fr f hf
    · exact hl.fr f (by rw [h0]; exact List.mem_cons_of_mem _ (by rw [← h1]; exact hf))
  · rcases result_step p t g l c g' l' hs with h | h | ⟨-, h⟩ | ⟨-, e0, rest, hsn, h⟩
    · exact hl.res π (by rw [← h]; exact hπ) e he
    · exact absurd hπ (h π)
    · rw [h] at hπ; cases hπ; exact hl.vis e he
    · rw [h] at hπ; cases hπ
      rcases List.mem_append.mp he with he | he
      · exact hl.vis e he
      · exact hl.snap e (by rw [hsn]; simp at he; rw [he]; exact List.mem_cons_self)

/-- the provenance invariant of a state, relative to a list `C` of pairs: whatever is in a table generation or in a
traversal register is in `C` -/
def Prov (C : List (K × V)) (s : St K V) : Prop :=
  (∀ T, ∀ e ∈ (s.g.tables T).data, e ∈ C) ∧ ∀ u, LProv C (s.l u)

/-- what a step adds to the tables comes from the tables or is the pair the commit stores -/
theorem data_prov_step (p : Params K) (hmin : 0 < p.minLen) (t : Tid) (g : G K V) (l : L K V) (c : Choice K V) (g' : G K V)
    (l' : L K V) (hgd : GD g) (hd : LD p g l) (hs : tstep p t g l c = some (g', l')) (T : Nat) (e : K × V)
    (he : e ∈ (g'.tables T).data) : (∃ T0, e ∈ (g.tables T0).data) ∨ commitOf l = some e := by
  by_cases h1 : l.pc = .dcCommit
  · obtain ⟨k, nv, del, hk, hf, -, -, -, hcase⟩ := commit_shape p t g l c g' l' h1 hs
    rcases hcase with ⟨ov, -, -, -, e1⟩ | ⟨ov, -, hdel, -, e1⟩ | ⟨-, -, -, e1⟩ | ⟨-, hdel, -, e1⟩
    · subst e1
      left
      simp only [setTbl] at he
      split at he
      · exact ⟨_, mem_erase_sub _ _ _ he⟩
      · exact ⟨_, he⟩
    · subst e1
      simp only [setTbl] at he
      split at he
      · rcases mem_set_sub _ _ _ _ he with h | h
        · right; subst hdel; simp [commitOf, h1, hk, hf, h]
        · exact Or.inl ⟨_, h⟩
      · exact Or.inl ⟨_, he⟩
    · subst e1; exact Or.inl ⟨_, he⟩
    · subst e1
      simp only [setTbl] at he
      split at he
      · rcases mem_set_sub _ _ _ _ he with h | h
        · right; subst hdel; simp [commitOf, h1, hk, hf, h]
        · exact Or.inl ⟨_, h⟩
      · exact Or.inl ⟨_, he⟩
  left
  by_cases h2 : l.pc = .rzDecide ∨ l.pc = .rzDecideSum
  · obtain ⟨-, -, -, -, -, hcase⟩ := decide_shape p t g l c g' l' hmin (hgd.lenPos _) hd.shr h2 hs
    rcases hcase with ⟨e1, -⟩ | ⟨len, -, -, -, hnew, hoth, -⟩
    · subst e1; exact ⟨_, he⟩
    · by_cases hT : T = g.ntables
      · subst hT; rw [hnew] at he; simp [emptyTbl] at he
      · rw [hoth T hT] at he; exact ⟨_, he⟩
  by_cases h3 : l.pc = .rzCopyDo
  · simp only [tstep, h3, Option.some.injEq, Prod.mk.injEq] at hs
    obtain ⟨rfl, -⟩ := hs
    simp only [setTbl] at he
    split at he
    · rcases mem_copyInto_sub _ _ _ he with h | h
      · exact ⟨_, by simpa [PTbl.addCtr] using h⟩
      · exact ⟨_, (List.mem_filter.mp h).1⟩
    · exact ⟨_, he⟩
  by_cases h4 : l.pc = .rzPublish
  · simp only [tstep, h4, Option.some.injEq, Prod.mk.injEq] at hs
    obtain ⟨rfl, -⟩ := hs; exact ⟨_, he⟩
  · rw [((quiet_sameD p t g l c g' l' h1 h2 h3 h4 hs).2 T).2] at he; exact ⟨_, he⟩

theorem prov_step (p : Params K) (hmin : 0 < p.minLen) (s s' : St K V) (t : Tid) (c : Choice K V) (C : List (K × V))
    (hd : DInv p s) (hp : Prov C s) (hs : step p s t c = some s') :
    Prov (C ++ (commitOf (s.l t)).toList) s' := by
  obtain ⟨g', l', heq, rfl⟩ := step_cases p s s' t c hs
  have hsub : ∀ e ∈ C, e ∈ C ++ (commitOf (s.l t)).toList := fun e he => List.mem_append_left _ he
  refine ⟨fun T e he => ?_, fun u => ?_⟩
  · rcases data_prov_step p hmin t s.g (s.l t) c g' l' hd.gd (hd.ld t) heq T e he with ⟨T0, h⟩ | h
    · exact hsub e (hp.1 T0 e h)
    · exact List.mem_append_right _ (by rw [h]; simp)
  · dsimp only
    by_cases hu : u = t
    · rw [if_pos hu]
      exact lprov_mono _ _ hsub _ (lprov_step p t s.g (s.l t) c g' l' C heq (hp.2 t)
        (fun e he => hp.1 _ e (List.mem_filter.mp he).1))
    · rw [if_neg hu]; exact lprov_mono _ _ hsub _ (hp.2 u)

theorem prov_run (p : Params K) (hmin : 0 < p.minLen) (sched : List (Tid × Choice K V)) (s s' : St K V) (C : List (K × V))
    (hi : Inv s) (hd : DInv p s) (hp : Prov C s) (hrun : run p s sched = some s') :
    Prov (C ++ commits p s sched) s' := by
  induction sched generalizing s C with
  | nil => simp only [run, Option.some.injEq] at hrun; subst hrun; simpa [commits] using hp
  | cons a rest ih =>
    obtain ⟨t, c⟩ := a
    simp only [run] at hrun
    split at hrun
    · rename_i s1 heq
      have := ih s1 _ (inv_step p s s1 t c hi heq) (dinv_step p hmin s s1 t c hi hd heq)
        (prov_step p hmin s s1 t c C hd hp heq) hrun
      simpa [commits, heq, List.append_assoc] using this
    · simp at hrun

/-- **no phantom** (every schedule, `Clear` included): every pair in the list a `Range` call returns, in a snapshot or in
any table generation was stored by the commit step of a writer - `Store`, `LoadOrStore`, `Compute`, … - earlier in
the run, under that very key -/
theorem range_no_phantom (p : Params K) (hmin : 0 < p.minLen) (sched : List (Tid × Choice K V)) (s : St K V)
    (hrun : run p (init p) sched = some s) (u : Tid) (π : List (K × V))
    (hres : (s.l u).result = some (.visits π)) : ∀ e ∈ π, e ∈ commits p (init p) sched := by
  have h := prov_run p hmin sched (init p) s [] (inv_init p) (dinv_init p hmin)
    ⟨fun T e he => by simp [init, emptyTbl] at he,
     fun u => ⟨fun e he => by simp [init, L.init] at he, fun e he => by simp [init, L.init] at he,
       fun f hf => by simp [init, L.init] at hf, fun π hπ => by simp [init, L.init] at hπ⟩⟩ hrun
  rw [List.nil_append] at h
  exact fun e he => (h.2 u).res π hres e he

/-! ## an executable recogniser of windows (for concrete examples) -/

/-- runs a schedule, checking the side conditions of `Trav` before every step; returns the states gone through and
the last one -/
def travRun (p : Params K) (u : Tid) (d : Nat) : St K V → List (Tid × Choice K V) → Option (List (St K V) × St K V)
  | s, [] => some ([s], s)
  | s, (t, c) :: rest =>
    if (s.l u).pc = .ret ∧ (s.l u).frames.length = d then none
    else if t = u ∧ c.cont = false then none
    else match Model.Proto.step p s t c with
      | none => none
      | some s' =>
        match travRun p u d s' rest with
        | none => none
        | some (sts, s1) => some (s :: sts, s1)

theorem travRun_sound (p : Params K) (u : Tid) (d : Nat) (sched : List (Tid × Choice K V)) (s s1 : St K V)
    (sts : List (St K V)) (h : travRun p u d s sched = some (sts, s1)) : Trav p u d s sts s1 := by
  induction sched generalizing s sts with
  | nil =>
    simp only [travRun, Option.some.injEq, Prod.mk.injEq] at h
    obtain ⟨rfl, rfl⟩ := h
    exact Trav.refl s
  | cons a rest ih =>
    obtain ⟨t, c⟩ := a
    simp only [travRun] at h
    split at h
    · simp at h
    · rename_i hnr
      split at h
      · simp at h
      · rename_i hc
        split at h
        · simp at h
        · rename_i s' hs
          split at h
          · simp at h
          · rename_i sts' s1' hrec
            simp only [Option.some.injEq, Prod.mk.injEq] at h
            obtain ⟨rfl, rfl⟩ := h
            refine Trav.step s s' s1' t c sts' hnr hs (fun htu => ?_) (ih s' sts' hrec)
            cases hcc : c.cont
            · exact absurd ⟨htu, hcc⟩ hc
            · rfl

end Proofs.ProtoRange
