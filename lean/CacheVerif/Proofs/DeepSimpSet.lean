import CacheVerif.Deep.Step
import CacheVerif.Generated.DeepSimp
import CacheVerif.Model.CacheOf
/-! the definitions of the interpreter join the simp set used for its symbolic evaluation -/
open Deep Spec
attribute [deep_simp] deepStep encode decode runMethod FUEL ofSt stOf callDecl callVal callUser execL execS
  execInit evalE evalArgs evalFields itemsOp FuncDecl.params FuncDecl.results FuncDecl.body bindAll alloc
  popTo zeroOf readVar lookup readCell writeCell binop assignVar assignField assignIndex defineAll
  assertTy readAll selField mkItem mkItem.go toV isNil ofItem asItem emit enter leave emitVisit

attribute [deep_simp] AMap.store AMap.load AMap.compute AMap.size

/-! definitions of the hand-written models unfolded on the right-hand sides -/
attribute [deep_simp] Model.Cache.step Model.Cache.set Model.Cache.get Model.Cache.expiration Model.Cache.expired Gen.expiration
  Model.Cache.getOrSetFn Model.Cache.refreshFn Model.Cache.liveOld Model.Cache.computeFn Model.Cache.getAndDelete
attribute [deep_simp] Model.CacheOf.step Model.CacheOf.set Model.CacheOf.get Model.CacheOf.expiration Model.CacheOf.expired Gen.expirationOf
  Model.CacheOf.getOrSetFn Model.CacheOf.refreshFn Model.CacheOf.liveOld Model.CacheOf.computeFn Model.CacheOf.getAndDelete
