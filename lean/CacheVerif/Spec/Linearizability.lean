/-!
# Herlihy–Wing linearizability from linearization points (generic)

The model-specific theorems (`Proofs/ProtoHW.lean` for the tables, `Proofs/ConcCacheLin.lean` for the cache layer)
are in *linearization-point form*: one sequential log per run, legal for the sequential specification, in which every
call sits at a position produced by a step inside the call's interval.  This file is the standard bridge to the
*permutation* wording of Herlihy and Wing: a history is linearizable if its calls can be reordered into a legal
sequential history that preserves real-time precedence (a call that returned before another was invoked comes first).

Times are positions in the run.  A pending call is given the end of the run as its response time.
-/
namespace Spec.HW

/-- a call of a concurrent history, with the time `lp` at which it is claimed to take effect -/
structure Call (O R : Type) where
  op : O
  res : R
  inv : Nat
  resp : Nat
  lp : Nat

variable {S O R : Type}

/-- `L` is a legal sequential history of the specification `step` from state `s` -/
def legal (step : S → O → S × R) (s : S) : List (Call O R) → Prop
  | [] => True
  | c :: rest => (step s c.op).2 = c.res ∧ legal step (step s c.op).1 rest

/-- Herlihy–Wing: `L` witnesses that the calls `H` are linearizable: the same calls, reordered into a legal sequential
history in which a call that returned before another one was invoked precedes it -/
def Witness (step : S → O → S × R) (s0 : S) (H L : List (Call O R)) : Prop :=
  L.Perm H ∧ legal step s0 L ∧
  ∀ i j (hi : i < L.length) (hj : j < L.length), (L[j]'hj).resp < (L[i]'hi).inv → j < i

/-- **linearization points give a Herlihy–Wing witness**: if the calls, ordered by their linearization times, form a
legal sequential history, and every linearization time lies inside its call's interval, then that order is a witness -/
theorem witness_of_points (step : S → O → S × R) (s0 : S) (H L : List (Call O R))
    (hperm : L.Perm H) (hlegal : legal step s0 L)
    (hin : ∀ c ∈ H, c.inv ≤ c.lp ∧ c.lp ≤ c.resp)
    (hsorted : L.Pairwise fun a b => a.lp ≤ b.lp) : Witness step s0 H L := by
  refine ⟨hperm, hlegal, ?_⟩
  intro i j hi hj hlt
  have hiH := hin _ (hperm.subset (List.getElem_mem hi))
  have hjH := hin _ (hperm.subset (List.getElem_mem hj))
  by_cases hji : j < i
  · exact hji
  · exfalso
    have hle : i ≤ j := Nat.le_of_not_lt hji
    rcases Nat.lt_or_eq_of_le hle with hij | hij
    · have := List.pairwise_iff_getElem.mp hsorted i j hi hj hij
      omega
    · subst hij
      omega

/-- non-vacuity: two overlapping calls on a register (`write 1` ‖ `read` returning 1), linearized write-first -/
example :
    let step : Nat → Option Nat → Nat × Nat := fun s o => match o with | some v => (v, 0) | none => (s, s)
    Witness step 0
      [⟨none, 1, 0, 5, 4⟩, ⟨some 1, 0, 1, 3, 2⟩]
      [⟨some 1, 0, 1, 3, 2⟩, ⟨none, 1, 0, 5, 4⟩] := by
  intro step
  apply witness_of_points
  · exact List.Perm.swap _ _ _
  · simp [legal, step]
  · intro c hc; simp at hc; rcases hc with rfl | rfl <;> simp
  · simp

end Spec.HW
