import CacheVerif.Model.Types
/-!
# Spec.TTL — the logical TTL map of properties C01 / C09

State: the entries that are *live* (stored, not deleted, not cleared, expiration instant not passed),
the clock, the default TTL and the callback in force.  Fixed by the property text (DESIGN.md §3.1a),
not by the code: the sentinels and the strict comparison are spelled out here on purpose.
-/
namespace Spec.TTL
open Spec Model

def DefaultExpiration : Int := -1000000000   -- −1 s
def NoExpiration : Int := -2000000000        -- −2 s

/-- an entry with expiration instant `e` is gone once the clock is strictly past `e`; `0` = never -/
def expired (e now : Int) : Bool := decide (0 < e) && decide (e < now)

/-- C09: the instant a store made at `now` with TTL argument `d` expires at -/
def expiration (d dflt now : Int) : Int :=
  let d' := if d = DefaultExpiration then dflt else d
  if 0 < d' then now + d' else 0

structure St (K V : Type) where
  live : AMap K (Item V)
  now : Int
  dflt : Int
  cb : Option Nat

variable {K V : Type} [DecidableEq K] [Inhabited V]

def init (dflt : Int) (cb : Option Nat) (now : Int) : St K V := { live := [], now := now, dflt := dflt, cb := cb }

/-- C09: a constructor default below 1 ns means "never expires"; no default given means the same -/
def construct (dflt : Option Int) (cb : Option Nat) (now : Int) : St K V :=
  init (match dflt with | some d => if d < 1 then NoExpiration else d | none => NoExpiration) cb now

def storeItem (s : St K V) (k : K) (v : V) (d : Int) : St K V :=
  { s with live := s.live.set k ⟨v, expiration d s.dflt s.now⟩ }

/-- visitor walk: every live entry once, in map order, until the visitor returns false -/
def walk (f : K → V → Bool) : List (K × Item V) → List (K × V)
  | [] => []
  | (k, i) :: rest => if f k i.v then (k, i.v) :: walk f rest else [(k, i.v)]

/-- the clock advances by `δ ≥ 0`: entries whose instant has passed are gone -/
def tick (s : St K V) (δ : Nat) : St K V :=
  { s with now := s.now + δ, live := s.live.filter fun p => !expired p.2.e (s.now + δ) }

/-- logical result of one call: new state, result, user-function invocations -/
def step (s : St K V) : Op K V → St K V × Out K V × List (FnCall V)
  | .set k v d => (storeItem s k v d, .unit, [])
  | .setDefault k v => (storeItem s k v DefaultExpiration, .unit, [])
  | .setForever k v => (storeItem s k v NoExpiration, .unit, [])
  | .get k =>
    match s.live.get k with
    | some i => (s, .val i.v true, [])
    | none => (s, .val default false, [])
  | .getWithExpiration k =>
    match s.live.get k with
    | some i => (s, .valExp i.v i.e true, [])
    | none => (s, .valExp default 0 false, [])
  | .getWithTTL k =>
    match s.live.get k with
    | some i => (s, .valTTL i.v (if 0 < i.e then i.e - s.now else NoExpiration) true, [])
    | none => (s, .valTTL default 0 false, [])
  | .getOrSet k v d =>
    match s.live.get k with
    | some i => (s, .val i.v true, [])
    | none => (storeItem s k v d, .val v false, [])
  | .getAndSet k v d =>
    match s.live.get k with
    | some i => (storeItem s k v d, .val i.v true, [])
    | none => (storeItem s k v d, .val v false, [])
  | .getAndRefresh k d =>
    match s.live.get k with
    | some i => (storeItem s k i.v d, .val i.v true, [])
    | none => (s, .val default false, [])
  | .getOrCompute k f d =>
    match s.live.get k with
    | some i => (s, .val i.v true, [])
    | none => (storeItem s k f d, .val f false, [.f])
  | .compute k g d =>
    match s.live.get k with
    | some i =>
      if (g (some i.v)).2 then ({ s with live := s.live.erase k }, .val i.v false, [.g (some i.v)])
      else (storeItem s k (g (some i.v)).1 d, .val (g (some i.v)).1 true, [.g (some i.v)])
    | none =>
      if (g none).2 then (s, .val default false, [.g none])
      else (storeItem s k (g none).1 d, .val (g none).1 true, [.g none])
  | .getAndDelete k =>
    match s.live.get k with
    | some i => ({ s with live := s.live.erase k }, .val i.v true, [])
    | none => (s, .val default false, [])
  | .delete k => ({ s with live := s.live.erase k }, .unit, [])
  | .deleteExpired => (s, .unit, [])
  | .range f => (s, .visits (walk f s.live), [])
  | .rangeNil => (s, .unit, [])
  | .items => (s, .items (s.live.map fun p => (p.1, p.2.v)), [])
  | .clear => ({ s with live := [] }, .unit, [])
  | .count => (s, .unit, [])   -- Count is a physical quantity (C08); logically it reports nothing
  | .defaultExpiration => (s, .dur s.dflt, [])
  | .setDefaultExpiration d => ({ s with dflt := d }, .unit, [])
  | .evictedCallback => (s, .cb s.cb, [])
  | .setEvictedCallback c => ({ s with cb := c }, .unit, [])
  | .tick δ => (tick s δ, .unit, [])
  -- user functions that take time: the function sees the entry that is live when it is called; the call takes
  -- effect (and the new entry's TTL starts) when the function has returned, `δ` later
  | .getOrComputeSlow k f d δ =>
    match s.live.get k with
    | some i => (s, .val i.v true, [])
    | none => (storeItem (tick s δ) k f d, .val f false, [.f])
  | .computeSlow k g d δ =>
    let old := (s.live.get k).map (·.v)
    if (g old).2 then ({ (tick s δ) with live := (tick s δ).live.erase k }, .val (old.getD default) false, [.g old])
    else (storeItem (tick s δ) k (g old).1 d, .val (g old).1 true, [.g old])

def run (s : St K V) : List (Op K V) → St K V × List (Out K V × List (FnCall V))
  | [] => (s, [])
  | op :: ops =>
    let r := step s op
    let rs := run r.1 ops
    (rs.1, r.2 :: rs.2)

end Spec.TTL
