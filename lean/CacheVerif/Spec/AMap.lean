/-!
# Spec.AMap — the "ordinary map" every container is compared with

A finite map is an association list; `get` returns the first binding, `erase` removes every binding of
a key, `set` puts the new binding in front of the erased list.  The interface operations below are the
`Map` / `MapOf` interface of package `cache` (`map.go`, `mapof.go`) with the results a builtin Go map
would give (DESIGN.md §3.1a).  Core Lean only: this file is linked into the driver executable.
-/
namespace Spec

abbrev AMap (K : Type) (α : Type) := List (K × α)

namespace AMap
variable {K α : Type} [DecidableEq K]

def get (m : AMap K α) (k : K) : Option α :=
  match m with
  | [] => none
  | (k', v) :: rest => if k' = k then some v else get rest k

def erase (m : AMap K α) (k : K) : AMap K α := m.filter (fun p => !decide (p.1 = k))

def set (m : AMap K α) (k : K) (v : α) : AMap K α := (k, v) :: erase m k

def keys (m : AMap K α) : List K := m.map (·.1)

/-- representation invariant: no key is bound twice -/
def WF (m : AMap K α) : Prop := (keys m).Nodup

/-! ### interface operations (result = what a builtin map would answer) -/

/-- `Load` -/
def load [Inhabited α] (m : AMap K α) (k : K) : α × Bool :=
  match m.get k with
  | some v => (v, true)
  | none => (default, false)

/-- `Store` -/
def store (m : AMap K α) (k : K) (v : α) : AMap K α := m.set k v

/-- `LoadOrStore` -/
def loadOrStore (m : AMap K α) (k : K) (v : α) : AMap K α × (α × Bool) :=
  match m.get k with
  | some old => (m, (old, true))
  | none => (m.set k v, (v, false))

/-- `LoadAndStore` -/
def loadAndStore (m : AMap K α) (k : K) (v : α) : AMap K α × (α × Bool) :=
  match m.get k with
  | some old => (m.set k v, (old, true))
  | none => (m.set k v, (v, false))

/-- `Compute`: `g` receives `some old` (loaded = true) or `none` (zero value, loaded = false) and
returns `(newValue, delete)`.  Result `(actual, ok)`. -/
def compute [Inhabited α] (m : AMap K α) (k : K) (g : Option α → α × Bool) : AMap K α × (α × Bool) :=
  match m.get k with
  | some old =>
    if (g (some old)).2 then (m.erase k, (old, false)) else (m.set k (g (some old)).1, ((g (some old)).1, true))
  | none =>
    if (g none).2 then (m, (default, false)) else (m.set k (g none).1, ((g none).1, true))

/-- `LoadAndDelete` (and `Delete`, which drops the result) -/
def loadAndDelete [Inhabited α] (m : AMap K α) (k : K) : AMap K α × (α × Bool) :=
  match m.get k with
  | some old => (m.erase k, (old, true))
  | none => (m, (default, false))

def size (m : AMap K α) : Nat := m.length

/-! ### lemmas -/

@[simp] theorem get_nil (k : K) : get ([] : AMap K α) k = none := rfl

@[simp] theorem get_cons (k' k : K) (v : α) (m : AMap K α) :
    get ((k', v) :: m) k = if k' = k then some v else get m k := rfl

theorem erase_nil (k : K) : erase ([] : AMap K α) k = [] := rfl

theorem erase_cons_eq (m : AMap K α) (k : K) (v : α) : erase ((k, v) :: m) k = erase m k := by
  simp [erase, List.filter]

theorem erase_cons_ne (m : AMap K α) (k k' : K) (v : α) (h : k' ≠ k) :
    erase ((k', v) :: m) k = (k', v) :: erase m k := by
  simp [erase, List.filter, h]

theorem get_erase_self (m : AMap K α) (k : K) : get (erase m k) k = none := by
  induction m with
  | nil => rfl
  | cons p m ih =>
    obtain ⟨k', v⟩ := p
    by_cases h : k' = k
    · subst h; rw [erase_cons_eq]; exact ih
    · rw [erase_cons_ne _ _ _ _ h, get_cons, if_neg h]; exact ih

theorem get_erase_ne (m : AMap K α) (k k' : K) (h : k ≠ k') : get (erase m k) k' = get m k' := by
  induction m with
  | nil => rfl
  | cons p m ih =>
    obtain ⟨k'', v⟩ := p
    by_cases h1 : k'' = k
    · subst h1; rw [erase_cons_eq, get_cons, if_neg h]; exact ih
    · rw [erase_cons_ne _ _ _ _ h1, get_cons, get_cons, ih]

theorem get_erase (m : AMap K α) (k k' : K) :
    get (erase m k) k' = if k = k' then none else get m k' := by
  by_cases h : k = k'
  · subst h; simp [get_erase_self]
  · simp [h, get_erase_ne m k k' h]

theorem get_set (m : AMap K α) (k k' : K) (v : α) :
    get (set m k v) k' = if k = k' then some v else get m k' := by
  unfold set
  by_cases h : k = k'
  · simp [h]
  · simp [h, get_erase_ne m k k' h]

theorem erase_of_get_none (m : AMap K α) (k : K) (h : get m k = none) : erase m k = m := by
  induction m with
  | nil => rfl
  | cons p m ih =>
    obtain ⟨k', v⟩ := p
    by_cases h1 : k' = k
    · simp [h1] at h
    · rw [get_cons, if_neg h1] at h
      rw [erase_cons_ne _ _ _ _ h1, ih h]

theorem keys_erase (m : AMap K α) (k : K) : keys (erase m k) = (keys m).filter (fun x => !decide (x = k)) := by
  induction m with
  | nil => rfl
  | cons p m ih =>
    obtain ⟨k', v⟩ := p
    by_cases h1 : k' = k
    · subst h1; rw [erase_cons_eq, ih]; simp [keys]
    · rw [erase_cons_ne _ _ _ _ h1]; simp [keys, h1] at ih ⊢; exact ih

theorem not_mem_keys_erase (m : AMap K α) (k : K) : k ∉ keys (erase m k) := by
  rw [keys_erase]; simp

omit [DecidableEq K] in
theorem WF_nil : WF ([] : AMap K α) := List.nodup_nil

theorem WF_erase (m : AMap K α) (k : K) (h : WF m) : WF (erase m k) := by
  unfold WF at *; rw [keys_erase]; exact h.filter _

theorem WF_set (m : AMap K α) (k : K) (v : α) (h : WF m) : WF (set m k v) := by
  unfold WF set at *
  simp only [keys, List.map_cons, List.nodup_cons]
  exact ⟨not_mem_keys_erase m k, WF_erase m k h⟩

theorem get_eq_none_iff (m : AMap K α) (k : K) : get m k = none ↔ k ∉ keys m := by
  induction m with
  | nil => simp [keys]
  | cons p m ih =>
    obtain ⟨k', v⟩ := p
    by_cases h : k' = k
    · simp [h, keys]
    · simp [h, keys] at ih ⊢
      constructor
      · intro hh; exact ⟨fun e => h e.symm, ih.mp hh⟩
      · intro hh; exact ih.mpr hh.2

theorem mem_of_get (m : AMap K α) (k : K) (v : α) (h : get m k = some v) : (k, v) ∈ m := by
  induction m with
  | nil => simp at h
  | cons p m ih =>
    obtain ⟨k', v'⟩ := p
    by_cases h1 : k' = k
    · simp [h1] at h; subst h; subst h1; simp
    · simp [h1] at h; exact List.mem_cons_of_mem _ (ih h)

theorem get_of_mem (m : AMap K α) (hw : WF m) (k : K) (v : α) (h : (k, v) ∈ m) : get m k = some v := by
  induction m with
  | nil => simp at h
  | cons p m ih =>
    obtain ⟨k', v'⟩ := p
    simp only [WF, keys, List.map_cons, List.nodup_cons] at hw
    rcases List.mem_cons.mp h with h | h
    · cases h; simp
    · have : k' ≠ k := by
        intro e; subst e
        exact hw.1 (List.mem_map.mpr ⟨(k', v), h, rfl⟩)
      simp [this]; exact ih hw.2 h

/-- length of the erased list, under the invariant -/
theorem length_erase_of_get_some (m : AMap K α) (hw : WF m) (k : K) (v : α) (h : get m k = some v) :
    (erase m k).length + 1 = m.length := by
  induction m with
  | nil => simp at h
  | cons p m ih =>
    obtain ⟨k', v'⟩ := p
    simp only [WF, keys, List.map_cons, List.nodup_cons] at hw
    by_cases h1 : k' = k
    · subst h1
      have : get m k' = none := (get_eq_none_iff m k').mpr hw.1
      rw [erase_cons_eq, erase_of_get_none m k' this]; rfl
    · rw [get_cons, if_neg h1] at h
      rw [erase_cons_ne _ _ _ _ h1]
      have := ih hw.2 h
      simp only [List.length_cons]; omega

end AMap
end Spec
