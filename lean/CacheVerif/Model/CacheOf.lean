import CacheVerif.Model.Types
import CacheVerif.Model.Cache
import CacheVerif.Generated.Leaf
/-!
# M2 (twin) — sequential model of `xsyncMapOf[K, V]` (file `xsync_mapof.go`, the generic `CacheOf`)

Separate transcription of the generic twin: it refers to the *generic* leaves (`itemOf.expired`,
`itemOf.expiredWithNow`, `xsyncMapOf.expiration`, `configDefaultOf`, `DefaultConfigOf`) and is tied to
`xsync_mapof.go` by its own correspondence run.  `Props/C12.lean` proves the twins equal.

Hand-written transcription, call for call, of every method body over the `Map` interface operations of
`Spec.AMap` (`Load`, `Store`, `Compute`, `LoadAndDelete`, `Delete`, `Range`, `Clear`, `Size`).  The decision
code (`item.expired`, `item.expiredWithNow`, `xsyncMap.expiration`) is *not* written here: it is taken from
`Gen` (machine-translated from the working tree on every run).  The clock is a field of the state and is
constant during one call.  Tie to the code: sequential correspondence harness (DESIGN.md §2.3c-1).
-/
namespace Model.CacheOf
open Spec Model

abbrev St (K V : Type) := CSt K V

variable {K V : Type} [DecidableEq K] [Inhabited V]

def init (dflt : Int) (cb : Option Nat) (now : Int) : St K V := { items := [], now := now, dflt := dflt, cb := cb }

/-- `newXsyncMapOf(config...)`: normalise through `configDefault`, install default TTL and callback;
the second component says whether the janitor goroutine is started (`cfg.CleanupInterval > 0`). -/
def newXsyncMapOf (cfg : Option Gen.Config) (cbid : Option Nat) (now : Int) : St K V × Bool :=
  let c := Gen.configDefaultOf cfg
  ({ items := [], now := now, dflt := Gen.newXsyncMapOf_dflt c, cb := if Gen.newXsyncMapOf_hasCb c then cbid else none },
   Gen.newXsyncMapOf_janitor c)

/-- the public constructors (`cacheof.go`): same shapes as the non-generic ones -/
abbrev Ctor := Model.Cache.Ctor

def construct (c : Ctor) (now : Int) : St K V × Bool :=
  match c with
  | .newOpts dflt cleanup cb mincap =>
    let opts : List (Gen.Config → Gen.Config) :=
      (match dflt with | some d => [Gen.WithDefaultExpirationOf d] | none => []) ++
      (match cleanup with | some i => [Gen.WithCleanupIntervalOf i] | none => []) ++
      (match cb with | some _ => [Gen.WithEvictedCallbackOf true] | none => []) ++
      (match mincap with | some m => [Gen.WithMinCapacityOf m] | none => [])
    newXsyncMapOf (some (Gen.NewOf_cfg opts)) cb now
  | .newDefault dflt cleanup cb =>
    newXsyncMapOf (some (Gen.NewOfDefault_cfg dflt cleanup cb.isSome)) cb now
  | .newOptsOver base dflt cleanup cb mincap =>
    let opts : List (Gen.Config → Gen.Config) :=
      [Gen.WithDefaultExpirationOf base] ++
      (match cleanup with | some i => [Gen.WithCleanupIntervalOf i] | none => []) ++
      (match cb with | some _ => [Gen.WithEvictedCallbackOf true] | none => []) ++
      (match mincap with | some m => [Gen.WithMinCapacityOf m] | none => []) ++
      [Gen.WithDefaultExpirationOf dflt]
    newXsyncMapOf (some (Gen.NewOf_cfg opts)) cb now

/-- `i.expired()` -/
def expired (s : St K V) (i : Item V) : Bool := Gen.itemOf_expired i.e s.now
/-- `c.expiration(d)` -/
def expiration (s : St K V) (d : Int) : Int := Gen.expirationOf d s.dflt s.now

/-- `Set` -/
def set (s : St K V) (k : K) (v : V) (d : Int) : St K V :=
  { s with items := s.items.store k ⟨v, expiration s d⟩ }

/-- `get` (the unexported helper): `Load`, then the double-checked delete through `Compute` -/
def get (s : St K V) (k : K) : St K V × Option (Item V) :=
  match s.items.load k with
  | (_, false) => (s, none)
  | (i, true) =>
    if !expired s i then (s, some i)
    else
      let r := s.items.compute k fun o =>
        match o with
        | some i' => if !expired s i' then (i', false) else (default, true)
        | none => (default, true)
      ({ s with items := r.1 }, if r.2.2 then some r.2.1 else none)

/-- the closure of `GetOrSet` -/
def getOrSetFn (s : St K V) (v : V) (d : Int) : Option (Item V) → Item V × Bool
  | some old => if !expired s old then (old, false) else (⟨v, expiration s d⟩, false)
  | none => (⟨v, expiration s d⟩, false)

/-- the closure of `GetAndRefresh` -/
def refreshFn (s : St K V) (d : Int) : Option (Item V) → Item V × Bool
  | some i => if !expired s i then (⟨i.v, expiration s d⟩, false) else (default, true)
  | none => (default, true)

/-- `lok` as seen by the user function of `Compute`, and the `old` it receives -/
def liveOld (s : St K V) : Option (Item V) → Option V
  | some i => if !expired s i then some i.v else none
  | none => none

/-- the closure of `Compute` -/
def computeFn (s : St K V) (g : Option V → V × Bool) (d : Int) (o : Option (Item V)) : Item V × Bool :=
  let r := g (liveOld s o)
  if r.2 then (default, true) else (⟨r.1, expiration s d⟩, false)

/-- `Range`'s visitor loop over the underlying map: skip expired, stop when `f` says false -/
def walk (now : Int) (f : K → V → Bool) : List (K × Item V) → List (K × V)
  | [] => []
  | (k, i) :: rest =>
    if Gen.itemOf_expiredWithNow i.e now then walk now f rest
    else if f k i.v then (k, i.v) :: walk now f rest else [(k, i.v)]

/-- the closure `DeleteExpired` passes to `Compute` for a snapshot entry that is expired at `now`:
delete only if the key still holds an item expired at `now` -/
def sweepFn (now : Int) : Option (Item V) → Item V × Bool
  | none => (default, true)
  | some c => if !Gen.itemOf_expiredWithNow c.e now then (c, false) else (default, true)

/-- `DeleteExpired`'s visitor loop over the `Range` snapshot: for every snapshot entry expired at `now`, a
conditional delete through `Compute`; the value actually removed is collected for the callback -/
def sweep (now : Int) (hasCb : Bool) : List (K × Item V) → AMap K (Item V) × List (K × V) → AMap K (Item V) × List (K × V)
  | [], acc => acc
  | (k, i) :: rest, acc =>
    if Gen.itemOf_expiredWithNow i.e now then
      let logged := match acc.1.get k with
        | some c => if Gen.itemOf_expiredWithNow c.e now && hasCb then [(k, c.v)] else []
        | none => []
      sweep now hasCb rest ((acc.1.compute k (sweepFn now)).1, acc.2 ++ logged)
    else sweep now hasCb rest acc

/-- `GetAndDelete`: one `Compute` that always deletes; remembers the removed item and whether it was live -/
def getAndDelete (s : St K V) (k : K) : St K V × Res K V :=
  let r := s.items.compute k fun _ => (default, true)
  match s.items.get k with
  | none => ({ s with items := r.1 }, { out := .val default false })
  | some i =>
    ({ s with items := r.1 },
     { out := if !expired s i then .val i.v true else .val default false,
       cbs := match s.cb with | some c => [(c, k, i.v)] | none => [] })

def step (s : St K V) : Op K V → St K V × Res K V
  | .set k v d => (set s k v d, { out := .unit })
  | .setDefault k v => (set s k v Gen.DefaultExpiration, { out := .unit })
  | .setForever k v => (set s k v Gen.NoExpiration, { out := .unit })
  | .get k =>
    match get s k with
    | (s', some i) => (s', { out := .val i.v true })
    | (s', none) => (s', { out := .val default false })
  | .getWithExpiration k =>
    match get s k with
    | (s', none) => (s', { out := .valExp default 0 false })
    | (s', some i) => (s', { out := .valExp i.v (if i.e > 0 then i.e else 0) true })
  | .getWithTTL k =>
    match get s k with
    | (s', none) => (s', { out := .valTTL default 0 false })
    | (s', some i) => (s', { out := .valTTL i.v (if i.e > 0 then i.e - s.now else Gen.NoExpiration) true })
  | .getOrSet k v d =>
    let r := s.items.compute k (getOrSetFn s v d)
    let ok := match s.items.get k with | some old => !expired s old | none => false
    ({ s with items := r.1 }, { out := .val r.2.1.v ok })
  | .getAndSet k v d =>
    let r := s.items.compute k fun _ => (⟨v, expiration s d⟩, false)
    match s.items.get k with
    | some old => if !expired s old then ({ s with items := r.1 }, { out := .val old.v true })
                  else ({ s with items := r.1 }, { out := .val r.2.1.v false })
    | none => ({ s with items := r.1 }, { out := .val r.2.1.v false })
  | .getAndRefresh k d =>
    let r := s.items.compute k (refreshFn s d)
    if r.2.2 then ({ s with items := r.1 }, { out := .val r.2.1.v true })
    else ({ s with items := r.1 }, { out := .val default false })
  | .getOrCompute k f d =>
    let live := match s.items.get k with | some old => !expired s old | none => false
    let r := s.items.compute k (getOrSetFn s f d)
    ({ s with items := r.1 }, { out := .val r.2.1.v live, fn := if live then [] else [.f] })
  | .compute k g d =>
    let r := s.items.compute k (computeFn s g d)
    let old := liveOld s (s.items.get k)
    if r.2.2 then ({ s with items := r.1 }, { out := .val r.2.1.v true, fn := [.g old] })
    else ({ s with items := r.1 }, { out := .val (old.getD default) false, fn := [.g old] })
  | .getAndDelete k => getAndDelete s k
  | .delete k => let r := getAndDelete s k; (r.1, { r.2 with out := .unit })
  | .deleteExpired =>
    let r := sweep s.now s.cb.isSome s.items (s.items, [])
    ({ s with items := r.1 },
     { out := .unit, cbs := match s.cb with | some c => r.2.map fun p => (c, p.1, p.2) | none => [] })
  | .range f => (s, { out := .visits (walk s.now f s.items) })
  | .rangeNil => (s, { out := .unit })
  | .items => (s, { out := .items (walk s.now (fun _ _ => true) s.items) })
  | .clear => ({ s with items := [] }, { out := .unit })
  | .count => (s, { out := .count s.items.size })
  | .defaultExpiration => (s, { out := .dur s.dflt })
  | .setDefaultExpiration d => ({ s with dflt := d }, { out := .unit })
  | .evictedCallback => (s, { out := .cb s.cb })
  | .setEvictedCallback c => ({ s with cb := c }, { out := .unit })
  | .tick δ => ({ s with now := s.now + δ }, { out := .unit })
  | .getOrComputeSlow k f d δ =>
    let live := match s.items.get k with | some old => !expired s old | none => false
    -- the closure tests expiry first; `valueFn()` runs (the clock moves on) only when no live item exists, and
    -- `c.expiration(d)` is evaluated after it has returned
    let s1 : St K V := if live then s else { s with now := s.now + δ }
    let r := s.items.compute k fun o =>
      match o with
      | some old => if !expired s old then (old, false) else (⟨f, expiration s1 d⟩, false)
      | none => (⟨f, expiration s1 d⟩, false)
    ({ s1 with items := r.1 }, { out := .val r.2.1.v live, fn := if live then [] else [.f] })
  | .computeSlow k g d δ =>
    let old := liveOld s (s.items.get k)
    let s1 : St K V := { s with now := s.now + δ }
    let r := s.items.compute k fun _ => if (g old).2 then (default, true) else (⟨(g old).1, expiration s1 d⟩, false)
    if r.2.2 then ({ s1 with items := r.1 }, { out := .val r.2.1.v true, fn := [.g old] })
    else ({ s1 with items := r.1 }, { out := .val (old.getD default) false, fn := [.g old] })

def run (s : St K V) : List (Op K V) → St K V × List (Res K V)
  | [] => (s, [])
  | op :: ops =>
    let r := step s op
    let rs := run r.1 ops
    (rs.1, r.2 :: rs.2)

end Model.CacheOf
