import CacheVerif.Model.Proto
/-!
The writing methods of `Map` / `MapOf` as operations of M4a: every one is `doCompute key valueFn loadIfExists
computeOnly` (hand-written here, used by the trace acceptor of the driver; `Proofs/Wrappers.lean` proves the table equal
to what `go2deep -wrappers` prints from `map.go` / `mapof.go` on every run).
-/
namespace Model.Proto

/-- `x`: the method's value argument (for `loadorcompute`: what its function returns), `g`: its compute function -/
def api {K V : Type} [Inhabited V] (name : String) (k : K) (x : V) (g : Option V → V × Bool) : Option (POp K V) :=
  match name with
  | "store" => some (.dc k (fun _ => (x, false)) false false)
  | "loadorstore" => some (.dc k (fun _ => (x, false)) true false)
  | "loadandstore" => some (.dc k (fun _ => (x, false)) false false)
  | "loadorcompute" => some (.dc k (fun _ => (x, false)) true false)
  | "compute" => some (.dc k g false true)
  | "loadanddelete" => some (.dc k (fun o => (o.getD default, true)) false false)
  | "delete" => some (.dc k (fun o => (o.getD default, true)) false false)
  | _ => none

end Model.Proto
