/-!
# M4b (Map) — the slot-level protocol of one bucket chain of `xsync.Map`: the three-read atomic snapshot

One chain, one **writer** (the holder of the root bucket's spin lock) and any number of lock-free **readers**.
A slot is a key pointer, a value pointer and its share of the packed word: a presence bit and the 20 top bits
of the key's hash.  Value cells are freshly allocated by every write (`&newValue`), so live value pointers are
unique; key cells are allocated at insertion.

Writer micro-store orders (extracted facts pinned in `Expect/DoCompute.lean`):
* insert into a free slot: word (top hash + presence bit), then value pointer, then key pointer;
* delete: word (presence bit off), then value pointer := nil, then key pointer := nil;
* update: value pointer := fresh cell (one store);
* append: a new bucket is initialised privately and then linked by one store of `next`.
The writer finds a free slot by `keys[i] == nil`, so a slot is reused only after a delete has completed.

Reader (`Load`), per bucket: one atomic load of the word; for every slot `i` (ascending) whose presence bit is
set and whose top hash matches: **snapshot loop**: load `values[i]`, load `keys[i]`; if both non-nil and the
key equals the searched key: re-load `values[i]`; same pointer ⇒ return its value, otherwise repeat the loop;
(key different or a nil pointer ⇒ next slot); then one atomic load of `next`.

Logical content (what a scan by the lock holder sees): `k ↦ v` iff some slot has its presence bit set with the
top hash of `k`, a key cell holding `k` and a value cell holding `v`.
-/
namespace Model.SlotMap

abbrev Ptr := Nat
abbrev Tid := Nat

def S : Nat := 3

structure Slot where
  present : Bool
  top : Nat
  keyp : Option Ptr
  valp : Option Ptr
  deriving Repr, DecidableEq

def Slot.free : Slot := { present := false, top := 0, keyp := none, valp := none }

inductive Pending where
  | none
  | insVal (b i : Nat) (kp vp : Ptr)      -- word stored; value then key to go
  | insKey (b i : Nat) (kp : Ptr)         -- word, value stored; key to go
  | delVal (b i : Nat)                     -- presence bit cleared; value then key to go
  | delKey (b i : Nat)
  deriving Repr, DecidableEq

structure G (K V : Type) where
  /-- chain of buckets, each a list of `S` slots -/
  buckets : List (List Slot)
  keyHeap : Ptr → Option K
  valHeap : Ptr → Option V
  nextPtr : Ptr
  pending : Pending

inductive WStep (K V : Type) where
  | insWord (b i : Nat) (k : K) (v : V)
  | finish
  | delWord (b i : Nat)
  | update (b i : Nat) (v : V)
  | append (k : K) (v : V)

inductive RPc where
  | rdWord (b : Nat)
  | rdVal (b : Nat) (cands : List Nat)                 -- about to load values[i] for the head candidate
  | rdKey (b : Nat) (cands : List Nat) (vp : Option Ptr)
  | rdVal2 (b : Nat) (cands : List Nat) (vp : Ptr)     -- key matched: re-read the value pointer
  | rdNext (b : Nat)
  | done
  deriving Repr, DecidableEq

structure RL (K V : Type) where
  key : K
  pc : RPc
  result : Option V

variable {K V : Type} [DecidableEq K] (top : K → Nat)

def getSlot (g : G K V) (b i : Nat) : Slot := (g.buckets.getD b []).getD i Slot.free

def setSlot (g : G K V) (b i : Nat) (f : Slot → Slot) : G K V :=
  { g with buckets := g.buckets.modify b fun bk => bk.modify i f }

def slotHolds (g : G K V) (b i : Nat) (k : K) : Option V :=
  let s := getSlot g b i
  match s.keyp, s.valp with
  | some kp, some vp =>
    match g.keyHeap kp, g.valHeap vp with
    | some k', some v => if s.present ∧ s.top = top k ∧ k' = k then some v else none
    | _, _ => none
  | _, _ => none

def slots (g : G K V) : List (Nat × Nat) :=
  (List.range g.buckets.length).flatMap fun b => (List.range S).map fun i => (b, i)

def content (g : G K V) (k : K) : Option V := (slots g).findSome? fun bi => slotHolds top g bi.1 bi.2 k

def wstep (g : G K V) : WStep K V → Option (G K V)
  | .insWord b i k v =>
    let s := getSlot g b i
    if g.pending = .none ∧ b < g.buckets.length ∧ i < S ∧ s.keyp = none ∧ s.valp = none ∧ s.present = false ∧
        (content top g k).isNone then
      some { (setSlot g b i fun s => { s with present := true, top := top k }) with
               keyHeap := fun p => if p = g.nextPtr then some k else g.keyHeap p,
               valHeap := fun p => if p = g.nextPtr + 1 then some v else g.valHeap p,
               nextPtr := g.nextPtr + 2, pending := .insVal b i g.nextPtr (g.nextPtr + 1) }
    else none
  | .finish =>
    match g.pending with
    | .insVal b i kp vp => some { (setSlot g b i fun s => { s with valp := some vp }) with pending := .insKey b i kp }
    | .insKey b i kp => some { (setSlot g b i fun s => { s with keyp := some kp }) with pending := .none }
    | .delVal b i => some { (setSlot g b i fun s => { s with valp := none }) with pending := .delKey b i }
    | .delKey b i => some { (setSlot g b i fun s => { s with keyp := none }) with pending := .none }
    | .none => none
  | .delWord b i =>
    let s := getSlot g b i
    if g.pending = .none ∧ s.present ∧ s.keyp.isSome ∧ s.valp.isSome then
      some { (setSlot g b i fun s => { s with present := false }) with pending := .delVal b i }
    else none
  | .update b i v =>
    let s := getSlot g b i
    if g.pending = .none ∧ s.present ∧ s.keyp.isSome ∧ s.valp.isSome then
      some { (setSlot g b i fun s => { s with valp := some g.nextPtr }) with
               valHeap := fun p => if p = g.nextPtr then some v else g.valHeap p, nextPtr := g.nextPtr + 1 }
    else none
  | .append k v =>
    if g.pending = .none ∧ (content top g k).isNone then
      some { g with
        buckets := g.buckets ++ [{ present := true, top := top k, keyp := some g.nextPtr, valp := some (g.nextPtr + 1) } ::
                                  List.replicate (S - 1) Slot.free],
        keyHeap := fun p => if p = g.nextPtr then some k else g.keyHeap p,
        valHeap := fun p => if p = g.nextPtr + 1 then some v else g.valHeap p,
        nextPtr := g.nextPtr + 2 }
    else none

def candidates (bk : List Slot) (h : Nat) : List Nat :=
  (List.range S).filter fun i => let s := bk.getD i Slot.free; s.present && s.top == h

def rstep (g : G K V) (l : RL K V) : RL K V :=
  match l.pc with
  | .rdWord b => { l with pc := .rdVal b (candidates (g.buckets.getD b []) (top l.key)) }
  | .rdVal b [] => { l with pc := .rdNext b }
  | .rdVal b (i :: rest) => { l with pc := .rdKey b (i :: rest) (getSlot g b i).valp }
  | .rdKey b [] _ => { l with pc := .rdNext b }
  | .rdKey b (i :: rest) vp =>
    match (getSlot g b i).keyp, vp with
    | some kp, some vp =>
      if g.keyHeap kp = some l.key then { l with pc := .rdVal2 b (i :: rest) vp } else { l with pc := .rdVal b rest }
    | _, _ => { l with pc := .rdVal b rest }
  | .rdVal2 b [] _ => { l with pc := .rdNext b }
  | .rdVal2 b (i :: rest) vp =>
    if (getSlot g b i).valp = some vp then { l with pc := .done, result := g.valHeap vp }
    else { l with pc := .rdVal b (i :: rest) }       -- concurrent update/remove: another spin
  | .rdNext b => if b + 1 < g.buckets.length then { l with pc := .rdWord (b + 1) } else { l with pc := .done, result := none }
  | .done => l

structure St (K V : Type) where
  g : G K V
  r : Tid → RL K V

inductive Act (K V : Type) where
  | w (s : WStep K V)
  | r (t : Tid)
  | start (t : Tid) (k : K)

def step (s : St K V) : Act K V → Option (St K V)
  | .w ws => (wstep top s.g ws).map fun g' => { s with g := g' }
  | .r t => some { s with r := fun u => if u = t then rstep top s.g (s.r t) else s.r u }
  | .start t k => some { s with r := fun u => if u = t then { key := k, pc := .rdWord 0, result := none } else s.r u }

def init (k0 : K) : St K V :=
  { g := { buckets := [List.replicate S Slot.free], keyHeap := fun _ => none, valHeap := fun _ => none, nextPtr := 0, pending := .none },
    r := fun _ => { key := k0, pc := .done, result := none } }

def run (s : St K V) : List (Act K V) → Option (St K V)
  | [] => some s
  | a :: as =>
    match step top s a with
    | some s' => run s' as
    | none => none

end Model.SlotMap
