import CacheVerif.Model.Table
/-!
# M3w — buckets of `MapOf` with their packed `meta` word, and the word-filtered search

M3 (`Model/Table.lean`) stores no packed words: it searches a chain by key.  The code does not: `MapOf.Load` and the
search loop of `MapOf.doCompute` xor the bucket's `meta` word with the broadcast `h2` byte of the key's hash, mark the
zero bytes (SWAR), mask the five slot bytes, and visit the marked slots in increasing order by
`firstMarkedByteIndex` / `markedw &= markedw - 1`, comparing keys only there.  This file states that search over
buckets that carry the word (`searchBucket`, `searchChain`: the shape of the loops, over the machine-translated leaf
functions of `Gen`), and the representation predicate `RepB` that says what the word of a bucket must be given its
entries.  `Proofs/Words.lean` proves that the word-filtered search finds exactly what the key search of M3 finds;
`Proofs/DeepLoad.lean` proves that the interpreter on the printed body of `MapOf.Load` computes `searchChain`.
-/
namespace Model.Words
open Model.Table

/-- a `bucketOf` of `mapof.go`: the `meta` word and the five entry pointers (`next` is the rest of the list) -/
structure BucketOf (K V : Type) where
  metaw : BitVec 64
  entries : List (Option (K × V))

variable {K V : Type} [DecidableEq K]

/-- the first result if there is one, else the second -/
def orE (a b : Option V) : Option V :=
  match a with
  | some v => some v
  | none => b

/-- the inner loop `for markedw != 0 { idx := firstMarkedByteIndex(markedw); …; markedw &= markedw - 1 }`:
`test idx` is what the loop body does with slot `idx` (`some v`: return `v`); the outer `none` is "more than `fuel`
iterations" -/
def scanMarked (test : Nat → Option V) : Nat → BitVec 64 → Option (Option V)
  | 0, _ => none
  | fuel + 1, w =>
    if w = 0#64 then some none
    else
      match test (Gen.firstMarkedByteIndex w) with
      | some v => some (some v)
      | none => scanMarked test fuel (w &&& (w - 1#64))

/-- the body of the inner loop of `Load`: entry pointer not nil and the keys are equal -/
def testSlot (key : K) (entries : List (Option (K × V))) (idx : Nat) : Option V :=
  match entries.getD idx none with
  | some (k, v) => if k = key then some v else none
  | none => none

/-- the candidate word of a bucket for a key whose hash byte, broadcast, is `h2w` -/
def candidates (h2w : BitVec 64) (metaw : BitVec 64) : BitVec 64 :=
  Gen.markZeroBytes (metaw ^^^ h2w) &&& Gen.metaMask

/-- one iteration of the outer loop of `Load` -/
def searchBucket (key : K) (h2w : BitVec 64) (b : BucketOf K V) : Option V :=
  (scanMarked (testSlot key b.entries) 8 (candidates h2w b.metaw)).join

/-- the outer loop of `Load`: bucket by bucket along `next` -/
def searchChain (key : K) (h2w : BitVec 64) : List (BucketOf K V) → Option V
  | [] => none
  | b :: rest =>
    orE (searchBucket key h2w b) (searchChain key h2w rest)

/-- byte `i` of a word -/
def byteOf (w : BitVec 64) (i : Nat) : BitVec 8 := BitVec.setWidth 8 (w >>> (8 * i))

/-- what the `meta` word of a bucket must say given its entries: `hk k` (the `h2` byte of the key's hash) in the byte
of an occupied slot, `emptyMetaSlot` in the byte of a free one -/
def RepB (hk : K → BitVec 8) (b : BucketOf K V) : Prop :=
  b.entries.length = Gen.entriesPerMapOfBucket ∧
  ∀ i, i < Gen.entriesPerMapOfBucket →
    byteOf b.metaw i = (match b.entries.getD i none with
      | some (k, _) => hk k
      | none => Gen.emptyMetaSlot)

/-- the slots of a chain of buckets, as M3 sees them -/
def flat (c : List (BucketOf K V)) : Slots K V := c.flatMap (·.entries)

/-! ### `Map` (string keys): the `topHashMutex` word -/

/-- a `bucket` of `map.go`: the packed word (three 20-bit top hashes, three presence bits, the lock bit) and the three
key / value pointer pairs (sequentially both nil or both set: one optional pair per slot) -/
structure BucketM (K V : Type) where
  word : BitVec 64
  slots : List (Option (K × V))

/-- the inner loop of `Map.Load`: `for i := 0; i < 3; i++ { if !topHashMatch(hash, topHashes, i) { continue }; … }` -/
def searchBucketM (key : K) (hash : BitVec 64) (b : BucketM K V) : Option V :=
  orE (if Gen.topHashMatch hash b.word 0 then testSlot key b.slots 0 else none)
    (orE (if Gen.topHashMatch hash b.word 1 then testSlot key b.slots 1 else none)
      (if Gen.topHashMatch hash b.word 2 then testSlot key b.slots 2 else none))

def searchChainM (key : K) (hash : BitVec 64) : List (BucketM K V) → Option V
  | [] => none
  | b :: rest => orE (searchBucketM key hash b) (searchChainM key hash rest)

/-- what the word must say: the top hash stored for an occupied slot matches the hash of the key in it (nothing is
demanded of free slots: a stale match there is rejected by the nil check) -/
def RepM (hashOf : K → BitVec 64) (b : BucketM K V) : Prop :=
  b.slots.length = Gen.entriesPerMapBucket ∧
  ∀ i, i < Gen.entriesPerMapBucket →
    (match b.slots.getD i none with
     | some (k, _) => Gen.topHashMatch (hashOf k) b.word i = true
     | none => True)

def flatM (c : List (BucketM K V)) : Slots K V := c.flatMap (·.slots)

end Model.Words
