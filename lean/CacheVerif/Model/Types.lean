import CacheVerif.Spec.AMap
/-!
Shared vocabulary of the cache-layer models (M2) and of `Spec.TTL`: items, API operations, results.
-/
namespace Model
open Spec

/-- `item{v, e}` / `itemOf[V]{v, e}`: `e` = absolute expiration in UnixNano, `0` = never. -/
structure Item (V : Type) where
  v : V
  e : Int
  deriving DecidableEq, Repr

/-- Go zero value `item{}` -/
instance {V : Type} [Inhabited V] : Inhabited (Item V) := ⟨⟨default, 0⟩⟩

/-- One call of the `Cache` / `CacheOf` interface, or a clock advance.  User functions are arbitrary
pure functions: `getOrCompute`'s `func() V` is a value, `compute`'s function maps `some old`
(loaded = true) / `none` (zero value, loaded = false) to `(newValue, delete)`. -/
inductive Op (K V : Type) where
  | set (k : K) (v : V) (d : Int)
  | setDefault (k : K) (v : V)
  | setForever (k : K) (v : V)
  | get (k : K)
  | getWithExpiration (k : K)
  | getWithTTL (k : K)
  | getOrSet (k : K) (v : V) (d : Int)
  | getAndSet (k : K) (v : V) (d : Int)
  | getAndRefresh (k : K) (d : Int)
  | getOrCompute (k : K) (f : V) (d : Int)
  | compute (k : K) (g : Option V → V × Bool) (d : Int)
  | getAndDelete (k : K)
  | delete (k : K)
  | deleteExpired
  | range (f : K → V → Bool)
  | rangeNil
  | items
  | clear
  | count
  | defaultExpiration
  | setDefaultExpiration (d : Int)
  | evictedCallback
  | setEvictedCallback (cb : Option Nat)
  | tick (δ : Nat)
  /-- `GetOrCompute` whose user function takes time: the clock advances by `δ` while it runs (only if it runs) -/
  | getOrComputeSlow (k : K) (f : V) (d : Int) (δ : Nat)
  /-- `Compute` whose user function takes time `δ` -/
  | computeSlow (k : K) (g : Option V → V × Bool) (d : Int) (δ : Nat)

inductive Out (K V : Type) where
  | unit
  | val (v : V) (ok : Bool)
  /-- `e = 0` stands for the zero `time.Time` -/
  | valExp (v : V) (e : Int) (ok : Bool)
  | valTTL (v : V) (ttl : Int) (ok : Bool)
  | visits (l : List (K × V))
  | items (l : List (K × V))
  | count (n : Nat)
  | dur (d : Int)
  | cb (c : Option Nat)
  deriving DecidableEq, Repr

/-- an invocation of a user-supplied function, with the argument it received -/
inductive FnCall (V : Type) where
  | f
  | g (old : Option V)
  deriving DecidableEq, Repr

/-- everything one call reports: its result, the user-function invocations it made, and the evicted
callbacks it fired (callback id, key, value) in order -/
structure Res (K V : Type) where
  out : Out K V
  fn : List (FnCall V) := []
  cbs : List (Nat × K × V) := []
  deriving DecidableEq, Repr

/-- state of a cache-layer model (both twins): the underlying map's content, the clock, the default TTL
(`defaultExpiration` setting) and the id of the evicted callback in force (`evictedCallback` setting) -/
structure CSt (K V : Type) where
  items : AMap K (Item V)
  now : Int
  dflt : Int
  cb : Option Nat

end Model
