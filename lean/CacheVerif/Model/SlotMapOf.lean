/-!
# M4b (MapOf) — the slot-level protocol of one bucket chain of `xsync.MapOf`

One chain (root bucket first), one **writer** (the holder of the root bucket lock — M4a proves there is at most
one) executing the micro-stores of `doCompute` in the order of the source, and any number of lock-free
**readers** executing `Load`'s scan.  Entries (`entryOf{key, value}`) are immutable heap cells; a slot is its
meta byte (the 7-bit `h2` of the key, or "empty") plus its entry pointer.

Writer micro-store orders (extracted facts pinned in `Expect/DoCompute.lean`):
* insert into an empty slot: `meta[i] := h2`, then `entries[i] := new entry`;
* delete: `meta[i] := empty`, then `entries[i] := nil`;
* update: `entries[i] := new entry` (one store);
* append: a new bucket is initialised privately (`meta[0]`, `entries[0]`) and then linked by one store of `next`.

Reader (`Load`): per bucket one atomic load of `meta`, then for every slot whose byte equals the searched `h2`
(in ascending slot order) one atomic load of the entry pointer: non-nil and key equal ⇒ return its value;
then one atomic load of `next`.

The *logical content* of the chain is what a scan by the lock holder sees: key `k` is present with value `v`
iff some slot has meta byte `h2 k` and an entry whose key is `k`.
-/
namespace Model.SlotMapOf

abbrev Ptr := Nat
abbrev Tid := Nat

/-- slots per bucket -/
def S : Nat := 5

structure Bucket where
  /-- per slot: `none` = empty marker (0x80), `some b` = 7-bit hash byte -/
  mbytes : List (Option Nat)
  entries : List (Option Ptr)
  deriving Repr

def Bucket.empty : Bucket := { mbytes := List.replicate S none, entries := List.replicate S none }

/-- what the writer (lock holder) still has to store to finish its current update -/
inductive Pending where
  | none
  /-- insert: meta byte already stored, entry pointer still to be stored -/
  | insEntry (b i : Nat) (p : Ptr)
  /-- delete: meta byte already cleared, entry pointer still to be cleared -/
  | delEntry (b i : Nat)
  deriving Repr, DecidableEq

structure G (K V : Type) where
  buckets : List Bucket
  /-- immutable entry cells -/
  heap : Ptr → Option (K × V)
  nextPtr : Ptr
  pending : Pending

/-- one step of the writer -/
inductive WStep (K V : Type) where
  | insMeta (b i : Nat) (k : K) (v : V)
  | finish
  | delMeta (b i : Nat)
  | update (b i : Nat) (v : V)
  | append (k : K) (v : V)

inductive RPc where
  | rdMeta (b : Nat)
  | rdEntry (b : Nat) (cands : List Nat)
  | rdNext (b : Nat)
  | done
  deriving Repr, DecidableEq

structure RL (K V : Type) where
  key : K
  pc : RPc
  result : Option V

variable {K V : Type} [DecidableEq K] (h2 : K → Nat)

def getMeta (g : G K V) (b i : Nat) : Option Nat := ((g.buckets.getD b Bucket.empty).mbytes.getD i none)
def getEntry (g : G K V) (b i : Nat) : Option Ptr := ((g.buckets.getD b Bucket.empty).entries.getD i none)

def setMeta (g : G K V) (b i : Nat) (m : Option Nat) : G K V :=
  { g with buckets := g.buckets.modify b fun bk => { bk with mbytes := bk.mbytes.set i m } }
def setEntry (g : G K V) (b i : Nat) (e : Option Ptr) : G K V :=
  { g with buckets := g.buckets.modify b fun bk => { bk with entries := bk.entries.set i e } }

/-- the entry a slot logically holds: meta byte set to the key's `h2` and an entry for that key -/
def slotHolds (g : G K V) (b i : Nat) (k : K) : Option V :=
  match getMeta g b i, getEntry g b i with
  | some m, some p =>
    match g.heap p with
    | some (k', v) => if m = h2 k ∧ k' = k then some v else none
    | none => none
  | _, _ => none

/-- all slot coordinates of the chain, in scan order -/
def slots (g : G K V) : List (Nat × Nat) :=
  (List.range g.buckets.length).flatMap fun b => (List.range S).map fun i => (b, i)

/-- logical content: the value of `k` in the first slot (scan order) that logically holds `k` -/
def content (g : G K V) (k : K) : Option V := (slots g).findSome? fun bi => slotHolds h2 g bi.1 bi.2 k

/-- is slot `(b, i)` completely empty (as after a finished delete, or never used)? -/
def slotFree (g : G K V) (b i : Nat) : Bool := (getMeta g b i).isNone && (getEntry g b i).isNone

/-- the writer's step; `none` = the step is not legal in this state (the lock holder never does it) -/
def wstep (g : G K V) : WStep K V → Option (G K V)
  | .insMeta b i k v =>
    -- insertion into an existing bucket: only with no update in flight, into a free slot, for an absent key
    if g.pending = .none ∧ b < g.buckets.length ∧ i < S ∧ slotFree g b i ∧ (content h2 g k).isNone then
      some { (setMeta g b i (some (h2 k))) with
               heap := fun p => if p = g.nextPtr then some (k, v) else g.heap p,
               nextPtr := g.nextPtr + 1, pending := .insEntry b i g.nextPtr }
    else none
  | .finish =>
    match g.pending with
    | .insEntry b i p => some { (setEntry g b i (some p)) with pending := .none }
    | .delEntry b i => some { (setEntry g b i none) with pending := .none }
    | .none => none
  | .delMeta b i =>
    if g.pending = .none ∧ (getMeta g b i).isSome ∧ (getEntry g b i).isSome then
      some { (setMeta g b i none) with pending := .delEntry b i }
    else none
  | .update b i v =>
    if g.pending = .none then
      match getMeta g b i, getEntry g b i with
      | some _, some p =>
        match g.heap p with
        | some (k, _) =>
          some { (setEntry g b i (some g.nextPtr)) with
                   heap := fun q => if q = g.nextPtr then some (k, v) else g.heap q, nextPtr := g.nextPtr + 1 }
        | none => none
      | _, _ => none
    else none
  | .append k v =>
    if g.pending = .none ∧ (content h2 g k).isNone then
      some { g with
        buckets := g.buckets ++ [{ mbytes := (some (h2 k)) :: List.replicate (S - 1) none,
                                   entries := (some g.nextPtr) :: List.replicate (S - 1) none }],
        heap := fun p => if p = g.nextPtr then some (k, v) else g.heap p, nextPtr := g.nextPtr + 1 }
    else none

/-- candidate slots of a loaded meta word: those whose byte equals the searched `h2`, ascending -/
def candidates (bk : Bucket) (h : Nat) : List Nat :=
  (List.range S).filter fun i => bk.mbytes.getD i none = some h

/-- one step of a reader (never blocked, writes nothing shared) -/
def rstep (g : G K V) (l : RL K V) : RL K V :=
  match l.pc with
  | .rdMeta b => { l with pc := .rdEntry b (candidates (g.buckets.getD b Bucket.empty) (h2 l.key)) }
  | .rdEntry b [] => { l with pc := .rdNext b }
  | .rdEntry b (i :: rest) =>
    match getEntry g b i with
    | some p =>
      match g.heap p with
      | some (k', v) => if k' = l.key then { l with pc := .done, result := some v } else { l with pc := .rdEntry b rest }
      | none => { l with pc := .rdEntry b rest }
    | none => { l with pc := .rdEntry b rest }
  | .rdNext b => if b + 1 < g.buckets.length then { l with pc := .rdMeta (b + 1) } else { l with pc := .done, result := none }
  | .done => l

structure St (K V : Type) where
  g : G K V
  r : Tid → RL K V

/-- a global step: the writer does a micro-store, or reader `t` does one load, or reader `t` starts a lookup -/
inductive Act (K V : Type) where
  | w (s : WStep K V)
  | r (t : Tid)
  | start (t : Tid) (k : K)

def step (s : St K V) : Act K V → Option (St K V)
  | .w ws => (wstep h2 s.g ws).map fun g' => { s with g := g' }
  | .r t => some { s with r := fun u => if u = t then rstep h2 s.g (s.r t) else s.r u }
  | .start t k => some { s with r := fun u => if u = t then { key := k, pc := .rdMeta 0, result := none } else s.r u }

def init (k0 : K) : St K V :=
  { g := { buckets := [Bucket.empty], heap := fun _ => none, nextPtr := 0, pending := .none },
    r := fun _ => { key := k0, pc := .done, result := none } }

def run (s : St K V) : List (Act K V) → Option (St K V)
  | [] => some s
  | a :: as =>
    match step h2 s a with
    | some s' => run s' as
    | none => none

end Model.SlotMapOf
