import CacheVerif.Spec.AMap
/-!
# M4a — `Conc.Proto`: the concurrent protocol of `xsync.Map` / `xsync.MapOf`

Threads × atomic steps, in Owicki–Gries shape: shared globals `G`, per-thread locals `L`, a *local* step
function `tstep : Tid → G → L → Choice → Option (G × L)` (`none` = the thread is blocked: bucket lock or
`resizeMu` held by somebody else, or parked on the condition variable).  One pc per synchronisation action of
`Load`, `doCompute`, `resize`, `waitForResize`, `copyBucket*`, `Range`, `Clear`, `Size` in
`internal/xsync/map.go` / `mapof.go` (the two files have the same protocol; they differ in the slot-level
micro-protocol, which is M4b's business, and in the thresholds, which are parameters here).

What is abstract: the *content* of a table generation is its logical content `data` (an association list);
which bucket a key lives in is an arbitrary function `bkt gen k` (any hash, any seed); the *shape* decisions of
`doCompute` that depend on the chain layout — "is there a free slot in the chain" and "did the delete leave
the chain/bucket empty" — are adversarial inputs (`Choice`), so the model over-approximates every layout.
The commit of a writer (`dcCommit`) is one step: the one micro-store that changes what a scan sees.
The entry counter is striped as in the code: `addSize` adds to the stripe of the bucket index, `sumSize` reads
the stripes one atomic load at a time (pcs `szSum`, `dcSum`, `rzFastSum`, `rzDecideSum` loop over them), so a
sum that overlaps `addSize` calls is not a snapshot — exactly the behaviour of the code.

Ghost state (never read by the protocol): `resizer`, `bcaster`, per-thread `fnCalls`, the linearization log.
-/
namespace Model.Proto
open Spec

abbrev Tid := Nat

inductive Hint where
  | grow | shrink | clear
  deriving DecidableEq, Repr

/-- one table generation -/
structure PTbl (K V : Type) where
  len : Nat
  data : AMap K V
  /-- owner of the lock of root bucket `i` -/
  lock : Nat → Option Tid
  /-- the striped entry counter: `ctr i` is stripe `i` (only the first `stripes len` are used) -/
  ctr : Nat → Int

/-- fixed parameters of one map instance -/
structure Params (K : Type) where
  growThr : Nat → Nat
  shrinkThr : Nat → Nat
  /-- bucket index of a key in table generation `gen` (any hash function, any seeds) -/
  bkt : Nat → K → Nat
  minLen : Nat
  growOnly : Bool
  /-- number of counter stripes of a table with `len` root buckets (`newMapTable`: `len >> 10` clamped to 8 … 32) -/
  stripes : Nat → Nat

/-- an interface call.  Every writing call is `doCompute key valueFn loadIfExists computeOnly`
(`Store`, `LoadOrStore`, `LoadAndStore`, `LoadOrCompute`, `Compute`, `LoadAndDelete`, `Delete` differ only in
these arguments). -/
inductive POp (K V : Type) where
  | load (k : K)
  | dc (k : K) (g : Option V → V × Bool) (lie co : Bool)
  | size
  | clear
  | range

inductive Ret (K V : Type) where
  | unit
  | val (v : Option V) (flag : Bool)
  | size (n : Int)
  | visits (l : List (K × V))
  deriving Repr

inductive Pc where
  | idle
  -- Load
  | ldTable | ldRead
  -- Size
  | szTable | szSum
  -- doCompute
  | dcFast | dcLoadTable | dcLock | dcChkResizing | dcChkTable | dcScan | dcSum | dcFn | dcCommit
  | dcUnlock | dcAddSize | dcMaybeShrink | dcUnlockWait | dcUnlockRetry | dcUnlockGrow
  -- resize
  | rzFast | rzFastSum | rzCas | rzLoadTable | rzDecide | rzDecideSum | rzCopyLock | rzCopyDo | rzCopyUnlock | rzPublish
  | rzMuLock | rzClearFlag | rzBroadcast | rzMuUnlock
  -- waitForResize
  | wfMuLock | wfChk | wfPark | wfRelock | wfMuUnlock
  -- Clear
  | clTable
  -- Range
  | rgTable | rgLock | rgCopy | rgUnlock | rgVisit
  -- return to caller
  | ret
  deriving DecidableEq, Repr

/-- where a finished `resize` / `waitForResize` call continues -/
inductive Cont where
  | dcRetry      -- back to `compute_attempt`
  | dcDone       -- the shrink attempt after a delete: then return
  | rzAfterWait  -- `resize` lost the CAS and waited
  | clDone       -- `Clear` returns
  deriving DecidableEq, Repr

/-- a suspended `Range` (the visitor is running nested calls) -/
structure Frame (K V : Type) where
  tbl : Nat
  ri : Nat
  snap : List (K × V)
  visited : List (K × V)

structure G (K V : Type) where
  tables : Nat → PTbl K V
  ntables : Nat
  cur : Nat
  resizing : Bool
  mu : Option Tid
  /-- condition-variable notify list -/
  waiting : Tid → Bool
  growths : Nat
  shrinks : Nat
  -- ghost
  resizer : Option Tid
  bcaster : Option Tid

structure L (K V : Type) where
  pc : Pc
  op : Option (POp K V)
  /-- table generation this call works on -/
  tbl : Nat
  bi : Nat
  old : Option V
  fnres : Option (V × Bool)
  delta : Int
  leftEmpty : Bool
  result : Option (Ret K V)
  -- resize locals
  hint : Hint
  known : Nat
  rtbl : Nat
  newT : Nat
  ci : Nat
  conts : List Cont
  -- Range locals
  ri : Nat
  snap : List (K × V)
  visited : List (K × V)
  frames : List (Frame K V)
  -- `sumSize` locals: next stripe to read, sum so far
  si : Nat
  acc : Int
  -- ghost
  fnCalls : Nat

def L.init : L K V :=
  { pc := .idle, op := none, tbl := 0, bi := 0, old := none, fnres := none, delta := 0, leftEmpty := false,
    result := none, hint := .grow, known := 0, rtbl := 0, newT := 0, ci := 0, conts := [], ri := 0, snap := [],
    visited := [], frames := [], si := 0, acc := 0, fnCalls := 0 }

/-- adversarial / environment inputs of one step -/
structure Choice (K V : Type) where
  /-- the call to start (when idle, or from inside a Range visitor) -/
  op : Option (POp K V) := none
  /-- layout: the chain of the key's bucket has a free slot -/
  hasFree : Bool := true
  /-- layout: the delete left the chain (Map) / the bucket (MapOf) empty -/
  leftEmpty : Bool := false
  /-- the Range visitor's return value -/
  cont : Bool := true

variable {K V : Type} [DecidableEq K]

def setTbl (g : G K V) (i : Nat) (t : PTbl K V) : G K V :=
  { g with tables := fun j => if j = i then t else g.tables j }

def PTbl.setLock (t : PTbl K V) (i : Nat) (o : Option Tid) : PTbl K V :=
  { t with lock := fun j => if j = i then o else t.lock j }

def bucketOf (p : Params K) (g : G K V) (gen : Nat) (k : K) : Nat := p.bkt gen k % (g.tables gen).len

def emptyTbl (len : Nat) : PTbl K V := { len := len, data := [], lock := fun _ => none, ctr := fun _ => 0 }

/-- `addSize(bucketIdx, d)` / `addSizePlain`: the stripe of a bucket index is `bucketIdx & (stripes - 1)` -/
def PTbl.addCtr (t : PTbl K V) (n bi : Nat) (d : Int) : PTbl K V :=
  { t with ctr := fun j => if j = bi % n then t.ctr j + d else t.ctr j }

/-- the value an *atomic* sum of the stripes would give (ghost: the code sums stripe by stripe) -/
def PTbl.total (t : PTbl K V) (n : Nat) : Int := ((List.range n).map t.ctr).sum

/-- entries of table `gen` that live in root bucket `i` -/
def bucketEntries (p : Params K) (g : G K V) (gen i : Nat) : List (K × V) :=
  (g.tables gen).data.filter fun e => bucketOf p g gen e.1 == i

/-- start of a call -/
def startOp (l : L K V) (op : POp K V) : L K V :=
  match op with
  | .load _ => { l with pc := .ldTable, op := some op, result := none }
  | .dc _ _ lie _ => { l with pc := if lie then .dcFast else .dcLoadTable, op := some op, result := none, fnCalls := 0,
                               fnres := none, delta := 0, leftEmpty := false }
  | .size => { l with pc := .szTable, op := some op, result := none }
  | .clear => { l with pc := .clTable, op := some op, result := none }
  | .range => { l with pc := .rgTable, op := some op, result := none, visited := [], snap := [], ri := 0 }

/-- return from `resize` / `waitForResize` to the continuation on top of the stack -/
def popCont (l : L K V) : L K V :=
  match l.conts with
  | [] => { l with pc := .ret }
  | .dcRetry :: cs => { l with pc := .dcLoadTable, conts := cs }
  | .dcDone :: cs => { l with pc := .ret, conts := cs }
  | .rzAfterWait :: cs =>
    -- after the fix of F4: a clear request retries the CAS, grow/shrink requests give up
    if l.hint = .clear then { l with pc := .rzCas, conts := cs } else popContAux { l with conts := cs }
  | .clDone :: cs => { l with pc := .ret, conts := cs, result := some .unit }
where
  popContAux (l : L K V) : L K V :=
    match l.conts with
    | [] => { l with pc := .ret }
    | .dcRetry :: cs => { l with pc := .dcLoadTable, conts := cs }
    | .dcDone :: cs => { l with pc := .ret, conts := cs }
    | .clDone :: cs => { l with pc := .ret, conts := cs, result := some .unit }
    | .rzAfterWait :: cs => { l with pc := .ret, conts := cs }

/-- enter `resize(known, hint)` with continuation `c` -/
def callResize (l : L K V) (known : Nat) (hint : Hint) (c : Cont) : L K V :=
  { l with pc := .rzFast, known := known, hint := hint, conts := c :: l.conts }

def callWait (l : L K V) (c : Cont) : L K V := { l with pc := .wfMuLock, conts := c :: l.conts }

def opKey (l : L K V) : Option K :=
  match l.op with
  | some (.load k) => some k
  | some (.dc k _ _ _) => some k
  | _ => none

/-- result shaping of `doCompute` -/
def dcFlags (l : L K V) : Bool × Bool :=
  match l.op with
  | some (.dc _ _ lie co) => (lie, co)
  | _ => (false, false)

/-- the local step function -/
def tstep (p : Params K) (t : Tid) (g : G K V) (l : L K V) (c : Choice K V) : Option (G K V × L K V) :=
  match l.pc with
  | .idle =>
    match c.op with
    | some op => some (g, startOp l op)
    | none => none
  -- ---------------------------------------------------------------- Load
  | .ldTable => some (g, { l with pc := .ldRead, tbl := g.cur })
  | .ldRead =>
    match opKey l with
    | some k =>
      let v := (g.tables l.tbl).data.get k
      -- the lock-free fast path of LoadOrStore/LoadOrCompute continues into the write path on a miss
      match l.op with
      | some (.dc _ _ _ co) =>
        match v with
        | some x => some (g, { l with pc := .ret, result := some (.val (some x) (!co)) })
        | none => some (g, { l with pc := .dcLoadTable })
      | _ => some (g, { l with pc := .ret, result := some (.val v v.isSome) })
    | none => none
  -- ---------------------------------------------------------------- Size
  | .szTable => some (g, { l with pc := .szSum, tbl := g.cur, si := 0, acc := 0 })
  | .szSum =>
    -- `sumSize`: one atomic load per stripe; the sum is not an atomic snapshot of the counter
    let tb := g.tables l.tbl
    let acc' := l.acc + tb.ctr l.si
    if l.si + 1 < p.stripes tb.len then some (g, { l with si := l.si + 1, acc := acc' })
    else some (g, { l with pc := .ret, result := some (.size acc') })
  -- ---------------------------------------------------------------- doCompute
  | .dcFast => some (g, { l with pc := .ldRead, tbl := g.cur })
  | .dcLoadTable =>
    match opKey l with
    | some k => some (g, { l with pc := .dcLock, tbl := g.cur, bi := bucketOf p g g.cur k })
    | none => none
  | .dcLock =>
    match (g.tables l.tbl).lock l.bi with
    | none => some (setTbl g l.tbl ((g.tables l.tbl).setLock l.bi (some t)), { l with pc := .dcChkResizing })
    | some _ => none
  | .dcChkResizing => some (g, { l with pc := if g.resizing then .dcUnlockWait else .dcChkTable })
  | .dcChkTable => some (g, { l with pc := if g.cur ≠ l.tbl then .dcUnlockRetry else .dcScan })
  | .dcScan =>
    match opKey l with
    | some k =>
      let tb := g.tables l.tbl
      match tb.data.get k with
      | some old =>
        if (dcFlags l).1 then
          some (g, { l with pc := .dcUnlock, old := some old, delta := 0, leftEmpty := false,
                            result := some (.val (some old) (!(dcFlags l).2)) })
        else some (g, { l with pc := .dcFn, old := some old })
      | none =>
        if c.hasFree then some (g, { l with pc := .dcFn, old := none })
        else some (g, { l with pc := .dcSum, old := none, si := 0, acc := 0 })   -- chain full: grow check
    | none => none
  | .dcSum =>
    let tb := g.tables l.tbl
    let acc' := l.acc + tb.ctr l.si
    if l.si + 1 < p.stripes tb.len then some (g, { l with si := l.si + 1, acc := acc' })
    else if acc' > (p.growThr tb.len : Int) then some (g, { l with pc := .dcUnlockGrow })
    else some (g, { l with pc := .dcFn })
  | .dcFn =>
    match l.op with
    | some (.dc _ f _ _) => some (g, { l with pc := .dcCommit, fnres := some (f l.old), fnCalls := l.fnCalls + 1 })
    | _ => none
  | .dcCommit =>
    match opKey l, l.fnres with
    | some k, some (nv, del) =>
      let tb := g.tables l.tbl
      let co := (dcFlags l).2
      match l.old with
      | some old =>
        if del then
          some (setTbl g l.tbl { tb with data := tb.data.erase k },
                { l with pc := .dcUnlock, delta := -1, leftEmpty := c.leftEmpty, result := some (.val (some old) (!co)) })
        else
          some (setTbl g l.tbl { tb with data := tb.data.set k nv },
                { l with pc := .dcUnlock, delta := 0, leftEmpty := false,
                         result := some (.val (some (if co then nv else old)) true) })
      | none =>
        if del then
          some (g, { l with pc := .dcUnlock, delta := 0, leftEmpty := false, result := some (.val none false) })
        else
          some (setTbl g l.tbl { tb with data := tb.data.set k nv },
                { l with pc := .dcUnlock, delta := 1, leftEmpty := false, result := some (.val (some nv) co) })
    | _, _ => none
  | .dcUnlock =>
    some (setTbl g l.tbl ((g.tables l.tbl).setLock l.bi none), { l with pc := .dcAddSize })
  | .dcAddSize =>
    let tb := g.tables l.tbl
    some (setTbl g l.tbl (tb.addCtr (p.stripes tb.len) l.bi l.delta), { l with pc := .dcMaybeShrink })
  | .dcMaybeShrink =>
    if l.leftEmpty then some (g, callResize l l.tbl .shrink .dcDone) else some (g, { l with pc := .ret })
  | .dcUnlockWait =>
    some (setTbl g l.tbl ((g.tables l.tbl).setLock l.bi none), callWait l .dcRetry)
  | .dcUnlockRetry =>
    some (setTbl g l.tbl ((g.tables l.tbl).setLock l.bi none), { l with pc := .dcLoadTable })
  | .dcUnlockGrow =>
    some (setTbl g l.tbl ((g.tables l.tbl).setLock l.bi none), callResize l l.tbl .grow .dcRetry)
  -- ---------------------------------------------------------------- resize
  | .rzFast =>
    let kt := g.tables l.known
    if l.hint = .shrink then
      if p.growOnly ∨ p.minLen = kt.len then some (g, popCont l)
      else some (g, { l with pc := .rzFastSum, si := 0, acc := 0 })
    else some (g, { l with pc := .rzCas })
  | .rzFastSum =>
    let kt := g.tables l.known
    let acc' := l.acc + kt.ctr l.si
    if l.si + 1 < p.stripes kt.len then some (g, { l with si := l.si + 1, acc := acc' })
    else if acc' > (p.shrinkThr kt.len : Int) then some (g, popCont l)
    else some (g, { l with pc := .rzCas })
  | .rzCas =>
    if g.resizing then some (g, callWait l .rzAfterWait)
    else some ({ g with resizing := true, resizer := some t }, { l with pc := .rzLoadTable })
  | .rzLoadTable => some (g, { l with pc := .rzDecide, rtbl := g.cur })
  | .rzDecide =>
    let tb := g.tables l.rtbl
    match l.hint with
    | .grow =>
      some ({ (setTbl g g.ntables (emptyTbl (tb.len * 2))) with ntables := g.ntables + 1, growths := g.growths + 1 },
            { l with pc := .rzCopyLock, newT := g.ntables, ci := 0 })
    | .shrink =>
      if tb.len > p.minLen then some (g, { l with pc := .rzDecideSum, si := 0, acc := 0 })
      else some (g, { l with pc := .rzMuLock, newT := l.rtbl })   -- abandoned: nothing to publish
    | .clear =>
      some ({ (setTbl g g.ntables (emptyTbl p.minLen)) with ntables := g.ntables + 1 },
            { l with pc := .rzPublish, newT := g.ntables })
  | .rzDecideSum =>
    let tb := g.tables l.rtbl
    let acc' := l.acc + tb.ctr l.si
    if l.si + 1 < p.stripes tb.len then some (g, { l with si := l.si + 1, acc := acc' })
    else if acc' ≤ (p.shrinkThr tb.len : Int) then
      some ({ (setTbl g g.ntables (emptyTbl (tb.len / 2))) with ntables := g.ntables + 1, shrinks := g.shrinks + 1 },
            { l with pc := .rzCopyLock, newT := g.ntables, ci := 0 })
    else some (g, { l with pc := .rzMuLock, newT := l.rtbl })   -- abandoned: nothing to publish
  | .rzCopyLock =>
    if l.ci < (g.tables l.rtbl).len then
      match (g.tables l.rtbl).lock l.ci with
      | none => some (setTbl g l.rtbl ((g.tables l.rtbl).setLock l.ci (some t)), { l with pc := .rzCopyDo })
      | some _ => none
    else some (g, { l with pc := .rzPublish })
  | .rzCopyDo =>
    let es := bucketEntries p g l.rtbl l.ci
    let nt := g.tables l.newT
    let nt' := { (nt.addCtr (p.stripes nt.len) l.ci es.length) with data := es.foldl (fun d e => d.set e.1 e.2) nt.data }
    some (setTbl g l.newT nt', { l with pc := .rzCopyUnlock })
  | .rzCopyUnlock =>
    some (setTbl g l.rtbl ((g.tables l.rtbl).setLock l.ci none), { l with pc := .rzCopyLock, ci := l.ci + 1 })
  | .rzPublish => some ({ g with cur := l.newT }, { l with pc := .rzMuLock })
  | .rzMuLock =>
    match g.mu with
    | none => some ({ g with mu := some t }, { l with pc := .rzClearFlag })
    | some _ => none
  | .rzClearFlag => some ({ g with resizing := false, resizer := none, bcaster := some t }, { l with pc := .rzBroadcast })
  | .rzBroadcast => some ({ g with waiting := fun _ => false, bcaster := none }, { l with pc := .rzMuUnlock })
  | .rzMuUnlock => some ({ g with mu := none }, popCont l)
  -- ---------------------------------------------------------------- waitForResize
  | .wfMuLock =>
    match g.mu with
    | none => some ({ g with mu := some t }, { l with pc := .wfChk })
    | some _ => none
  | .wfChk =>
    if g.resizing then
      some ({ g with mu := none, waiting := fun x => if x = t then true else g.waiting x }, { l with pc := .wfPark })
    else some (g, { l with pc := .wfMuUnlock })
  | .wfPark => if g.waiting t then none else some (g, { l with pc := .wfRelock })
  | .wfRelock =>
    match g.mu with
    | none => some ({ g with mu := some t }, { l with pc := .wfChk })
    | some _ => none
  | .wfMuUnlock => some ({ g with mu := none }, popCont l)
  -- ---------------------------------------------------------------- Clear
  | .clTable => some (g, callResize { l with tbl := g.cur } g.cur .clear .clDone)
  -- ---------------------------------------------------------------- Range
  | .rgTable => some (g, { l with pc := .rgLock, tbl := g.cur, ri := 0, visited := [] })
  | .rgLock =>
    if l.ri < (g.tables l.tbl).len then
      match (g.tables l.tbl).lock l.ri with
      | none => some (setTbl g l.tbl ((g.tables l.tbl).setLock l.ri (some t)), { l with pc := .rgCopy })
      | some _ => none
    else some (g, { l with pc := .ret, result := some (.visits l.visited) })
  | .rgCopy => some (g, { l with pc := .rgUnlock, snap := bucketEntries p g l.tbl l.ri })
  | .rgUnlock => some (setTbl g l.tbl ((g.tables l.tbl).setLock l.ri none), { l with pc := .rgVisit })
  | .rgVisit =>
    match c.op with
    | some op =>
      -- the visitor calls back into the container: suspend the traversal
      some (g, startOp { l with frames := { tbl := l.tbl, ri := l.ri, snap := l.snap, visited := l.visited } :: l.frames } op)
    | none =>
      match l.snap with
      | [] => some (g, { l with pc := .rgLock, ri := l.ri + 1 })
      | e :: rest =>
        if c.cont then some (g, { l with snap := rest, visited := l.visited ++ [e] })
        else some (g, { l with pc := .ret, snap := [], visited := l.visited ++ [e], result := some (.visits (l.visited ++ [e])) })
  -- ---------------------------------------------------------------- return
  | .ret =>
    match l.frames with
    | [] => some (g, { l with pc := .idle, op := none })
    | f :: fs =>
      -- a nested call made by a Range visitor returns into the visitor
      some (g, { l with pc := .rgVisit, op := some .range, tbl := f.tbl, ri := f.ri, snap := f.snap, visited := f.visited, frames := fs })

/-! ### the global system -/

structure St (K V : Type) where
  g : G K V
  l : Tid → L K V

def step (p : Params K) (s : St K V) (t : Tid) (c : Choice K V) : Option (St K V) :=
  match tstep p t s.g (s.l t) c with
  | none => none
  | some (g', l') => some { g := g', l := fun x => if x = t then l' else s.l x }

/-- a new map: generation 0 is the empty table of `len` root buckets -/
def init (p : Params K) : St K V :=
  { g := { tables := fun _ => emptyTbl p.minLen, ntables := 1, cur := 0, resizing := false, mu := none,
           waiting := fun _ => false, growths := 0, shrinks := 0, resizer := none, bcaster := none },
    l := fun _ => L.init }

def run (p : Params K) (s : St K V) : List (Tid × Choice K V) → Option (St K V)
  | [] => some s
  | (t, c) :: rest =>
    match step p s t c with
    | some s' => run p s' rest
    | none => none

/-- reachable states: any schedule of any number of threads, any inputs -/
def Reach (p : Params K) (s : St K V) : Prop := ∃ sched, run p (init p) sched = some s

end Model.Proto
