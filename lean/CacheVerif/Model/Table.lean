import CacheVerif.Spec.AMap
import CacheVerif.Generated.Leaf
/-!
# M3 — sequential model of the CLHT tables `xsync.Map` and `xsync.MapOf`

One hand-written model, instantiated twice through `Variant` (slots per bucket, thresholds, bucket-index
function, the "bucket left empty" rule), following the control flow of `doCompute`, `resize`, `copyBucket*`,
`appendToBucket*`, `Range`, `Clear`, `Size`, `NewMap*` in `internal/xsync/map.go` / `mapof.go`.

A bucket chain is a flat list of slots whose length is a multiple of `S`; bucket `j` of the chain is the
slots `[j*S, (j+1)*S)`.  The packed words (`topHashMutex`, `meta`) are not stored: a slot's word bits are a
function of the slot content (`Gen.storeTopHash` / `Gen.setByte … (Gen.h2 …)`), and the search visits
occupied slots by key equality; that the word-filtered search of the code finds the same slot is the content
of the leaf lemmas in `Proofs/LeafBits.lean`.  The thresholds, `nextPowOf2` and the hash split `h1/h2` come
from `Gen` (machine-translated).  Hash function and per-table seeds are parameters.
-/
namespace Model.Table
open Spec

abbrev Slots (K V : Type) := List (Option (K × V))

/-- what distinguishes the two tables -/
structure Variant where
  /-- entries per bucket -/
  S : Nat
  growThr : Nat → Nat
  shrinkThr : Nat → Nat
  presizeArg : Nat → Nat
  /-- bucket index of a hash in a table of `len` buckets -/
  bidx : BitVec 64 → Nat → Nat
  /-- `Map`: shrink is attempted when the whole chain became empty; `MapOf`: when the bucket that held the
  deleted entry became empty -/
  wholeChain : Bool

def mapVariant : Variant :=
  { S := Gen.entriesPerMapBucket, growThr := Gen.growThresholdMap, shrinkThr := Gen.shrinkThresholdMap,
    presizeArg := Gen.presizeArgMap, bidx := fun h len => h.toNat % len, wholeChain := true }

def mapOfVariant : Variant :=
  { S := Gen.entriesPerMapOfBucket, growThr := Gen.growThresholdMapOf, shrinkThr := Gen.shrinkThresholdMapOf,
    presizeArg := Gen.presizeArgMapOf, bidx := fun h len => (Gen.h1 h).toNat % len, wholeChain := false }

structure Tbl (K V : Type) where
  chains : List (Slots K V)
  seed : BitVec 64
  /-- sum of the counter stripes -/
  size : Int

structure St (K V : Type) where
  tbl : Tbl K V
  minLen : Nat
  growOnly : Bool
  /-- number of tables created so far (index into the seed oracle) -/
  gen : Nat
  growths : Nat
  shrinks : Nat

/-- hash function and seed oracle (`makeSeed` for the n-th table) -/
structure Env (K : Type) where
  hash : K → BitVec 64 → BitVec 64
  seeds : Nat → BitVec 64

variable {K V : Type} [DecidableEq K]

/-! ### chains -/

def lookup (k : K) : Slots K V → Option V
  | [] => none
  | none :: r => lookup k r
  | some (k', v) :: r => if k' = k then some v else lookup k r

/-- replace the value in the slot holding `k` (in-place update) -/
def upd (k : K) (v : V) : Slots K V → Slots K V
  | [] => []
  | none :: r => none :: upd k v r
  | some (k', v') :: r => if k' = k then some (k, v) :: r else some (k', v') :: upd k v r

/-- empty the slot holding `k` -/
def del (k : K) : Slots K V → Slots K V
  | [] => []
  | none :: r => none :: del k r
  | some (k', v') :: r => if k' = k then none :: r else some (k', v') :: del k r

/-- fill the first empty slot; `none` if there is none -/
def fillFirst (k : K) (v : V) : Slots K V → Option (Slots K V)
  | [] => none
  | none :: r => some (some (k, v) :: r)
  | some e :: r => (fillFirst k v r).map (some e :: ·)

/-- a fresh bucket with the entry in slot 0 -/
def newBucket (S : Nat) (k : K) (v : V) : Slots K V := some (k, v) :: List.replicate (S - 1) none

/-- `appendToBucket*`: first empty slot, else a new bucket at the end of the chain -/
def place (S : Nat) (k : K) (v : V) (s : Slots K V) : Slots K V :=
  match fillFirst k v s with
  | some s' => s'
  | none => s ++ newBucket S k v

def occupied (s : Slots K V) : List (K × V) := s.filterMap id

/-- index (in the flat chain) of the slot holding `k` -/
def slotOf (k : K) : Slots K V → Option Nat
  | [] => none
  | none :: r => (slotOf k r).map (· + 1)
  | some (k', _) :: r => if k' = k then some 0 else (slotOf k r).map (· + 1)

/-- is bucket `j` (slots `[j*S, (j+1)*S)`) of the chain empty? -/
def bucketEmpty (S : Nat) (j : Nat) (s : Slots K V) : Bool := ((s.drop (j * S)).take S).all Option.isNone

/-! ### tables -/

def emptyChain (S : Nat) : Slots K V := List.replicate S none

/-- `newMapTable(len)`: `len` empty root buckets, the next seed, counter 0 -/
def newTbl (var : Variant) (env : Env K) (len gen : Nat) : Tbl K V :=
  { chains := List.replicate len (emptyChain var.S), seed := env.seeds gen, size := 0 }

def Tbl.len (t : Tbl K V) : Nat := t.chains.length

def Tbl.bucketOf (var : Variant) (env : Env K) (t : Tbl K V) (k : K) : Nat := var.bidx (env.hash k t.seed) t.len

def Tbl.chain (t : Tbl K V) (i : Nat) : Slots K V := t.chains.getD i []

def Tbl.setChain (t : Tbl K V) (i : Nat) (c : Slots K V) : Tbl K V := { t with chains := t.chains.set i c }

/-- all entries in traversal order (`Range` order: root buckets in index order, chain order inside) -/
def Tbl.entries (t : Tbl K V) : List (K × V) := t.chains.flatMap occupied

/-- `NewMap(WithPresize(hint))` / `NewMapOf…`: `hint` ≤ 0 or small gives the default 32 buckets -/
def new (var : Variant) (env : Env K) (hint : Int) (growOnly : Bool) : St K V :=
  let len :=
    if hint ≤ (Gen.defaultMinMapTableLen * var.S : Nat) then Gen.defaultMinMapTableLen
    else (Gen.nextPowOf2 (BitVec.ofNat 32 (var.presizeArg hint.toNat))).toNat
  { tbl := newTbl var env len 0, minLen := len, growOnly := growOnly, gen := 1, growths := 0, shrinks := 0 }

/-- copy every entry of the old table into the new one (`copyBucket*` + `addSizePlain`) -/
def copyAll (var : Variant) (env : Env K) (es : List (K × V)) (dst : Tbl K V) : Tbl K V :=
  es.foldl (fun d e =>
    let i := d.bucketOf var env e.1
    { (d.setChain i (place var.S e.1 e.2 (d.chain i))) with size := d.size + 1 }) dst

inductive Hint where
  | grow | shrink | clear
  deriving DecidableEq, Repr

/-- `resize(knownTable, hint)` with no concurrent resizer (the CAS on `resizing` succeeds) -/
def resize (var : Variant) (env : Env K) (m : St K V) (hint : Hint) : St K V :=
  let t := m.tbl
  match hint with
  | .grow =>
    let nt := copyAll var env t.entries (newTbl var env (t.len * 2) m.gen)
    { m with tbl := nt, gen := m.gen + 1, growths := m.growths + 1 }
  | .shrink =>
    if m.growOnly || m.minLen == t.len || t.size > (var.shrinkThr t.len : Int) then m
    else if t.len > m.minLen && t.size ≤ (var.shrinkThr t.len : Int) then
      let nt := copyAll var env t.entries (newTbl var env (t.len / 2) m.gen)
      { m with tbl := nt, gen := m.gen + 1, shrinks := m.shrinks + 1 }
    else m
  | .clear =>
    { m with tbl := newTbl var env m.minLen m.gen, gen := m.gen + 1 }

/-- after a delete emptied slot `idx` of `chain`: does the code attempt a shrink? -/
def leftEmpty (var : Variant) (chain : Slots K V) (idx : Nat) : Bool :=
  if var.wholeChain then chain.all Option.isNone else bucketEmpty var.S (idx / var.S) chain

/-- result of `doCompute`: `(actual, flag)`; `none` = the retry budget ran out (never happens, see
`Proofs/TableRefine.lean`) -/
def doCompute [Inhabited V] (var : Variant) (env : Env K) (m : St K V) (k : K) (g : Option V → V × Bool)
    (loadIfExists computeOnly : Bool) : Nat → Option (St K V × (V × Bool))
  | 0 => none
  | fuel + 1 =>
    let t := m.tbl
    let bi := t.bucketOf var env k
    let chain := t.chain bi
    match lookup k chain with
    | some old =>
      if loadIfExists then some (m, (old, !computeOnly))
      else
        let r := g (some old)
        if r.2 then
          -- deletion
          let chain' := del k chain
          let m' := { m with tbl := { (t.setChain bi chain') with size := t.size - 1 } }
          let m'' := if leftEmpty var chain' ((slotOf k chain).getD 0) then resize var env m' .shrink else m'
          some (m'', (old, !computeOnly))
        else
          let m' := { m with tbl := t.setChain bi (upd k r.1 chain) }
          some (m', (if computeOnly then r.1 else old, true))
    | none =>
      match fillFirst k (g none).1 chain with
      | some chain' =>
        -- insertion into an existing bucket
        if (g none).2 then some (m, (default, false))
        else some ({ m with tbl := { (t.setChain bi chain') with size := t.size + 1 } }, ((g none).1, computeOnly))
      | none =>
        if t.size > (var.growThr t.len : Int) then
          -- need to grow the table, then another attempt
          doCompute var env (resize var env m .grow) k g loadIfExists computeOnly fuel
        else if (g none).2 then some (m, (default, false))
        else
          -- insertion into a new bucket
          some ({ m with tbl := { (t.setChain bi (chain ++ newBucket var.S k (g none).1)) with size := t.size + 1 } },
                ((g none).1, computeOnly))

/-- retry budget: each retry doubles the table, so `size` retries are more than enough -/
def fuelFor (m : St K V) : Nat := m.tbl.size.toNat + 2

/-! ### the interface -/

inductive MOp (K V : Type) where
  | load (k : K)
  | store (k : K) (v : V)
  | loadOrStore (k : K) (v : V)
  | loadAndStore (k : K) (v : V)
  | loadOrCompute (k : K) (f : V)
  | compute (k : K) (g : Option V → V × Bool)
  | loadAndDelete (k : K)
  | delete (k : K)
  | range (f : K → V → Bool)
  | clear
  | size

inductive MOut (K V : Type) where
  | unit
  | val (v : V) (flag : Bool)
  | visits (l : List (K × V))
  | size (n : Int)
  /-- retry budget exhausted (impossible) -/
  | stuck
  deriving DecidableEq, Repr

/-- visitor walk over the entries in traversal order until the visitor returns false -/
def walk (f : K → V → Bool) : List (K × V) → List (K × V)
  | [] => []
  | (k, v) :: rest => if f k v then (k, v) :: walk f rest else [(k, v)]

/-- result + number of user-function invocations (for `loadOrCompute` / `compute`) -/
structure MRes (K V : Type) where
  out : MOut K V
  fnCalls : Nat := 0

def wrap (m : St K V) (r : Option (St K V × (V × Bool))) (calls : Nat) (drop : Bool := false) : St K V × MRes K V :=
  match r with
  | some (m', (v, b)) => (m', { out := if drop then .unit else .val v b, fnCalls := calls })
  | none => (m, { out := .stuck })

def step [Inhabited V] (var : Variant) (env : Env K) (m : St K V) : MOp K V → St K V × MRes K V
  | .load k =>
    match lookup k (m.tbl.chain (m.tbl.bucketOf var env k)) with
    | some v => (m, { out := .val v true })
    | none => (m, { out := .val default false })
  | .store k v => wrap m (doCompute var env m k (fun _ => (v, false)) false false (fuelFor m)) 0 true
  | .loadOrStore k v =>
    wrap m (doCompute var env m k (fun _ => (v, false)) true false (fuelFor m)) 0
  | .loadAndStore k v =>
    wrap m (doCompute var env m k (fun _ => (v, false)) false false (fuelFor m)) 0
  | .loadOrCompute k f =>
    let present := (lookup k (m.tbl.chain (m.tbl.bucketOf var env k))).isSome
    wrap m (doCompute var env m k (fun _ => (f, false)) true false (fuelFor m)) (if present then 0 else 1)
  | .compute k g => wrap m (doCompute var env m k g false true (fuelFor m)) 1
  | .loadAndDelete k =>
    wrap m (doCompute var env m k (fun o => (o.getD default, true)) false false (fuelFor m)) 0
  | .delete k =>
    wrap m (doCompute var env m k (fun o => (o.getD default, true)) false false (fuelFor m)) 0 true
  | .range f => (m, { out := .visits (walk f m.tbl.entries) })
  | .clear => (resize var env m .clear, { out := .unit })
  | .size => (m, { out := .size m.tbl.size })

end Model.Table
