import CacheVerif.Model.Cache
import CacheVerif.Spec.TTL
/-!
# M5 — `Conc.Cache`: concurrent model of the cache layer over an *atomic* map

Threads × atomic steps (Owicki–Gries shape, like M4a).  One step per call on the underlying `Map`/`MapOf`
interface (`Load`, `Store`, `Compute`, `Clear`, `Size`; the closure passed to `Compute` runs inside that step,
as it runs under the bucket lock), per read of the clock outside a closure, per read/write of the two
`atomic.Value` settings, per visit of `Range`, and per callback invocation.  That the underlying map may be
treated as atomic is the content of C03/C04.  The clock is a global that only moves forward (`tick`), at any
moment, also in the middle of a call.

Method bodies follow `xsync_map.go` / `xsync_mapof.go` (both twins have the same call structure); the decision
code is `Gen.*` through `Model.Cache`'s closures (`getOrSetFn`, `refreshFn`, `computeFn`, `sweepFn`).

Ghost state: `abs`, the abstract `Spec.TTL` state, updated only at linearization points; per-thread `absAtLoad`
(the abstract binding of the key at the instant of a lock-free `Load`, for the hindsight argument of the
`Get` family); `ledger` of callback invocations.
-/
namespace Model.ConcCache
open Spec Model

abbrev Tid := Nat

/-- calls of the cache interface that C02 speaks about -/
inductive COp (K V : Type) where
  | set (k : K) (v : V) (d : Int)
  | get (k : K)
  | getWithExpiration (k : K)
  | getWithTTL (k : K)
  | getOrSet (k : K) (v : V) (d : Int)
  | getAndSet (k : K) (v : V) (d : Int)
  | getAndRefresh (k : K) (d : Int)
  | getOrCompute (k : K) (f : V) (d : Int)
  | compute (k : K) (g : Option V → V × Bool) (d : Int)
  | getAndDelete (k : K)
  | delete (k : K)
  | deleteExpired
  | clear
  | count
  | setDefaultExpiration (d : Int)
  | setEvictedCallback (cb : Option Nat)

inductive Pc where
  | idle
  | setReadDflt | setReadClock | setStore
  | getLoad | getChkClock | getCompute | getTTLClock
  | rmw            -- the single `Compute` of GetOrSet / GetAndSet / GetAndRefresh / GetOrCompute / Compute
  | gdCompute | gdReadCb | gdFire
  | deReadCb | deReadClock | deVisit | deCompute | deFire
  | clClear | cntSize | sdStore | scStore
  | ret
  deriving DecidableEq, Repr

structure G (K V : Type) where
  items : AMap K (Item V)
  now : Int
  dflt : Int
  cb : Option Nat
  /-- ghost: callback invocations so far (callback id, key, value) -/
  ledger : List (Nat × K × V)
  /-- ghost: the abstract TTL state, changed only at linearization points -/
  abs : TTL.St K V

structure L (K V : Type) where
  pc : Pc
  op : Option (COp K V)
  /-- `d` after the `DefaultExpiration` substitution (Set) -/
  d : Int
  e : Int
  /-- item returned by the lock-free `Load` -/
  loaded : Option (Item V)
  /-- the pass's `now` (DeleteExpired) -/
  passNow : Int
  /-- the callback read at the start of the pass / after the removal -/
  ec : Option Nat
  /-- the snapshot entry the traversal's visitor is processing -/
  cur : Option (K × Item V)
  /-- removed entries whose callback has not fired yet -/
  queue : List (K × V)
  removed : Option (Item V)
  result : Option (Out K V)
  /-- ghost: abstract binding of the key at the instant of the `Load`, and the clock then -/
  absAtLoad : Option (Item V)
  nowAtLoad : Int
  /-- ghost: the (key, value) pairs this call's `GetAndDelete`/`Delete`/`DeleteExpired` `Compute`s have physically
  removed from `items` so far (never read by non-ghost code) -/
  erased : List (K × V)
  /-- ghost: the (key, value) pairs this call has invoked the evicted callback with so far, in order (appended
  exactly where `G.ledger` is appended, reset where `erased` is reset; never read by non-ghost code) -/
  fired : List (K × V)

def L.init {K V : Type} : L K V :=
  { pc := .idle, op := none, d := 0, e := 0, loaded := none, passNow := 0, ec := none, cur := none,
    queue := [], removed := none, result := none, absAtLoad := none, nowAtLoad := 0, erased := [], fired := [] }

/-- environment inputs of one step -/
structure Choice (K V : Type) where
  op : Option (COp K V) := none
  /-- the key the traversal hands to the visitor next (`none`: the traversal is over).  Which keys `Range` meets,
  in which order, is the map's business (C07): a key stored after the pass began may be met, a key removed
  meanwhile may not; the model lets the environment choose freely. -/
  key : Option K := none
  /-- the item the traversal's bucket snapshot holds for that key (`none`: the key was not in the snapshot).
  `Range` copies a whole bucket under its lock and visits the copies afterwards, so what the visitor sees may
  be older than the current content; the model lets it be *anything* — the conditional delete re-checks. -/
  seen : Option (Item V) := none

variable {K V : Type} [DecidableEq K] [Inhabited V]

/-- the M2 state the closures are evaluated in (they read clock and settings at the instant of the step) -/
def view (g : G K V) : CSt K V := { items := g.items, now := g.now, dflt := g.dflt, cb := g.cb }

def startOp (l : L K V) (op : COp K V) : L K V :=
  let l := { l with op := some op, result := none, loaded := none, queue := [], removed := none, cur := none, erased := [],
                    fired := [] }
  match op with
  | .set _ _ d => { l with pc := if d = Gen.DefaultExpiration then .setReadDflt else .setReadClock, d := d }
  | .get _ | .getWithExpiration _ | .getWithTTL _ => { l with pc := .getLoad }
  | .getOrSet .. | .getAndSet .. | .getAndRefresh .. | .getOrCompute .. | .compute .. => { l with pc := .rmw }
  | .getAndDelete _ | .delete _ => { l with pc := .gdCompute }
  | .deleteExpired => { l with pc := .deReadCb }
  | .clear => { l with pc := .clClear }
  | .count => { l with pc := .cntSize }
  | .setDefaultExpiration _ => { l with pc := .sdStore }
  | .setEvictedCallback _ => { l with pc := .scStore }

def opKey (l : L K V) : Option K :=
  match l.op with
  | some (.set k _ _) | some (.get k) | some (.getWithExpiration k) | some (.getWithTTL k)
  | some (.getOrSet k _ _) | some (.getAndSet k _ _) | some (.getAndRefresh k _) | some (.getOrCompute k _ _)
  | some (.compute k _ _) | some (.getAndDelete k) | some (.delete k) => some k
  | _ => none

/-- the Spec operation a cache call stands for -/
def toSpec : COp K V → Op K V
  | .set k v d => .set k v d
  | .get k => .get k
  | .getWithExpiration k => .getWithExpiration k
  | .getWithTTL k => .getWithTTL k
  | .getOrSet k v d => .getOrSet k v d
  | .getAndSet k v d => .getAndSet k v d
  | .getAndRefresh k d => .getAndRefresh k d
  | .getOrCompute k f d => .getOrCompute k f d
  | .compute k g d => .compute k g d
  | .getAndDelete k => .getAndDelete k
  | .delete k => .delete k
  | .deleteExpired => .deleteExpired
  | .clear => .clear
  | .count => .count
  | .setDefaultExpiration d => .setDefaultExpiration d
  | .setEvictedCallback c => .setEvictedCallback c

/-- result of a `Get`-family call that found the live item `i` -/
def hitResult (op : COp K V) (i : Item V) (now : Int) : Out K V :=
  match op with
  | .getWithExpiration _ => .valExp i.v (if i.e > 0 then i.e else 0) true
  | .getWithTTL _ => .valTTL i.v (if i.e > 0 then i.e - now else Gen.NoExpiration) true
  | _ => .val i.v true

def missResult (op : COp K V) : Out K V :=
  match op with
  | .getWithExpiration _ => .valExp default 0 false
  | .getWithTTL _ => .valTTL default 0 false
  | _ => .val default false

/-- `get` found the live item `i`: every call of the family returns at once, except `GetWithTTL` of an entry with
an expiration instant, which reads the clock a second time to compute the remaining lifetime -/
def afterHit (l : L K V) (op : COp K V) (i : Item V) (now : Int) : L K V :=
  match op with
  | .getWithTTL _ => if i.e > 0 then { l with pc := .getTTLClock, loaded := some i } else { l with pc := .ret, result := some (hitResult op i now) }
  | _ => { l with pc := .ret, result := some (hitResult op i now) }

/-- advance the ghost abstract state by the spec step of `op` (a linearization point) -/
def linearize (g : G K V) (op : COp K V) : G K V := { g with abs := (TTL.step g.abs (toSpec op)).1 }

def tstep (_t : Tid) (g : G K V) (l : L K V) (c : Choice K V) : Option (G K V × L K V) :=
  match l.pc with
  | .idle =>
    match c.op with
    | some op => some (g, startOp l op)
    | none => none
  -- ------------------------------------------------------------------ Set: expiration(d) then Store
  | .setReadDflt => some (g, { l with pc := .setReadClock, d := g.dflt })
  | .setReadClock => some (g, { l with pc := .setStore, e := if l.d > 0 then g.now + l.d else 0 })
  | .setStore =>
    match l.op with
    | some (.set k v _) =>
      -- linearization point; the stored instant was computed from an earlier clock reading
      -- (if the clock has meanwhile passed that instant, the entry is stored already expired: logically absent)
      some ({ g with items := g.items.store k ⟨v, l.e⟩,
                     abs := { g.abs with live := if TTL.expired l.e g.now then g.abs.live.erase k else g.abs.live.set k ⟨v, l.e⟩ } },
            { l with pc := .ret, result := some .unit })
    | _ => none
  -- ------------------------------------------------------------------ get: Load, clock, maybe Compute
  | .getLoad =>
    match opKey l, l.op with
    | some k, some op =>
      match (g.items.load k) with
      | (_, false) => some (g, { l with pc := .ret, result := some (missResult op), absAtLoad := g.abs.live.get k, nowAtLoad := g.now })
      | (i, true) => some (g, { l with pc := .getChkClock, loaded := some i, absAtLoad := g.abs.live.get k, nowAtLoad := g.now })
    | _, _ => none
  | .getChkClock =>
    match l.loaded, l.op with
    | some i, some op =>
      if !Gen.item_expired i.e g.now then some (g, afterHit l op i g.now)
      else some (g, { l with pc := .getCompute })
    | _, _ => none
  | .getCompute =>
    match opKey l, l.op with
    | some k, some op =>
      -- double check or delete, under the bucket lock: one atomic step; linearization point
      let r' := g.items.compute k fun o =>
        match o with
        | some i' => if !Cache.expired (view g) i' then (i', false) else (default, true)
        | none => (default, true)
      some ({ g with items := r'.1 },
            if r'.2.2 then afterHit l op r'.2.1 g.now else { l with pc := .ret, result := some (missResult op) })
    | _, _ => none
  | .getTTLClock =>
    -- `GetWithTTL` of an entry that can expire: `time.Until(time.Unix(0, i.e))` reads the clock once more
    match l.loaded with
    | some i => some (g, { l with pc := .ret, result := some (.valTTL i.v (i.e - g.now) true) })
    | none => none
  -- ------------------------------------------------------------------ read-modify-write calls: one Compute
  | .rmw =>
    match l.op with
    | some op =>
      let r := Cache.step (view g) (toSpec op)
      some (linearize { g with items := r.1.items } op, { l with pc := .ret, result := some r.2.out })
    | none => none
  -- ------------------------------------------------------------------ GetAndDelete / Delete
  | .gdCompute =>
    match opKey l, l.op with
    | some k, some op =>
      let old := g.items.get k
      let r := g.items.compute k fun _ => (default, true)
      let res : Out K V :=
        match op, old with
        | .delete _, _ => .unit
        | _, some i => if !Cache.expired (view g) i then .val i.v true else .val default false
        | _, none => .val default false
      some (linearize { g with items := r.1 } op,
            { l with pc := if old.isSome then .gdReadCb else .ret, removed := old, result := some res,
                     erased := match old with | some i => l.erased ++ [(k, i.v)] | none => l.erased })
    | _, _ => none
  | .gdReadCb => some (g, { l with pc := .gdFire, ec := g.cb })
  | .gdFire =>
    match opKey l, l.removed, l.ec with
    | some k, some i, some cbid => some ({ g with ledger := g.ledger ++ [(cbid, k, i.v)] }, { l with pc := .ret, fired := l.fired ++ [(k, i.v)] })
    | _, _, _ => some (g, { l with pc := .ret })
  -- ------------------------------------------------------------------ DeleteExpired
  | .deReadCb => some (g, { l with pc := .deReadClock, ec := g.cb })
  | .deReadClock => some (g, { l with pc := .deVisit, passNow := g.now, queue := [] })
  | .deVisit =>
    -- the traversal hands some key to the visitor, with the item its bucket snapshot holds for it
    match c.key with
    | none => some (g, { l with pc := .deFire })
    | some k =>
      match c.seen with
      | some i =>
        if Gen.item_expiredWithNow i.e l.passNow then some (g, { l with pc := .deCompute, cur := some (k, i) })
        else some (g, l)
      | none => some (g, l)
  | .deCompute =>
    match l.cur with
    | some (k, _) =>
      let logged := match g.items.get k with
        | some cur => if Gen.item_expiredWithNow cur.e l.passNow && l.ec.isSome then [(k, cur.v)] else []
        | none => []
      some ({ g with items := (g.items.compute k (Cache.sweepFn l.passNow)).1 },
            { l with pc := .deVisit, cur := none, queue := l.queue ++ logged,
                     erased := l.erased ++ (match g.items.get k with
                       | some cur => if Gen.item_expiredWithNow cur.e l.passNow then [(k, cur.v)] else []
                       | none => []) })
    | none => none
  | .deFire =>
    match l.queue, l.ec with
    | (k, v) :: rest, some cbid => some ({ g with ledger := g.ledger ++ [(cbid, k, v)] }, { l with queue := rest, fired := l.fired ++ [(k, v)] })
    | _, _ => some (g, { l with pc := .ret, queue := [], result := some .unit })
  -- ------------------------------------------------------------------ the rest
  | .clClear => some (linearize { g with items := [] } .clear, { l with pc := .ret, result := some .unit })
  | .cntSize => some (g, { l with pc := .ret, result := some (.count g.items.size) })
  | .sdStore =>
    match l.op with
    | some (.setDefaultExpiration d) => some (linearize { g with dflt := d } (.setDefaultExpiration d), { l with pc := .ret, result := some .unit })
    | _ => none
  | .scStore =>
    match l.op with
    | some (.setEvictedCallback cbid) => some (linearize { g with cb := cbid } (.setEvictedCallback cbid), { l with pc := .ret, result := some .unit })
    | _ => none
  | .ret => some (g, { l with pc := .idle, op := none })

structure St (K V : Type) where
  g : G K V
  l : Tid → L K V

/-- a thread step, or (for `none`) a clock advance by `δ ≥ 0` -/
def step (s : St K V) (who : Option Tid) (c : Choice K V) (δ : Nat) : Option (St K V) :=
  match who with
  | none =>
    some { s with g := { s.g with now := s.g.now + δ, abs := (TTL.step s.g.abs (.tick δ)).1 } }
  | some t =>
    match tstep t s.g (s.l t) c with
    | none => none
    | some (g', l') => some { g := g', l := fun x => if x = t then l' else s.l x }

def init (dflt : Int) (cb : Option Nat) (now : Int) : St K V :=
  { g := { items := [], now := now, dflt := dflt, cb := cb, ledger := [], abs := TTL.init dflt cb now },
    l := fun _ => L.init }

def run (s : St K V) : List (Option Tid × Choice K V × Nat) → Option (St K V)
  | [] => some s
  | (w, c, δ) :: rest =>
    match step s w c δ with
    | some s' => run s' rest
    | none => none

def Reach (dflt : Int) (cb : Option Nat) (now : Int) (s : St K V) : Prop :=
  ∃ sched, run (init dflt cb now) sched = some s

end Model.ConcCache
