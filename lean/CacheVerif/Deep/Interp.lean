import CacheVerif.Deep.Syntax
import CacheVerif.Model.Types
/-!
# Deep embedding of the cache-layer method bodies: meaning of the syntax

A definitional interpreter for the Go subset of `Deep.Syntax`, sequential, over the same world the hand-written
models M2 use: the underlying map as `Spec.AMap K (Item V)`, the clock, the two `atomic.Value` settings, and the
ledgers of user-function invocations, evicted-callback invocations and visitor invocations.

Go features carried faithfully: local variables live in heap cells and closures capture them **by reference**
(`ok = true` inside the closure handed to `Compute` is seen by the enclosing method); the cells of a call are
released when it returns (stack discipline); `:=` re-uses a variable
already declared in the same scope; named results and the bare `return`; left-to-right evaluation of composite
literal fields and call arguments (`item{v: valueFn(), e: c.expiration(d)}` reads the clock *after* the user
function ran); short-circuit `&&` / `||`; a failed type assertion, a call of a nil function, an ill-typed
operand or exhausted fuel are all `none` ("panic / stuck").  User functions are values: they return what the
operation says they return, are recorded in the ledger with the argument they received, and may let the clock
advance by `δ` while they run.

Trusted: this file *is* the semantics of the Go subset (about 300 lines), next to the printer `tools/go2deep`.
-/
namespace Deep
open Spec Model

/-- user-supplied functions -/
inductive UFn (K V : Type) where
  /-- `GetOrCompute`'s `func() V`: returns `v`; the clock advances by `δ` while it runs -/
  | fn0 (v : V) (δ : Nat)
  /-- `Compute`'s `func(old V, loaded bool) (V, bool)` -/
  | fn2 (g : Option V → V × Bool) (δ : Nat)
  /-- `Range`'s visitor -/
  | visitor (f : K → V → Bool)

inductive Val (K V : Type) where
  | nil
  | bool (b : Bool)
  | int (n : Int)
  | time (n : Int)
  | zeroTime
  | key (k : K)
  | user (v : V)
  | item (v : V) (e : Int)
  | kv (k : K) (v : V)
  | kvs (l : List (K × V))
  | gomap (l : List (K × V))
  | ecb (c : Option Nat)
  | ufn (f : UFn K V)
  | clo (d : FuncDecl) (env : List (String × Nat))

abbrev Env := List (String × Nat)

/-- atomic actions of a call, as the concurrent model M5 counts them: calls on the underlying map, clock reads and
setting accesses *outside* a closure that runs under a bucket lock, traversal visits, evicted-callback invocations.
Recorded only by a tracing twin (`Twin.trace`). -/
inductive Ev (K V : Type) where
  | load (k : K) | store (k : K) | compute (k : K) | mapOther | visit (k : K) | clear | size
  | clock
  | loadSetting (field : String) | storeSetting (field : String)
  | fire (c : Nat) (k : K) (v : V)
  /-- a visitor or an evicted callback was invoked from inside a closure that runs under a bucket lock -/
  | calledLocked

structure W (K V : Type) where
  items : AMap K (Item V)
  now : Int
  dflt : Int
  cb : Option Nat
  heap : List (Val K V) := []
  fn : List (FnCall V) := []
  cbs : List (Nat × K × V) := []
  visits : List (K × V) := []
  /-- trace of atomic actions (tracing twins only) -/
  ev : List (Ev K V) := []
  /-- inside a closure handed to `Compute` / `LoadOrCompute`, i.e. under a bucket lock (tracing twins only) -/
  atomic : Bool := false

/-- what differs between the two files -/
structure Twin (K V : Type) where
  methods : List (String × FuncDecl)
  /-- `i.expired()` as a function of `i.e` and the clock (machine-translated leaf) -/
  expired : Int → Int → Bool
  expiredWithNow : Int → Int → Bool
  /-- what `Load` / `Compute` hand out for an absent key: the nil interface (`Map`) or the zero `itemOf[V]` (`MapOf`) -/
  absent : Val K V
  /-- record the trace of atomic actions (`W.ev`, `W.atomic`); the non-tracing twins leave both fields alone -/
  trace : Bool := false
  /-- the entries the underlying map's `Range` hands to its visitor, given the map's content when the traversal
  starts.  Sequentially: the content itself (`id`).  Under concurrency the map may hand over other pairs (C07 at map
  level says which); the cache-level theorems about `Range` under concurrency instantiate this field. -/
  handed : AMap K (Item V) → List (K × Item V) := id

variable {K V : Type} [DecidableEq K] [Inhabited V]

abbrev Res (K V : Type) := Option (List (Val K V) × W K V)

def lookup (env : Env) (x : String) : Option Nat :=
  match env with
  | [] => none
  | (y, l) :: r => if y = x then some l else lookup r x

def alloc (w : W K V) (v : Val K V) : Nat × W K V := (w.heap.length, { w with heap := w.heap ++ [v] })

def readCell (w : W K V) (l : Nat) : Option (Val K V) := w.heap[l]?

def writeCell (w : W K V) (l : Nat) (v : Val K V) : W K V := { w with heap := w.heap.set l v }

/-- stack discipline: the cells a call allocated (parameters, named results, locals) are released when it returns.
A closure that outlived the frame it captured would then read a missing cell and the run is stuck (`none`); the
method bodies only pass closures downwards. -/
def popTo (w : W K V) (n : Nat) : W K V := { w with heap := w.heap.take n }

def readVar (env : Env) (w : W K V) (x : String) : Option (Val K V) :=
  match lookup env x with
  | some l => readCell w l
  | none => none

/-- a value used where a `V` / `interface{}` payload is expected -/
def toV : Val K V → Option V
  | .nil => some default
  | .user v => some v
  | _ => none

def zeroOf : Ty → Val K V
  | .iface => .nil
  | .userV => .user default
  | .key => .nil
  | .item => .item default 0
  | .itemOf => .item default 0
  | .bool => .bool false
  | .int => .int 0
  | .time => .zeroTime
  | .kvs => .kvs []
  | .gomap => .gomap []
  | .ecb => .ecb none

def assertTy (v : Val K V) : Ty → Option (Val K V)
  | .item => match v with | .item a e => some (.item a e) | _ => none
  | .itemOf => match v with | .item a e => some (.item a e) | _ => none
  | .int => match v with | .int n => some (.int n) | _ => none
  | .ecb => match v with | .ecb c => some (.ecb c) | _ => none
  | .bool => match v with | .bool b => some (.bool b) | _ => none
  | _ => none

def isNil : Val K V → Option Bool
  | .nil => some true
  | .ecb c => some c.isNone
  | .ufn _ => some false
  | .clo _ _ => some false
  | _ => none

def binop (op : BinOp) (a b : Val K V) : Option (Val K V) :=
  match op, a, b with
  | .gt, .int x, .int y => some (.bool (decide (x > y)))
  | .lt, .int x, .int y => some (.bool (decide (x < y)))
  | .ge, .int x, .int y => some (.bool (decide (x ≥ y)))
  | .le, .int x, .int y => some (.bool (decide (x ≤ y)))
  | .add, .int x, .int y => some (.int (x + y))
  | .sub, .int x, .int y => some (.int (x - y))
  | .eq, .int x, .int y => some (.bool (decide (x = y)))
  | .ne, .int x, .int y => some (.bool (!decide (x = y)))
  | .eq, .bool x, .bool y => some (.bool (x == y))
  | .ne, .bool x, .bool y => some (.bool (x != y))
  | .eq, x, .nil => (isNil x).map .bool
  | .ne, x, .nil => (isNil x).map fun b => .bool (!b)
  | _, _, _ => none

def selField (v : Val K V) (f : String) : Option (Val K V) :=
  match v with
  | .item a e => if f = "v" then some (.user a) else if f = "e" then some (.int e) else none
  | .kv k a => if f = "k" then some (.key k) else if f = "v" then some (.user a) else none
  | _ => none

def asItem : Val K V → Option (Item V)
  | .item a e => some ⟨a, e⟩
  | _ => none

def ofItem (i : Item V) : Val K V := .item i.v i.e

/-- build `item{…}` from evaluated fields (omitted fields are zero) -/
def mkItem (fs : List (String × Val K V)) : Option (Val K V) :=
  let rec go : List (String × Val K V) → V → Int → Option (Val K V)
    | [], a, e => some (.item a e)
    | (f, x) :: r, a, e =>
      if f = "v" then match toV x with | some a' => go r a' e | none => none
      else if f = "e" then match x with | .int e' => go r a e' | _ => none
      else none
  go fs default 0

/-- identity on fuel.  The two loops hand the interpreter, partially applied, to a list recursion; writing its fuel
as `hide fuel` keeps `simp` from evaluating the loop body symbolically before an element is supplied (the proofs
unfold `hide` once the body is applied to a concrete element). -/
def hide (n : Nat) : Nat := n

/-- record an atomic action, unless it happens inside a closure that runs under a bucket lock -/
def emit (T : Twin K V) (w : W K V) (e : Ev K V) : W K V :=
  if T.trace then (if w.atomic then w else { w with ev := w.ev ++ [e] }) else w

/-- the closure handed to `Compute` runs under the bucket lock -/
def enter (T : Twin K V) (w : W K V) : W K V := if T.trace then { w with atomic := true } else w

/-- back to the caller's mode after the closure has returned -/
def leave (T : Twin K V) (w0 w : W K V) : W K V := if T.trace then { w with atomic := w0.atomic } else w

/-- a traversal hands an entry to the visitor -/
def emitVisit (T : Twin K V) (w : W K V) : List (Val K V) → W K V
  | .key k :: _ => emit T w (.visit k)
  | _ => w

/-- the visitor loop of `c.items.Range(fn)`: `call` is the function value applied -/
def loopItems (call : List (Val K V) → W K V → Res K V) : List (K × Item V) → W K V → Option (W K V)
  | [], w => some w
  | (k, i) :: rest, w =>
    match call [.key k, ofItem i] w with
    | some ([.bool true], w') => loopItems call rest w'
    | some ([.bool false], w') => some w'
    | _ => none

/-- `for _, v := range xs { body }` over a `[]kv` value: `body` runs the loop body with `v` bound to the element -/
def loopKvs (body : Val K V → W K V → Option (Option (List (Val K V)) × W K V)) : List (K × V) → W K V → Option (Option (List (Val K V)) × W K V)
  | [], w => some (none, w)
  | (k, a) :: rest, w =>
    match body (.kv k a) w with
    | some (none, w') => loopKvs body rest w'
    | some (some vs, w') => some (some vs, w')
    | none => none

/-- user functions, evicted callback -/
def callUser (tr : Bool) (f : Val K V) (args : List (Val K V)) (w : W K V) : Res K V :=
  match f, args with
  | .ufn (.fn0 v δ), [] => some ([.user v], { w with fn := w.fn ++ [.f], now := w.now + δ })
  | .ufn (.fn2 g δ), [old, .bool lok] =>
    match toV old with
    | some o =>
      let arg := if lok then some o else none
      some ([.user (g arg).1, .bool (g arg).2], { w with fn := w.fn ++ [.g arg], now := w.now + δ })
    | none => none
  | .ufn (.visitor f), [.key k, v] =>
    match toV v with
    | some a => some ([.bool (f k a)],
        { w with visits := w.visits ++ [(k, a)], ev := if tr && w.atomic then w.ev ++ [.calledLocked] else w.ev })
    | none => none
  | .ecb (some c), [.key k, v] =>
    match toV v with
    | some a => some ([],
        { w with cbs := w.cbs ++ [(c, k, a)],
                 ev := if tr then w.ev ++ [if w.atomic then .calledLocked else .fire c k a] else w.ev })
    | none => none
  | _, _ => none

/-- control outcome of a statement: fell through, or returned these values (`[]` = bare return) -/
abbrev Flow (K V : Type) := Option (List (Val K V))

/-- bind parameters / named results in fresh cells -/
def bindAll (names : List String) (vals : List (Val K V)) (env : Env) (w : W K V) : Option (Env × W K V) :=
  match names, vals with
  | [], [] => some (env, w)
  | x :: xs, v :: vs =>
    let (l, w') := alloc w v
    bindAll xs vs ((x, l) :: env) w'
  | _, _ => none

def readAll (env : Env) (w : W K V) : List String → Option (List (Val K V))
  | [] => some []
  | x :: xs => match readVar env w x, readAll env w xs with
    | some v, some vs => some (v :: vs)
    | _, _ => none

/-- assignment to one target whose location operands are already evaluated -/
def assignVar (env : Env) (w : W K V) (x : String) (v : Val K V) : Option (W K V) :=
  if x = "_" then some w else
  match lookup env x with
  | some l => if l < w.heap.length then some (writeCell w l v) else none
  | none => none

def assignField (env : Env) (w : W K V) (x f : String) (v : Val K V) : Option (W K V) :=
  match lookup env x with
  | some l =>
    match readCell w l, v with
    | some (.item a _), .int n => if f = "e" then some (writeCell w l (.item a n)) else none
    | some (.item _ e), x' => if f = "v" then (toV x').map fun a' => writeCell w l (.item a' e) else none
    | _, _ => none
  | none => none

def assignIndex (env : Env) (w : W K V) (m : String) (k v : Val K V) : Option (W K V) :=
  match lookup env m with
  | some l =>
    match readCell w l, k, toV v with
    | some (.gomap es), .key k', some a => some (writeCell w l (.gomap (es ++ [(k', a)])))
    | _, _, _ => none
  | none => none

def defineAll (lhs : List (String × Bool)) (vals : List (Val K V)) (env : Env) (w : W K V) : Option (Env × W K V) :=
  match lhs, vals with
  | [], [] => some (env, w)
  | (x, isNew) :: xs, v :: vs =>
    if x = "_" then defineAll xs vs env w
    else if isNew then
      let (l, w') := alloc w v
      defineAll xs vs ((x, l) :: env) w'
    else match assignVar env w x v with
      | some w' => defineAll xs vs env w'
      | none => none
  | _, _ => none

mutual
  /-- expressions; the result is a list because a call may be multi-valued -/
  def evalE (T : Twin K V) (fuel : Nat) (env : Env) (e : Expr) (w : W K V) : Res K V :=
    match fuel with
    | 0 => none
    | fuel + 1 =>
      match e with
      | .nil => some ([.nil], w)
      | .bool b => some ([.bool b], w)
      | .int n => some ([.int n], w)
      | .zero t => some ([zeroOf t], w)
      | .var x => (readVar env w x).map fun v => ([v], w)
      | .not a =>
        match evalE T fuel env a w with
        | some ([.bool b], w') => some ([.bool (!b)], w')
        | _ => none
      | .bin .land a b =>
        match evalE T fuel env a w with
        | some ([.bool false], w') => some ([.bool false], w')
        | some ([.bool true], w') =>
          (match evalE T fuel env b w' with
           | some ([.bool y], w'') => some ([.bool y], w'')
           | _ => none)
        | _ => none
      | .bin .lor a b =>
        match evalE T fuel env a w with
        | some ([.bool true], w') => some ([.bool true], w')
        | some ([.bool false], w') =>
          (match evalE T fuel env b w' with
           | some ([.bool y], w'') => some ([.bool y], w'')
           | _ => none)
        | _ => none
      | .bin op a b =>
        match evalE T fuel env a w with
        | some ([x], w') =>
          (match evalE T fuel env b w' with
           | some ([y], w'') => (binop op x y).map fun r => ([r], w'')
           | _ => none)
        | _ => none
      | .sel a f =>
        match evalE T fuel env a w with
        | some ([x], w') => (selField x f).map fun r => ([r], w')
        | _ => none
      | .assertT a t =>
        match evalE T fuel env a w with
        | some ([x], w') => (assertTy x t).map fun r => ([r], w')
        | _ => none
      | .lit _ fs =>
        match evalFields T fuel env fs w with
        | some (vs, w') => (mkItem vs).map fun r => ([r], w')
        | none => none
      | .mkKv a b =>
        match evalE T fuel env a w with
        | some ([.key k], w') =>
          (match evalE T fuel env b w' with
           | some ([y], w'') => (toV y).map fun v => ([.kv k v], w'')
           | _ => none)
        | _ => none
      | .items op args =>
        match evalArgs T fuel env args w with
        | some (vs, w') => itemsOp T fuel op vs w'
        | none => none
      | .self m args =>
        match evalArgs T fuel env args w, T.methods.lookup m with
        | some (vs, w'), some d => callDecl T fuel d [] vs w'
        | _, _ => none
      | .settingLoad f =>
        if f = "defaultExpiration" then some ([.int w.dflt], emit T w (.loadSetting f))
        else if f = "evictedCallback" then some ([.ecb w.cb], emit T w (.loadSetting f))
        else none
      | .settingStore f a =>
        match evalE T fuel env a w with
        | some ([.int d], w') => if f = "defaultExpiration" then some ([], emit T { w' with dflt := d } (.storeSetting f)) else none
        | some ([.ecb c], w') => if f = "evictedCallback" then some ([], emit T { w' with cb := c } (.storeSetting f)) else none
        | _ => none
      | .itemMeth m r args =>
        match evalE T fuel env r w with
        | some ([.item _ e], w') =>
          (match evalArgs T fuel env args w' with
           | some ([], w'') => if m = "expired" then some ([.bool (T.expired e w''.now)], emit T w'' .clock) else none
           | some ([.int now], w'') => if m = "expiredWithNow" then some ([.bool (T.expiredWithNow e now)], w'') else none
           | _ => none)
        | _ => none
      | .timeNow => some ([.time w.now], emit T w .clock)
      | .timeAdd t d =>
        match evalE T fuel env t w with
        | some ([.time n], w') =>
          (match evalE T fuel env d w' with
           | some ([.int x], w'') => some ([.time (n + x)], w'')
           | _ => none)
        | _ => none
      | .unixNano t =>
        match evalE T fuel env t w with
        | some ([.time n], w') => some ([.int n], w')
        | _ => none
      | .timeUnix s n =>
        match evalE T fuel env s w with
        | some ([.int 0], w') =>
          (match evalE T fuel env n w' with
           | some ([.int x], w'') => some ([.time x], w'')
           | _ => none)
        | _ => none
      | .timeUntil t =>
        match evalE T fuel env t w with
        | some ([.time n], w') => some ([.int (n - w'.now)], emit T w' .clock)
        | _ => none
      | .callVar f args =>
        match readVar env w f, evalArgs T fuel env args w with
        | some fv, some (vs, w') => callVal T fuel fv vs w'
        | _, _ => none
      | .append xs x =>
        match evalE T fuel env xs w with
        | some ([.kvs l], w') =>
          (match evalE T fuel env x w' with
           | some ([.kv k v], w'') => some ([.kvs (l ++ [(k, v)])], w'')
           | _ => none)
        | _ => none
      | .makeMap n =>
        match evalE T fuel env n w with
        | some ([.int _], w') => some ([.gomap []], w')
        | _ => none
      | .index _ _ => none
      | .func d => some ([.clo d env], w)

  /-- arguments: each single-valued, left to right -/
  def evalArgs (T : Twin K V) (fuel : Nat) (env : Env) (es : List Expr) (w : W K V) : Res K V :=
    match fuel with
    | 0 => none
    | fuel + 1 =>
      match es with
      | [] => some ([], w)
      | e :: rest =>
        match evalE T fuel env e w with
        | some ([v], w') =>
          (match evalArgs T fuel env rest w' with
           | some (vs, w'') => some (v :: vs, w'')
           | none => none)
        | _ => none

  def evalFields (T : Twin K V) (fuel : Nat) (env : Env) (fs : List (String × Expr)) (w : W K V) :
      Option (List (String × Val K V) × W K V) :=
    match fuel with
    | 0 => none
    | fuel + 1 =>
      match fs with
      | [] => some ([], w)
      | (f, e) :: rest =>
        match evalE T fuel env e w with
        | some ([v], w') =>
          (match evalFields T fuel env rest w' with
           | some (vs, w'') => some ((f, v) :: vs, w'')
           | none => none)
        | _ => none

  /-- `c.items.<op>(args)` with the results a builtin map gives (Spec.AMap), the function arguments being values
  of the interpreted program -/
  def itemsOp (T : Twin K V) (fuel : Nat) (op : ItemsOp) (args : List (Val K V)) (w : W K V) : Res K V :=
    match fuel with
    | 0 => none
    | fuel + 1 =>
      match op, args with
      | .Load, [.key k] =>
        match w.items.get k with
        | some i => some ([ofItem i, .bool true], emit T w (.load k))
        | none => some ([T.absent, .bool false], emit T w (.load k))
      | .Store, [.key k, .item a e] => some ([], emit T { w with items := w.items.set k ⟨a, e⟩ } (.store k))
      | .LoadOrStore, [.key k, .item a e] =>
        match w.items.get k with
        | some i => some ([ofItem i, .bool true], emit T w .mapOther)
        | none => some ([.item a e, .bool false], emit T { w with items := w.items.set k ⟨a, e⟩ } .mapOther)
      | .LoadAndStore, [.key k, .item a e] =>
        match w.items.get k with
        | some i => some ([ofItem i, .bool true], emit T { w with items := w.items.set k ⟨a, e⟩ } .mapOther)
        | none => some ([.item a e, .bool false], emit T { w with items := w.items.set k ⟨a, e⟩ } .mapOther)
      | .LoadOrCompute, [.key k, f] =>
        match w.items.get k with
        | some i => some ([ofItem i, .bool true], emit T w .mapOther)
        | none =>
          (match callVal T fuel f [] (enter T (emit T w .mapOther)) with
           | some ([.item a e], w') => some ([.item a e, .bool false], leave T w { w' with items := w'.items.set k ⟨a, e⟩ })
           | _ => none)
      | .Compute, [.key k, f] =>
        match w.items.get k with
        | some i =>
          (match callVal T fuel f [ofItem i, .bool true] (enter T (emit T w (.compute k))) with
           | some ([_, .bool true], w') => some ([ofItem i, .bool false], leave T w { w' with items := w'.items.erase k })
           | some ([.item a e, .bool false], w') => some ([.item a e, .bool true], leave T w { w' with items := w'.items.set k ⟨a, e⟩ })
           | _ => none)
        | none =>
          (match callVal T fuel f [T.absent, .bool false] (enter T (emit T w (.compute k))) with
           | some ([_, .bool true], w') => some ([T.absent, .bool false], leave T w w')
           | some ([.item a e, .bool false], w') => some ([.item a e, .bool true], leave T w { w' with items := w'.items.set k ⟨a, e⟩ })
           | _ => none)
      | .LoadAndDelete, [.key k] =>
        match w.items.get k with
        | some i => some ([ofItem i, .bool true], emit T { w with items := w.items.erase k } .mapOther)
        | none => some ([T.absent, .bool false], emit T w .mapOther)
      | .Delete, [.key k] => some ([], emit T { w with items := w.items.erase k } .mapOther)
      | .Range, [f] =>
        (loopItems (fun args w1 => callVal T (hide fuel) f args (emitVisit T w1 args)) (T.handed w.items) w).map fun w' => ([], w')
      | .Clear, [] => some ([], emit T { w with items := [] } .clear)
      | .Size, [] => some ([.int w.items.size], emit T w .size)
      | _, _ => none

  /-- call of a function value -/
  def callVal (T : Twin K V) (fuel : Nat) (f : Val K V) (args : List (Val K V)) (w : W K V) : Res K V :=
    match fuel with
    | 0 => none
    | fuel + 1 =>
      match f with
      | .clo d cenv => callDecl T fuel d cenv args w
      | _ => callUser T.trace f args w

  /-- call of a declared function: parameters and named results in fresh cells -/
  def callDecl (T : Twin K V) (fuel : Nat) (d : FuncDecl) (cenv : Env) (args : List (Val K V)) (w : W K V) : Res K V :=
    match fuel with
    | 0 => none
    | fuel + 1 =>
      match bindAll d.params args cenv w with
      | none => none
      | some (env1, w1) =>
        match bindAll (d.results.map (·.1)) (d.results.map fun r => zeroOf r.2) env1 w1 with
        | none => none
        | some (env2, w2) =>
          match execL T fuel env2 d.body w2 with
          | some (some [], w3) => (readAll env2 w3 (d.results.map (·.1))).map fun vs => (vs, popTo w3 w.heap.length)
          | some (some vs, w3) => some (vs, popTo w3 w.heap.length)
          | some (none, w3) => (readAll env2 w3 (d.results.map (·.1))).map fun vs => (vs, popTo w3 w.heap.length)
          | none => none

  /-- a block: the environment extensions of its statements are dropped at its end -/
  def execL (T : Twin K V) (fuel : Nat) (env : Env) (ss : List Stmt) (w : W K V) : Option (Flow K V × W K V) :=
    match fuel with
    | 0 => none
    | fuel + 1 =>
      match ss with
      | [] => some (none, w)
      | s :: rest =>
        match execS T fuel env s w with
        | some (none, env', w') => execL T fuel env' rest w'
        | some (some vs, _, w') => some (some vs, w')
        | none => none

  def execS (T : Twin K V) (fuel : Nat) (env : Env) (s : Stmt) (w : W K V) : Option (Flow K V × Env × W K V) :=
    match fuel with
    | 0 => none
    | fuel + 1 =>
      match s with
      | .varDecl x t =>
        let (l, w') := alloc w (zeroOf t)
        some (none, (x, l) :: env, w')
      | .define lhs rhs =>
        match evalE T fuel env rhs w with
        | some (vs, w') => (defineAll lhs vs env w').map fun (env', w'') => (none, env', w'')
        | none => none
      | .assign [.var x] rhs =>
        match evalE T fuel env rhs w with
        | some ([v], w') => (assignVar env w' x v).map fun w'' => (none, env, w'')
        | _ => none
      | .assign [.var x, .var y] rhs =>
        match evalE T fuel env rhs w with
        | some ([v, u], w') =>
          (match assignVar env w' x v with
           | some w'' => (assignVar env w'' y u).map fun w3 => (none, env, w3)
           | none => none)
        | _ => none
      | .assign [.sel (.var x) f] rhs =>
        match evalE T fuel env rhs w with
        | some ([v], w') => (assignField env w' x f v).map fun w'' => (none, env, w'')
        | _ => none
      | .assign [.index (.var m) ke] rhs =>
        match evalE T fuel env ke w with
        | some ([k], w') =>
          (match evalE T fuel env rhs w' with
           | some ([v], w'') => (assignIndex env w'' m k v).map fun w3 => (none, env, w3)
           | _ => none)
        | _ => none
      | .assign _ _ => none
      | .ifThen init c thn els =>
        match execInit T fuel env init w with
        | some (env', w') =>
          (match evalE T fuel env' c w' with
           | some ([.bool true], w'') => (execL T fuel env' thn w'').map fun (fl, w3) => (fl, env, w3)
           | some ([.bool false], w'') => (execL T fuel env' els w'').map fun (fl, w3) => (fl, env, w3)
           | _ => none)
        | none => none
      | .ret [] => some (some [], env, w)
      | .ret [e] =>
        match evalE T fuel env e w with
        | some (vs, w') => some (some vs, env, w')
        | none => none
      | .ret es =>
        match evalArgs T fuel env es w with
        | some (vs, w') => some (some vs, env, w')
        | none => none
      | .exprS e =>
        match evalE T fuel env e w with
        | some (_, w') => some (none, env, w')
        | none => none
      | .rangeOver v xs body =>
        match evalE T fuel env xs w with
        | some ([.kvs l], w') => (loopKvs (fun el w1 => let (c, w2) := alloc w1 el; (execL T (hide fuel) ((v, c) :: env) body w2).map fun r => (r.1, popTo r.2 w1.heap.length)) l w').map fun (fl, w'') => (fl, env, w'')
        | _ => none

  /-- the init statement of an `if` (its declarations are visible in the condition and both branches) -/
  def execInit (T : Twin K V) (fuel : Nat) (env : Env) (ss : List Stmt) (w : W K V) : Option (Env × W K V) :=
    match fuel with
    | 0 => none
    | fuel + 1 =>
      match ss with
      | [] => some (env, w)
      | s :: rest =>
        match execS T fuel env s w with
        | some (none, env', w') => execInit T fuel env' rest w'
        | _ => none
end

/-- run one method of the table on argument values -/
def runMethod (T : Twin K V) (fuel : Nat) (m : String) (args : List (Val K V)) (w : W K V) : Res K V :=
  match T.methods.lookup m with
  | some d => callDecl T fuel d [] args w
  | none => none

end Deep
