import CacheVerif.Deep.Step
/-!
# The janitor goroutine and the finalizer, as printed from the constructors

`tools/go2deep` prints the goroutine `newXsyncMap` / `newXsyncMapOf` start (`GoLoop`: guard of the enclosing `if`,
ticker, clauses of the `select` inside the endless `for`, captured variables) and the finalizer they register.
This file gives that syntax its meaning, event by event: the goroutine sits in `select`; an *event* is the ticker
firing (after the clock has advanced) or the finalizer closing its channel; the clause that receives from that channel
runs (its body through the same interpreter as the method bodies); `return` ends the goroutine.
-/
namespace Deep
open Spec Model
variable {K V : Type} [DecidableEq K] [Inhabited V]

/-- integer expressions over the configuration struct: literals and fields `cfg.F` -/
def cfgInt (cfg : String → Int) : Expr → Option Int
  | .int n => some n
  | .sel (.var _) f => some (cfg f)
  | _ => none

/-- the comparisons a guard may be -/
def cfgBool (cfg : String → Int) : Expr → Option Bool
  | .bin .gt a b => match cfgInt cfg a, cfgInt cfg b with
    | some x, some y => some (decide (x > y))
    | _, _ => none
  | .bin .ge a b => match cfgInt cfg a, cfgInt cfg b with
    | some x, some y => some (decide (x ≥ y))
    | _, _ => none
  | .bin .lt a b => match cfgInt cfg a, cfgInt cfg b with
    | some x, some y => some (decide (x < y))
    | _, _ => none
  | .bin .ne a b => match cfgInt cfg a, cfgInt cfg b with
    | some x, some y => some (decide (x ≠ y))
    | _, _ => none
  | _ => none

/-- is the goroutine started, for this (normalised) configuration -/
def GoLoop.started (j : GoLoop) (cfg : String → Int) : Option Bool := cfgBool cfg j.guard

/-- period of its ticker -/
def GoLoop.period (j : GoLoop) (cfg : String → Int) : Option Int := cfgInt cfg j.interval

/-- what can wake the goroutine up -/
inductive JEv where
  /-- the clock advances by `δ`, then the ticker fires -/
  | tick (δ : Int)
  /-- the finalizer runs: its channel is closed -/
  | stop
  deriving DecidableEq, Repr

/-- the `select` clause that receives the event, if there is one -/
def GoLoop.clauseFor (j : GoLoop) (fin : Finalizer) : JEv → Option (List Stmt)
  | .tick _ => (j.cases.find? fun c => c.1 = .tickerC j.ticker).map (·.2)
  | .stop => (j.cases.find? fun c => c.1 = .field fin.closes).map (·.2)

/-- one event: (has the goroutine returned, the cache afterwards, the evicted-callback ledger of this wake-up).
An event no clause receives leaves the goroutine in its `select`. -/
def janitorEvent (T : Twin K V) (j : GoLoop) (fin : Finalizer) (s : CSt K V) (e : JEv) :
    Option (Bool × CSt K V × List (Nat × K × V)) :=
  let s1 : CSt K V := match e with
    | .tick δ => { s with now := s.now + δ }
    | .stop => s
  match j.clauseFor fin e with
  | none => some (false, s1, [])
  | some body =>
    match execL T (FUEL + 3) [] body (ofSt s1) with
    | some (fl, w) => some (fl.isSome, stOf w, w.cbs)
    | none => none

/-- the life of the goroutine over a sequence of events; after it has returned no further event is received -/
def janitorRun (T : Twin K V) (j : GoLoop) (fin : Finalizer) : CSt K V → List JEv → Option (Bool × CSt K V × List (Nat × K × V))
  | s, [] => some (false, s, [])
  | s, e :: rest =>
    match janitorEvent T j fin s e with
    | none => none
    | some (true, s', cbs) => some (true, s', cbs)
    | some (false, s', cbs) =>
      match janitorRun T j fin s' rest with
      | none => none
      | some (r, s'', cbs') => some (r, s'', cbs ++ cbs')

end Deep
