import CacheVerif.Deep.Interp
import CacheVerif.Generated.Deep
import CacheVerif.Generated.Leaf
/-!
The two instances of the interpreter: `xsync_map.go` over `Map` (absent = nil interface) and `xsync_mapof.go`
over `MapOf[K, itemOf[V]]` (absent = zero `itemOf[V]`), each with its own machine-translated expiry leaves.
-/
namespace Deep
variable {K V : Type} [DecidableEq K] [Inhabited V]

def twinMap : Twin K V :=
  { methods := Gen.Deep.xsyncMap, expired := Gen.item_expired, expiredWithNow := Gen.item_expiredWithNow, absent := .nil }

def twinMapOf : Twin K V :=
  { methods := Gen.Deep.xsyncMapOf, expired := Gen.itemOf_expired, expiredWithNow := Gen.itemOf_expiredWithNow,
    absent := .item default 0 }

/-- fuel that is enough for every method of the two files (depth of the deepest call chain of syntax nodes) -/
def FUEL : Nat := 60

end Deep

namespace Deep
variable {K V : Type} [DecidableEq K] [Inhabited V]

/-- the same two instances, recording the trace of atomic actions of a call (`W.ev`) -/
def twinMapTr : Twin K V := { (twinMap : Twin K V) with trace := true }
def twinMapOfTr : Twin K V := { (twinMapOf : Twin K V) with trace := true }

end Deep

namespace Deep
variable {K V : Type} [DecidableEq K] [Inhabited V]

/-- the two instances with the underlying map's `Range` handing the visitor the pairs `π` (whatever the content is):
the traversal of a map that other goroutines are writing to -/
def twinMapHanded (π : List (K × Model.Item V)) : Twin K V := { (twinMap : Twin K V) with handed := fun _ => π }
def twinMapOfHanded (π : List (K × Model.Item V)) : Twin K V := { (twinMapOf : Twin K V) with handed := fun _ => π }

end Deep
