/-!
# The writing methods of `Map` / `MapOf` as calls of `doCompute`

`Store`, `LoadOrStore`, `LoadAndStore`, `LoadOrCompute`, `Compute`, `LoadAndDelete`, `Delete` of
`internal/xsync/map.go` and `mapof.go` are one call `m.doCompute(key, fn, loadIfExists, computeOnly)` each.
`tools/go2deep -wrappers` prints, on every run, what each of them passes (`Generated/Wrappers.lean`): the shape of the
function argument, the two flags, and whether the result of `doCompute` is returned.  It accepts exactly that shape and
fails loudly otherwise.
-/
namespace Deep

/-- the function a wrapper hands to `doCompute` -/
inductive FnShape where
  /-- `func(_, _) { return value, del }`: the wrapper's own value argument -/
  | arg (del : Bool)
  /-- `func(_, _) { return valueFn(), del }`: the result of calling the wrapper's function argument -/
  | callArg (del : Bool)
  /-- `func(old, _) { return old, del }`: the value found -/
  | old (del : Bool)
  /-- the wrapper's function argument itself -/
  | pass
  deriving DecidableEq, Repr

structure Wrapper where
  fn : FnShape
  /-- `loadIfExists` -/
  lie : Bool
  /-- `computeOnly` -/
  co : Bool
  /-- the wrapper returns what `doCompute` returns (`Store` and `Delete` drop it) -/
  returns : Bool
  deriving DecidableEq, Repr

/-- meaning of the function argument: `value` is the wrapper's value argument (for `callArg`: what its function
argument returns when called), `g` its compute function -/
def Wrapper.fnOf {V : Type} [Inhabited V] (w : Wrapper) (value : V) (g : Option V → V × Bool) : Option V → V × Bool :=
  match w.fn with
  | .arg d => fun _ => (value, d)
  | .callArg d => fun _ => (value, d)
  | .old d => fun o => (o.getD default, d)
  | .pass => g

end Deep
