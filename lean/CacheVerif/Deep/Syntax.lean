/-!
# Deep embedding of the cache-layer method bodies: abstract syntax

`tools/go2deep` prints the `go/ast` of every method of `*xsyncMap` (xsync_map.go) and `*xsyncMapOf[K,V]`
(xsync_mapof.go) as a term of these types on every run (`Generated/Deep.lean`).  The printer does no
interpretation: one constructor per Go syntactic form of the subset the two files use; anything else makes it
fail loudly.  The meaning of the syntax is `Deep.Interp`.
-/
namespace Deep

/-- Go types that occur in declarations, zero values and type assertions of the two files -/
inductive Ty where
  | iface        -- interface{} / any
  | userV        -- the type parameter V
  | key          -- string / K
  | item         -- item            (xsync_map.go)
  | itemOf       -- itemOf[V]       (xsync_mapof.go)
  | bool
  | int          -- int, int64, time.Duration
  | time         -- time.Time
  | kvs          -- []kv / []kvOf[K, V]
  | gomap        -- map[string]interface{} / map[K]V
  | ecb          -- EvictedCallback / EvictedCallbackOf[K, V]
  deriving DecidableEq, Repr

/-- methods of the `Map` / `MapOf` interface (package cache, map.go / mapof.go) reachable through `c.items` -/
inductive ItemsOp where
  | Load | Store | LoadOrStore | LoadAndStore | LoadOrCompute | Compute | LoadAndDelete | Delete | Range | Clear | Size
  deriving DecidableEq, Repr

inductive BinOp where
  | gt | lt | ge | le | eq | ne | land | lor | add | sub
  deriving DecidableEq, Repr

mutual
  inductive Expr where
    | nil
    | bool (b : Bool)
    | int (n : Int)
    /-- zero value of a type: `time.Time{}`, or the value of a `var x T` declaration -/
    | zero (t : Ty)
    | var (x : String)
    | not (e : Expr)
    | bin (op : BinOp) (a b : Expr)
    /-- field selection `e.f` (`i.v`, `i.e`, `v.k`, `v.v`) -/
    | sel (e : Expr) (f : String)
    /-- type assertion `e.(T)` -/
    | assertT (e : Expr) (t : Ty)
    /-- keyed composite literal `item{v: …, e: …}`, fields in source order -/
    | lit (t : Ty) (fields : List (String × Expr))
    /-- positional composite literal `kv{k, v}` -/
    | mkKv (k v : Expr)
    /-- `c.items.<op>(args)` -/
    | items (op : ItemsOp) (args : List Expr)
    /-- `c.<method>(args)`: a method of the same receiver -/
    | self (m : String) (args : List Expr)
    /-- `c.<field>.Load()` on an `atomic.Value` field -/
    | settingLoad (field : String)
    /-- `c.<field>.Store(e)` -/
    | settingStore (field : String) (e : Expr)
    /-- `recv.expired()` / `recv.expiredWithNow(now)` on an item value -/
    | itemMeth (m : String) (recv : Expr) (args : List Expr)
    /-- `time.Now()` -/
    | timeNow
    /-- `t.Add(d)` -/
    | timeAdd (t d : Expr)
    /-- `t.UnixNano()` -/
    | unixNano (t : Expr)
    /-- `time.Unix(sec, nsec)` -/
    | timeUnix (sec nsec : Expr)
    /-- `time.Until(t)` -/
    | timeUntil (t : Expr)
    /-- call of a local variable of function type (`valueFn`, `f`, `ec`) -/
    | callVar (f : String) (args : List Expr)
    /-- `append(xs, x)` -/
    | append (xs x : Expr)
    /-- `make(map[…]…, n)` -/
    | makeMap (n : Expr)
    /-- `m[k]` (only as an assignment target) -/
    | index (m k : Expr)
    /-- function literal -/
    | func (d : FuncDecl)

  inductive Stmt where
    /-- `var x T` -/
    | varDecl (x : String) (t : Ty)
    /-- `a, b := e` (one right-hand side, possibly multi-valued); the flag says whether the name is new in the
    current scope (Go re-uses a variable already declared in the same scope); `_` is the blank identifier -/
    | define (lhs : List (String × Bool)) (rhs : Expr)
    /-- `a, b = e`; a left-hand side is a variable, a field `x.f`, or a map element `m[k]` -/
    | assign (lhs : List Expr) (rhs : Expr)
    | ifThen (init : List Stmt) (cond : Expr) (thn els : List Stmt)
    /-- `return e…`; the bare `return` of a function with named results is `ret []` -/
    | ret (es : List Expr)
    | exprS (e : Expr)
    /-- `for _, v := range xs { … }` -/
    | rangeOver (v : String) (xs : Expr) (body : List Stmt)

  /-- parameters, named results (empty when the results are unnamed), body -/
  inductive FuncDecl where
    | mk (params : List String) (results : List (String × Ty)) (body : List Stmt)
end

def FuncDecl.params : FuncDecl → List String | .mk p _ _ => p
def FuncDecl.results : FuncDecl → List (String × Ty) | .mk _ r _ => r
def FuncDecl.body : FuncDecl → List Stmt | .mk _ _ b => b

/-! ### the goroutine a constructor starts, and the finalizer it registers

Printed from `newXsyncMap` / `newXsyncMapOf` by the same tool; the printer accepts exactly the shape
`if guard { go func() { x := time.NewTicker(interval); defer x.Stop(); for { select { case <-ch: body … } } }() }` and
`runtime.SetFinalizer(target, func(m *T) { close(m.f) })` and fails loudly on anything else. -/

/-- a channel a `select` clause receives from -/
inductive Chan where
  /-- `<-x.C` for the local `x := time.NewTicker(…)` -/
  | tickerC (x : String)
  /-- `<-c.f`: a channel field of the cache object -/
  | field (f : String)
  deriving DecidableEq, Repr

structure GoLoop where
  /-- condition of the enclosing `if` -/
  guard : Expr
  ticker : String
  /-- argument of `time.NewTicker` -/
  interval : Expr
  /-- `defer x.Stop()` is present -/
  deferStop : Bool
  /-- the clauses of the `select` inside the endless `for` -/
  cases : List (Chan × List Stmt)
  /-- variables of the constructor the function literal captures, in order of first use -/
  captures : List String

structure Finalizer where
  /-- the variable `runtime.SetFinalizer` is called on -/
  target : String
  /-- the channel field the finalizer closes -/
  closes : String
  deriving DecidableEq, Repr

end Deep
