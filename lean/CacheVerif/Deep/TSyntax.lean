/-!
# Deep embedding of the lookup path of the tables (`internal/xsync`): abstract syntax

`tools/go2deep -table` prints the `go/ast` of `(*MapOf[K,V]).Load` and `(*Map).Load` as terms of these types on every run
(`Generated/TableLoad.lean`).  One constructor per Go syntactic form of the subset; identifiers are resolved by the
printer to local variables (`var`), package-level constants (`const`), leaf functions (`call1`), fields of the
receiver (`recvField`); anything else makes the printer fail.  The meaning of the syntax is `Deep.T.exec`
(`Deep/TInterp.lean`).  Statement lists are right-nested `seq`s so that the interpreter is structurally recursive.
-/
namespace Deep.T

inductive BOp where
  | and | xor | sub | ne | eq | land | lt | add
  deriving DecidableEq, Repr

inductive Ty where
  | userV | bool | key | int
  deriving DecidableEq, Repr

inductive Expr where
  | nil
  | bool (b : Bool)
  | int (n : Int)
  | var (x : String)
  /-- package-level constant of `internal/xsync` -/
  | const (c : String)
  | bin (op : BOp) (a b : Expr)
  | not (e : Expr)
  /-- leaf function of `internal/xsync` (one argument) -/
  | call1 (f : String) (a : Expr)
  /-- leaf function of three arguments (`topHashMatch`) -/
  | call3 (f : String) (a b c : Expr)
  /-- `m.hasher(key, seed)` / `hashString(key, seed)` -/
  | hash (k seed : Expr)
  | len (e : Expr)
  /-- conversion `T(e)` -/
  | conv (t : String) (e : Expr)
  /-- plain field read `e.f` -/
  | sel (e : Expr) (f : String)
  | index (e i : Expr)
  /-- `&e` -/
  | addr (e : Expr)
  /-- `atomic.Load<kind>(addr)` -/
  | atomicLoad (kind : String) (addr : Expr)
  /-- `m.f` for the receiver `m` -/
  | recvField (f : String)
  /-- `new(bucketOfPadded)` (only as the right-hand side of `:=`) -/
  | newBucket
  deriving Repr

inductive Stmt where
  | skip
  | seq (a b : Stmt)
  /-- `x := e` -/
  | define (x : String) (e : Expr)
  | assign (x : String) (e : Expr)
  /-- a store through a pointer: `b.meta = e`, `b.entries[i] = e`, `b.next = e` -/
  | store (lhs rhs : Expr)
  /-- `x op= e` -/
  | opAssign (op : BOp) (x : String) (e : Expr)
  | ifThen (c : Expr) (thn els : Stmt)
  | ret (es : List Expr)
  /-- the bare `return` of a function with named results -/
  | retBare
  /-- `for { … }` -/
  | forever (body : Stmt)
  /-- `for c { … }` -/
  | while (c : Expr) (body : Stmt)
  /-- `for init; c; post { … }` -/
  | for3 (init : Stmt) (c : Expr) (post body : Stmt)
  /-- `for x := range e { … }` (index only) -/
  | rangeIdx (x : String) (e : Expr) (body : Stmt)
  | continue
  /-- `x++` -/
  | incr (x : String)
  /-- `L: s` where `s` is the labelled statement followed by the rest of its block (`goto L` re-enters it) -/
  | labeled (l : String) (s : Stmt)
  | goto (l : String)
  /-- `{ … }`: names declared inside go out of scope at the end -/
  | block (s : Stmt)
  deriving Repr

structure FuncDecl where
  params : List String
  /-- named results with their types (for the zero values) -/
  results : List (String × Ty)
  body : Stmt

/-- the statement contains no store through a pointer and no allocation (syntactically, on any path) -/
def Stmt.readOnly : Stmt → Bool
  | .skip => true
  | .seq a b => a.readOnly && b.readOnly
  | .define _ .newBucket => false
  | .define _ _ => true
  | .assign _ _ => true
  | .store _ _ => false
  | .opAssign _ _ _ => true
  | .ifThen _ t f => t.readOnly && f.readOnly
  | .ret _ => true
  | .retBare => true
  | .forever b => b.readOnly
  | .while _ b => b.readOnly
  | .for3 i _ p b => i.readOnly && p.readOnly && b.readOnly
  | .rangeIdx _ _ b => b.readOnly
  | .continue => true
  | .incr _ => true
  | .labeled _ s => s.readOnly
  | .goto _ => true
  | .block s => s.readOnly

end Deep.T
