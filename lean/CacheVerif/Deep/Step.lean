import CacheVerif.Deep.Twins
/-!
# One API call through the interpreter

`deepStep T s op` runs the method of the generated syntax that implements `op` on the state `s` of the
hand-written models (same state type `CSt`), with the operation's arguments encoded as values and its user
functions as `UFn` values, and decodes the returned values and the three ledgers into the result type `Res` of
the hand-written models.  `Proofs/DeepCache*.lean` prove `deepStep twin s op = some (Model.<Twin>.step s op)`
for every state and operation: the hand-written model M2 *is* the meaning of the current source text.
-/
namespace Deep
open Spec Model
variable {K V : Type} [DecidableEq K] [Inhabited V]

def ofSt (s : CSt K V) : W K V := { items := s.items, now := s.now, dflt := s.dflt, cb := s.cb }

def stOf (w : W K V) : CSt K V := { items := w.items, now := w.now, dflt := w.dflt, cb := w.cb }

/-- method name and encoded arguments of an operation (`tick` is not a method) -/
def encode : Op K V → Option (String × List (Val K V))
  | .set k v d => some ("Set", [.key k, .user v, .int d])
  | .setDefault k v => some ("SetDefault", [.key k, .user v])
  | .setForever k v => some ("SetForever", [.key k, .user v])
  | .get k => some ("Get", [.key k])
  | .getWithExpiration k => some ("GetWithExpiration", [.key k])
  | .getWithTTL k => some ("GetWithTTL", [.key k])
  | .getOrSet k v d => some ("GetOrSet", [.key k, .user v, .int d])
  | .getAndSet k v d => some ("GetAndSet", [.key k, .user v, .int d])
  | .getAndRefresh k d => some ("GetAndRefresh", [.key k, .int d])
  | .getOrCompute k f d => some ("GetOrCompute", [.key k, .ufn (.fn0 f 0), .int d])
  | .compute k g d => some ("Compute", [.key k, .ufn (.fn2 g 0), .int d])
  | .getAndDelete k => some ("GetAndDelete", [.key k])
  | .delete k => some ("Delete", [.key k])
  | .deleteExpired => some ("DeleteExpired", [])
  | .range f => some ("Range", [.ufn (.visitor f)])
  | .rangeNil => some ("Range", [.nil])
  | .items => some ("Items", [])
  | .clear => some ("Clear", [])
  | .count => some ("Count", [])
  | .defaultExpiration => some ("DefaultExpiration", [])
  | .setDefaultExpiration d => some ("SetDefaultExpiration", [.int d])
  | .evictedCallback => some ("EvictedCallback", [])
  | .setEvictedCallback c => some ("SetEvictedCallback", [.ecb c])
  | .getOrComputeSlow k f d δ => some ("GetOrCompute", [.key k, .ufn (.fn0 f δ), .int d])
  | .computeSlow k g d δ => some ("Compute", [.key k, .ufn (.fn2 g δ), .int d])
  | .tick _ => none

/-- decode the returned values of the method that implements `op` -/
def decode (op : Op K V) (vs : List (Val K V)) (w : W K V) : Option (Out K V) :=
  match op, vs with
  | .set .., [] | .setDefault .., [] | .setForever .., [] | .delete _, _ | .deleteExpired, []
  | .rangeNil, [] | .clear, [] | .setDefaultExpiration _, [] | .setEvictedCallback _, [] => some .unit
  | .get _, [v, .bool ok] | .getOrSet .., [v, .bool ok] | .getAndSet .., [v, .bool ok] | .getAndRefresh .., [v, .bool ok]
  | .getOrCompute .., [v, .bool ok] | .compute .., [v, .bool ok] | .getAndDelete _, [v, .bool ok]
  | .getOrComputeSlow .., [v, .bool ok] | .computeSlow .., [v, .bool ok] =>
    (toV v).map fun a => .val a ok
  | .getWithExpiration _, [v, .time e, .bool ok] => (toV v).map fun a => .valExp a e ok
  | .getWithExpiration _, [v, .zeroTime, .bool ok] => (toV v).map fun a => .valExp a 0 ok
  | .getWithTTL _, [v, .int ttl, .bool ok] => (toV v).map fun a => .valTTL a ttl ok
  | .range _, [] => some (.visits w.visits)
  | .items, [.gomap l] => some (.items l)
  | .count, [.int n] => some (.count n.toNat)
  | .defaultExpiration, [.int d] => some (.dur d)
  | .evictedCallback, [.ecb c] => some (.cb c)
  | _, _ => none

def deepStep (T : Twin K V) (s : CSt K V) (op : Op K V) : Option (CSt K V × Model.Res K V) :=
  match op with
  | .tick δ => some ({ s with now := s.now + δ }, { out := .unit })
  | op =>
    match encode op with
    | none => none
    | some (m, args) =>
      match runMethod T FUEL m args (ofSt s) with
      | none => none
      | some (vs, w) =>
        match decode op vs w with
        | some out => some (stOf w, { out := out, fn := w.fn, cbs := w.cbs })
        | none => none

def deepRun (T : Twin K V) (s : CSt K V) : List (Op K V) → Option (CSt K V × List (Model.Res K V))
  | [] => some (s, [])
  | op :: ops =>
    match deepStep T s op with
    | none => none
    | some (s', r) =>
      match deepRun T s' ops with
      | none => none
      | some (s'', rs) => some (s'', r :: rs)

end Deep

namespace Deep
open Spec Model
variable {K V : Type} [DecidableEq K] [Inhabited V]

/-- the atomic actions of one API call, in order, as recorded by a tracing twin; together with the state and
result of `deepStep` -/
def deepTrace (T : Twin K V) (s : CSt K V) (op : Op K V) : Option (CSt K V × Model.Res K V × List (Ev K V)) :=
  match encode op with
  | none => none
  | some (m, args) =>
    match runMethod T FUEL m args (ofSt s) with
    | none => none
    | some (vs, w) =>
      match decode op vs w with
      | some out => some (stOf w, { out := out, fn := w.fn, cbs := w.cbs }, w.ev)
      | none => none

end Deep
