import Lean.Meta.Tactic.Simp.RegisterCommand
/-! simp set used for symbolic evaluation of the interpreter `Deep.Interp` -/
register_simp_attr deep_simp
