import CacheVerif.Deep.TSyntax
import CacheVerif.Model.Words
/-!
# Meaning of the table-layer Go subset (sequential reading of the lookup path)

A definitional interpreter of `Deep.T.Stmt` over a heap that holds one table of `MapOf`: an array of root buckets, each
the head of a chain of `Model.Words.BucketOf` (the `meta` word and five entry pointers; `next` of bucket `j` of a chain
is bucket `j + 1`, `nil` at the end), the table's seed, and the map's hasher.  Everything the lookup path reads is
read through this heap: `atomic.LoadUint64(&b.meta)`, `atomic.LoadPointer(&b.entries[idx])`, `atomic.LoadPointer(&b.next)`,
`table.seed`, `len(table.buckets)`, `&table.buckets[bidx]` (index out of range is stuck = `none`, as is the load of an entry
beyond the array).  Entries are immutable `(key, value)` records, so an entry pointer is its content.  Leaf functions and
constants mean what `go2lean` translated from the same tree (`Gen.*`).  Unsigned 64-bit arithmetic is `BitVec 64`; an
untyped integer constant next to a `uint64` operand is converted.  Loops run at most `fuel` iterations (out of fuel
is `none`); the theorems hold for every sufficient `fuel`.

This is the *sequential* meaning: each atomic load reads the heap as it stands.  That a lock-free reader racing a
writer still returns a value the chain held is the business of M4b (`SlotMapOf`), not of this file.
-/
namespace Deep.T
open Model.Words

inductive Loc where
  | table
  | metaw (ci j : Nat)
  | entry (ci j i : Nat)
  | next (ci j : Nat)
  /-- `Map`: the `topHashMutex` word, a key pointer cell, a value pointer cell, `next` of bucket `j` of chain `ci` -/
  | mword (ci j : Nat)
  | mkey (ci j i : Nat)
  | mval (ci j i : Nat)
  | mnext (ci j : Nat)
  /-- counter stripe `table.size[i].c` -/
  | stripe (i : Nat)
  deriving DecidableEq, Repr

inductive Val (K V : Type) where
  | w64 (w : BitVec 64)
  | w8 (b : BitVec 8)
  | int (n : Int)
  | bool (b : Bool)
  | key (k : K)
  | val (v : V)
  /-- the zero value of `V` -/
  | zeroV
  /-- nil pointer -/
  | ptrNil
  /-- pointer to the table -/
  | tablePtr
  /-- the slice `table.buckets` -/
  | buckets
  /-- the array `b.entries` of bucket `j` of chain `ci` -/
  | entriesOf (ci j : Nat)
  /-- pointer to bucket `j` of chain `ci` (`j = 0`: the root bucket in the array) -/
  | bucketRef (ci j : Nat)
  /-- pointer to an (immutable) entry -/
  | entry (k : K) (v : V)
  /-- address of a word / pointer cell, the argument of an atomic load -/
  | loc (l : Loc)
  /-- `Map`: pointer to the table, its bucket slice, a bucket, the arrays `b.keys` / `b.values` -/
  | mtablePtr
  | mbuckets
  | mbucketRef (ci j : Nat)
  | keysOf (ci j : Nat)
  | valuesOf (ci j : Nat)
  /-- `Map`: pointer to a key (its content), pointer to a value: identified by the cell it was read from (every write
  allocates a fresh value, so in one heap two cells never hold the same pointer), with the value it points to -/
  | keyPtr (k : K)
  | valPtr (ci j i : Nat) (v : V)
  /-- the slice `table.size` of counter stripes, and one element of it -/
  | stripes
  | stripeRef (i : Nat)

structure Heap (K V : Type) where
  chains : List (List (BucketOf K V))
  seed : BitVec 64
  hasher : K → BitVec 64 → BitVec 64
  /-- the table of a `Map` (string keys): chains of `BucketM` -/
  mchains : List (List (BucketM K V)) := []
  /-- the counter stripes `table.size[i].c` (unbounded integers: the counters never come near 2^63) -/
  stripes : List Int := []

variable {K V : Type} [DecidableEq K]

abbrev Env (K V : Type) := List (String × Val K V)

/-- outcome of a statement: fall through / leave the innermost loop (with the new environment), or return values -/
inductive Out (K V : Type) where
  | normal (env : Env K V)
  | brk (env : Env K V)
  | ret (vs : List (Val K V))
  /-- `continue`: on to the post statement / next iteration of the innermost loop -/
  | cont (env : Env K V)
  | goto (l : String) (env : Env K V)

def setVar (x : String) (v : Val K V) : Env K V → Option (Env K V)
  | [] => none
  | (y, w) :: r => if y = x then some ((y, v) :: r) else (setVar x v r).map ((y, w) :: ·)

def bucketAt (h : Heap K V) (ci j : Nat) : Option (BucketOf K V) :=
  match h.chains[ci]? with
  | some c => c[j]?
  | none => none

def mbucketAt (h : Heap K V) (ci j : Nat) : Option (BucketM K V) :=
  match h.mchains[ci]? with
  | some c => c[j]?
  | none => none

def leaf1 (f : String) (a : Val K V) : Option (Val K V) :=
  match f, a with
  | "h1", .w64 w => some (.w64 (Gen.h1 w))
  | "h2", .w64 w => some (.w8 (Gen.h2 w))
  | "broadcast", .w8 b => some (.w64 (Gen.broadcast b))
  | "markZeroBytes", .w64 w => some (.w64 (Gen.markZeroBytes w))
  | "firstMarkedByteIndex", .w64 w => some (.int (Gen.firstMarkedByteIndex w))
  | "derefKey", .keyPtr k => some (.key k)
  | "derefValue", .valPtr _ _ _ v => some (.val v)
  | _, _ => none

def leaf3 (f : String) (a b c : Val K V) : Option (Val K V) :=
  match f, a, b, c with
  | "topHashMatch", .w64 x, .w64 y, .int n => if 0 ≤ n then some (.bool (Gen.topHashMatch x y n.toNat)) else none
  | "setByte", .w64 w, .w8 b, .int n => if 0 ≤ n then some (.w64 (Gen.setByte w b n.toNat)) else none
  | _, _, _, _ => none

def constOf (c : String) : Option (Val K V) :=
  match c with
  | "metaMask" => some (.w64 Gen.metaMask)
  | "defaultMeta" => some (.w64 Gen.defaultMeta)
  | "defaultMetaMasked" => some (.w64 Gen.defaultMetaMasked)
  | "emptyMetaSlot" => some (.w8 Gen.emptyMetaSlot)
  | "entriesPerMapOfBucket" => some (.int Gen.entriesPerMapOfBucket)
  | "entriesPerMapBucket" => some (.int Gen.entriesPerMapBucket)
  | _ => none

def isPtr : Val K V → Option Bool
  | .ptrNil => some false
  | .tablePtr => some true
  | .bucketRef _ _ => some true
  | .entry _ _ => some true
  | .mtablePtr => some true
  | .mbucketRef _ _ => some true
  | .keyPtr _ => some true
  | .valPtr _ _ _ _ => some true
  | _ => none

def binop (op : BOp) (a b : Val K V) : Option (Val K V) :=
  match op, a, b with
  | .and, .w64 x, .w64 y => some (.w64 (x &&& y))
  | .xor, .w64 x, .w64 y => some (.w64 (x ^^^ y))
  | .sub, .w64 x, .w64 y => some (.w64 (x - y))
  | .sub, .w64 x, .int n => some (.w64 (x - BitVec.ofInt 64 n))
  | .sub, .int x, .int y => some (.int (x - y))
  | .ne, .w64 x, .w64 y => some (.bool (x != y))
  | .ne, .w64 x, .int n => some (.bool (x != BitVec.ofInt 64 n))
  | .eq, .w64 x, .w64 y => some (.bool (x == y))
  | .eq, .w64 x, .int n => some (.bool (x == BitVec.ofInt 64 n))
  | .ne, .int x, .int y => some (.bool (x != y))
  | .eq, .int x, .int y => some (.bool (x == y))
  | .eq, .key x, .key y => some (.bool (decide (x = y)))
  | .ne, .key x, .key y => some (.bool (!decide (x = y)))
  | .land, .bool x, .bool y => some (.bool (x && y))
  | .lt, .int x, .int y => some (.bool (decide (x < y)))
  | .add, .int x, .int y => some (.int (x + y))
  -- two value pointers of `Map`: the same cell
  | .eq, .valPtr ci j i _, .valPtr ci' j' i' _ => some (.bool (decide (ci = ci' ∧ j = j' ∧ i = i')))
  -- pointer against nil (pointers to different kinds of object are never compared by the lookup path)
  | .eq, p, .ptrNil => (isPtr p).map fun nn => .bool (!nn)
  | .ne, p, .ptrNil => (isPtr p).map fun nn => .bool nn
  | _, _, _ => none

def conv (t : String) (v : Val K V) : Option (Val K V) :=
  match t, v with
  | "uint64", .int n => some (.w64 (BitVec.ofInt 64 n))
  | "uint64", .w64 w => some (.w64 w)
  | "*mapOfTable", .tablePtr => some .tablePtr
  | "*entryOf", .entry k v => some (.entry k v)
  | "*entryOf", .ptrNil => some .ptrNil
  | "*bucketOfPadded", .bucketRef ci j => some (.bucketRef ci j)
  | "*bucketOfPadded", .ptrNil => some .ptrNil
  | "*mapTable", .tablePtr => some .mtablePtr
  | "*bucketPadded", .mbucketRef ci j => some (.mbucketRef ci j)
  | "*bucketPadded", .ptrNil => some .ptrNil
  | "uintptr", .valPtr ci j i v => some (.valPtr ci j i v)
  | "uintptr", .ptrNil => some .ptrNil
  | "rawPointer", .bucketRef ci j => some (.bucketRef ci j)  -- the conversion to Go's untyped pointer type
  | "int64", .int n => some (.int n)
  | "int", .int n => some (.int n)
  | _, _ => none

def selField (h : Heap K V) (v : Val K V) (f : String) : Option (Val K V) :=
  match v, f with
  | .tablePtr, "seed" => some (.w64 h.seed)
  | .tablePtr, "buckets" => some .buckets
  | .entry k _, "key" => some (.key k)
  | .entry _ v, "value" => some (.val v)
  | .bucketRef ci j, "entries" => some (.entriesOf ci j)
  -- plain reads of `b.meta` / `b.next` (the write path, under the bucket lock): the same cells the atomic loads read
  | .bucketRef ci j, "meta" => (bucketAt h ci j).map fun b => .w64 b.metaw
  | .bucketRef ci j, "next" =>
    (match h.chains[ci]? with
     | some c => if j + 1 < c.length then some (.bucketRef ci (j + 1)) else if j < c.length then some .ptrNil else none
     | none => none)
  | .mtablePtr, "seed" => some (.w64 h.seed)
  | .mtablePtr, "buckets" => some .mbuckets
  | .mbucketRef ci j, "keys" => some (.keysOf ci j)
  | .mbucketRef ci j, "values" => some (.valuesOf ci j)
  | _, _ => none

/-- the address `&e` of the addressable expressions of the lookup path -/
def addrOf (base : Val K V) (f : String) : Option (Val K V) :=
  match base with
  | .bucketRef ci j => if f = "meta" then some (.loc (.metaw ci j)) else if f = "next" then some (.loc (.next ci j)) else none
  | .mbucketRef ci j =>
    if f = "topHashMutex" then some (.loc (.mword ci j)) else if f = "next" then some (.loc (.mnext ci j)) else none
  | .stripeRef i => if f = "c" then some (.loc (.stripe i)) else none
  | _ => none

def atomicLoad (h : Heap K V) (kind : String) (a : Val K V) : Option (Val K V) :=
  match kind, a with
  | "Pointer", .loc .table => some .tablePtr
  | "Uint64", .loc (.metaw ci j) => (bucketAt h ci j).map fun b => .w64 b.metaw
  | "Pointer", .loc (.entry ci j i) =>
    match bucketAt h ci j with
    | some b =>
      (match b.entries[i]? with
       | some (some (k, v)) => some (.entry k v)
       | some none => some .ptrNil
       | none => none)
    | none => none
  | "Pointer", .loc (.next ci j) =>
    match h.chains[ci]? with
    | some c => if j + 1 < c.length then some (.bucketRef ci (j + 1)) else if j < c.length then some .ptrNil else none
    | none => none
  -- `Map`: the table pointer is the same cell `m.table`; which kind of table it is shows in the conversion applied
  | "Int64", .loc (.stripe i) => h.stripes[i]?.map .int
  | "Uint64", .loc (.mword ci j) => (mbucketAt h ci j).map fun b => .w64 b.word
  | "Pointer", .loc (.mkey ci j i) =>
    match mbucketAt h ci j with
    | some b =>
      (match b.slots[i]? with
       | some (some (k, _)) => some (.keyPtr k)
       | some none => some .ptrNil
       | none => none)
    | none => none
  | "Pointer", .loc (.mval ci j i) =>
    match mbucketAt h ci j with
    | some b =>
      (match b.slots[i]? with
       | some (some (_, v)) => some (.valPtr ci j i v)
       | some none => some .ptrNil
       | none => none)
    | none => none
  | "Pointer", .loc (.mnext ci j) =>
    match h.mchains[ci]? with
    | some c => if j + 1 < c.length then some (.mbucketRef ci (j + 1)) else if j < c.length then some .ptrNil else none
    | none => none
  | _, _ => none

def eval (h : Heap K V) (env : Env K V) : Expr → Option (Val K V)
  | .nil => some .ptrNil
  | .bool b => some (.bool b)
  | .int n => some (.int n)
  | .var x => env.lookup x
  | .const c => constOf c
  | .bin op a b =>
    match eval h env a, eval h env b with
    | some x, some y => binop op x y
    | _, _ => none
  | .not e =>
    match eval h env e with
    | some (.bool b) => some (.bool (!b))
    | _ => none
  | .call1 f a => (eval h env a).bind (leaf1 f)
  | .call3 f a b c =>
    match eval h env a, eval h env b, eval h env c with
    | some x, some y, some z => leaf3 f x y z
    | _, _, _ => none
  | .hash k s =>
    match eval h env k, eval h env s with
    | some (.key k), some (.w64 s) => some (.w64 (h.hasher k s))
    | _, _ => none
  | .len e =>
    match eval h env e with
    | some .buckets => some (.int h.chains.length)
    | some .mbuckets => some (.int h.mchains.length)
    | _ => none
  | .conv t e => (eval h env e).bind (conv t)
  | .sel e f => (eval h env e).bind (selField h · f)
  | .index e i =>
    -- an element of `table.size` (to take the address of its field); the bucket arrays only under `&`: see `addr`
    match eval h env e, eval h env i with
    | some .stripes, some (.int n) => if 0 ≤ n ∧ n.toNat < h.stripes.length then some (.stripeRef n.toNat) else none
    -- plain read of `b.entries[i]`
    | some (.entriesOf ci j), some (.int n) =>
      if 0 ≤ n then
        (match bucketAt h ci j with
         | some b =>
           (match b.entries[n.toNat]? with
            | some (some (k, v)) => some (.entry k v)
            | some none => some .ptrNil
            | none => none)
         | none => none)
      else none
    | _, _ => none
  | .addr (.recvField "table") => some (.loc .table)
  | .addr (.sel e f) => (eval h env e).bind (addrOf · f)
  | .addr (.index e i) =>
    match eval h env e, eval h env i with
    | some .buckets, some (.w64 w) => if w.toNat < h.chains.length then some (.bucketRef w.toNat 0) else none
    | some (.entriesOf ci j), some (.int n) =>
      if 0 ≤ n then some (.loc (.entry ci j n.toNat)) else none
    | some .mbuckets, some (.w64 w) => if w.toNat < h.mchains.length then some (.mbucketRef w.toNat 0) else none
    | some (.keysOf ci j), some (.int n) => if 0 ≤ n then some (.loc (.mkey ci j n.toNat)) else none
    | some (.valuesOf ci j), some (.int n) => if 0 ≤ n then some (.loc (.mval ci j n.toNat)) else none
    | _, _ => none
  | .addr _ => none
  | .atomicLoad kind a => (eval h env a).bind (atomicLoad h kind)
  | .recvField "size" => some .stripes
  | .recvField _ => none
  | .newBucket => none  -- an effect: see `execW`

def evalList (h : Heap K V) (env : Env K V) : List Expr → Option (List (Val K V))
  | [] => some []
  | e :: r =>
    match eval h env e, evalList h env r with
    | some v, some vs => some (v :: vs)
    | _, _ => none

def readAll (env : Env K V) : List String → Option (List (Val K V))
  | [] => some []
  | x :: r =>
    match env.lookup x, readAll env r with
    | some v, some vs => some (v :: vs)
    | _, _ => none

/-- at most `n` iterations of a loop body -/
def loopN (body : Env K V → Option (Out K V)) : Nat → Env K V → Option (Out K V)
  | 0, _ => none
  | n + 1, env =>
    match body env with
    | some (.normal env') => loopN body n env'
    | some (.brk env') => some (.normal env')
    | some (.ret vs) => some (.ret vs)
    | some (.cont env') => loopN body n env'
    | some (.goto l env') => some (.goto l env')
    | none => none

/-- `for x := range xs`: the body once per index, in a scope of its own -/
def forIdx (x : String) (body : Env K V → Option (Out K V)) : List Nat → Env K V → Option (Out K V)
  | [], env => some (.normal env)
  | i :: rest, env =>
    match body ((x, .int i) :: env) with
    | some (.normal env') => forIdx x body rest (env'.drop (env'.length - env.length))
    | some (.cont env') => forIdx x body rest (env'.drop (env'.length - env.length))
    | some (.brk env') => some (.normal (env'.drop (env'.length - env.length)))
    | r => r

/-- the statements after a label, re-entered by `goto l` (at most `n` times) -/
def labelN (l : String) (body : Env K V → Option (Out K V)) : Nat → Env K V → Option (Out K V)
  | 0, _ => none
  | n + 1, env =>
    match body env with
    | some (.goto l' env') => if l' = l then labelN l body n env' else some (.goto l' env')
    | r => r

/-- leave a scope: forget the names declared inside (assignments to outer names stay) -/
def leave (outer : Env K V) : Option (Out K V) → Option (Out K V)
  | some (.normal env) => some (.normal (env.drop (env.length - outer.length)))
  | some (.brk env) => some (.brk (env.drop (env.length - outer.length)))
  | some (.cont env) => some (.cont (env.drop (env.length - outer.length)))
  | some (.goto l env) => some (.goto l (env.drop (env.length - outer.length)))
  | r => r

/-- the condition-and-body of one iteration of `for c { body }` -/
def iter (c : Env K V → Option (Val K V)) (body : Env K V → Option (Out K V)) (env : Env K V) : Option (Out K V) :=
  match c env with
  | some (.bool true) => body env
  | some (.bool false) => some (.brk env)
  | _ => none

/-- one iteration of `for init; c; post { body }`: condition, body, then - also after `continue` - the post statement -/
def iter3 (c : Env K V → Option (Val K V)) (body post : Env K V → Option (Out K V)) (env : Env K V) : Option (Out K V) :=
  match c env with
  | some (.bool true) =>
    (match body env with
     | some (.normal env') => post env'
     | some (.cont env') => post env'
     | r => r)
  | some (.bool false) => some (.brk env)
  | _ => none

/-- `res`: the names of the function's named results (read by the bare `return`) -/
def exec (fuel : Nat) (h : Heap K V) (res : List String) : Stmt → Env K V → Option (Out K V)
  | .skip, env => some (.normal env)
  | .seq a b, env =>
    match exec fuel h res a env with
    | some (.normal env') => exec fuel h res b env'
    | r => r
  | .define x e, env => (eval h env e).map fun v => .normal ((x, v) :: env)
  | .assign x e, env => (eval h env e).bind fun v => (setVar x v env).map .normal
  | .opAssign op x e, env =>
    match env.lookup x, eval h env e with
    | some a, some b => (binop op a b).bind fun v => (setVar x v env).map .normal
    | _, _ => none
  | .ifThen c t f, env =>
    match eval h env c with
    | some (.bool true) => exec fuel h res t env
    | some (.bool false) => exec fuel h res f env
    | _ => none
  | .ret es, env => (evalList h env es).map .ret
  | .retBare, env => (readAll env res).map .ret
  | .forever body, env => loopN (fun env => exec fuel h res body env) fuel env
  | .while c body, env => loopN (iter (fun env => eval h env c) (fun env => exec fuel h res body env)) fuel env
  | .for3 init c post body, env =>
    leave env (match exec fuel h res init env with
      | some (.normal env1) =>
        loopN (iter3 (fun env => eval h env c) (fun env => exec fuel h res body env) (fun env => exec fuel h res post env))
          fuel env1
      | r => r)
  | .rangeIdx x e body, env =>
    match eval h env e with
    | some .stripes => forIdx x (fun env => exec fuel h res body env) (List.range h.stripes.length) env
    | _ => none
  | .continue, env => some (.cont env)
  | .incr x, env =>
    match env.lookup x with
    | some (.int n) => (setVar x (.int (n + 1)) env).map .normal
    | _ => none
  | .store _ _, _ => none  -- a write: only `execW` knows it
  | .labeled l s, env => labelN l (fun env => exec fuel h res s env) fuel env
  | .goto l, env => some (.goto l env)
  | .block s, env => leave env (exec fuel h res s env)

def zeroOf : Ty → Val K V
  | .userV => .zeroV
  | .bool => .bool false
  | .key => .zeroV
  | .int => .int 0

/-- one call: the parameters and the named results (zero values) are the outermost scope -/
def call (fuel : Nat) (h : Heap K V) (d : FuncDecl) (args : List (Val K V)) : Option (List (Val K V)) :=
  if d.params.length ≠ args.length then none
  else
    let env : Env K V := d.params.zip args ++ d.results.map fun r => (r.1, zeroOf r.2)
    match exec fuel h (d.results.map (·.1)) d.body env with
    | some (.ret vs) => some vs
    | _ => none

/-! ### statements that write: the heap is part of the state

`execW` is `exec` with the heap threaded through (expressions are still evaluated by `eval` on the current heap).  Besides
the forms of `exec` that the printed write functions use it knows `x := new(bucketOfPadded)` (a zeroed bucket, not yet
reachable: kept as a one-bucket chain of its own at the end of `chains`) and the three stores through a bucket pointer:
`b.meta = w`, `b.entries[i] = p` (index outside the array is stuck), `b.next = p` (linking the fresh bucket behind the
last bucket of a chain moves it there). -/

abbrev W (K V : Type) := Heap K V × Env K V

inductive OutW (K V : Type) where
  | normal (w : W K V)
  | brk (w : W K V)
  | ret (h : Heap K V) (vs : List (Val K V))

def setBucket (h : Heap K V) (ci j : Nat) (f : BucketOf K V → BucketOf K V) : Option (Heap K V) :=
  match h.chains[ci]? with
  | some c =>
    (match c[j]? with
     | some b => some { h with chains := h.chains.set ci (c.set j (f b)) }
     | none => none)
  | none => none

/-- `b.next = newb` for the fresh bucket `newb` (the last, one-bucket chain) and the last bucket `b` of chain `ci` -/
def linkFresh (h : Heap K V) (ci j cn : Nat) : Option (Heap K V) :=
  match h.chains[ci]?, h.chains[cn]? with
  | some c, some [nb] =>
    if j + 1 = c.length ∧ cn + 1 = h.chains.length ∧ ci ≠ cn then
      some { h with chains := (h.chains.set ci (c ++ [nb])).dropLast }
    else none
  | _, _ => none

def storeTo (h : Heap K V) (env : Env K V) (lhs : Expr) (v : Val K V) : Option (Heap K V) :=
  match lhs with
  | .sel e "meta" =>
    (match eval h env e, v with
     | some (.bucketRef ci j), .w64 w => setBucket h ci j fun b => { b with metaw := w }
     | _, _ => none)
  | .sel e "next" =>
    (match eval h env e, v with
     | some (.bucketRef ci j), .bucketRef cn 0 => linkFresh h ci j cn
     | _, _ => none)
  | .index (.sel e "entries") i =>
    (match eval h env e, eval h env i with
     | some (.bucketRef ci j), some (.int n) =>
       (match bucketAt h ci j with
        | some b =>
          if 0 ≤ n ∧ n.toNat < b.entries.length then
            (match v with
             | .entry k x => setBucket h ci j fun b => { b with entries := b.entries.set n.toNat (some (k, x)) }
             | .ptrNil => setBucket h ci j fun b => { b with entries := b.entries.set n.toNat none }
             | _ => none)
          else none
        | none => none)
     | _, _ => none)
  | _ => none

def loopNW (body : W K V → Option (OutW K V)) : Nat → W K V → Option (OutW K V)
  | 0, _ => none
  | n + 1, w =>
    match body w with
    | some (.normal w') => loopNW body n w'
    | some (.brk w') => some (.normal w')
    | some (.ret h vs) => some (.ret h vs)
    | none => none

def leaveW (outer : Env K V) : Option (OutW K V) → Option (OutW K V)
  | some (.normal (h, env)) => some (.normal (h, env.drop (env.length - outer.length)))
  | some (.brk (h, env)) => some (.brk (h, env.drop (env.length - outer.length)))
  | r => r

def iter3W (c : W K V → Option (Val K V)) (body post : W K V → Option (OutW K V)) (w : W K V) : Option (OutW K V) :=
  match c w with
  | some (.bool true) =>
    (match body w with
     | some (.normal w') => post w'
     | r => r)
  | some (.bool false) => some (.brk w)
  | _ => none

/-- a zeroed bucket, as `new(bucketOfPadded)` returns it -/
def zeroBucket : BucketOf K V := ⟨0#64, [none, none, none, none, none]⟩

def execW (fuel : Nat) (res : List String) : Stmt → W K V → Option (OutW K V)
  | .skip, w => some (.normal w)
  | .seq a b, w =>
    match execW fuel res a w with
    | some (.normal w') => execW fuel res b w'
    | r => r
  | .define x .newBucket, (h, env) =>
    some (.normal ({ h with chains := h.chains ++ [[zeroBucket]] }, (x, .bucketRef h.chains.length 0) :: env))
  | .define x e, (h, env) => (eval h env e).map fun v => .normal (h, (x, v) :: env)
  | .assign x e, (h, env) => (eval h env e).bind fun v => (setVar x v env).map fun env' => .normal (h, env')
  | .store lhs rhs, (h, env) => (eval h env rhs).bind fun v => (storeTo h env lhs v).map fun h' => .normal (h', env)
  | .ifThen c t f, (h, env) =>
    match eval h env c with
    | some (.bool true) => execW fuel res t (h, env)
    | some (.bool false) => execW fuel res f (h, env)
    | _ => none
  | .ret es, (h, env) => (evalList h env es).map (.ret h)
  | .retBare, (h, env) => (readAll env res).map (.ret h)
  | .forever body, w => loopNW (fun w => execW fuel res body w) fuel w
  | .for3 init c post body, w =>
    leaveW w.2 (match execW fuel res init w with
      | some (.normal w1) =>
        loopNW (iter3W (fun w => eval w.1 w.2 c) (fun w => execW fuel res body w) (fun w => execW fuel res post w)) fuel w1
      | r => r)
  | .incr x, (h, env) =>
    match env.lookup x with
    | some (.int n) => (setVar x (.int (n + 1)) env).map fun env' => .normal (h, env')
    | _ => none
  | .block s, w => leaveW w.2 (execW fuel res s w)
  | _, _ => none

/-- a call of a printed function that writes: the new heap and the results -/
def callW (fuel : Nat) (h : Heap K V) (d : FuncDecl) (args : List (Val K V)) : Option (Heap K V × List (Val K V)) :=
  if d.params.length ≠ args.length then none
  else
    let env : Env K V := d.params.zip args ++ d.results.map fun r => (r.1, zeroOf r.2)
    match execW fuel (d.results.map (·.1)) d.body (h, env) with
    | some (.ret h' vs) => some (h', vs)
    | _ => none

end Deep.T
