import CacheVerif.Generated.Facts
/-!
Pinned structural facts: the bucket spin lock of Map.
Regenerate with tools/pin_expect.py only after reviewing the change against the hand-written models.
-/
namespace Expect.Lock

theorem xsync_map_lockBucket : Gen.Facts.xsync_map_lockBucket = ["for(", "){", "for(", "){", "atomic.LoadUint64(mu)", "if(", "){", "break", "}", "runtime.Gosched", "}", "if(", "atomic.CompareAndSwapUint64(mu)", "){", "return", "}", "runtime.Gosched", "}"] := rfl
theorem xsync_map_unlockBucket : Gen.Facts.xsync_map_unlockBucket = ["atomic.LoadUint64(mu)", "atomic.StoreUint64(mu)"] := rfl

end Expect.Lock
