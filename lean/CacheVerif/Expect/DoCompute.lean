import CacheVerif.Generated.Facts
/-!
Pinned structural facts: the write path of Map/MapOf (lock, the two re-checks, valueFn position, store order, unlock before addSize, retry edges): M4a dc pcs, M3.
Regenerate with tools/pin_expect.py only after reviewing the change against the hand-written models.
-/
namespace Expect.DoCompute

theorem xsync_map_Map_Store : Gen.Facts.xsync_map_Map_Store = ["func{", "return", "}", "m.doCompute"] := rfl
theorem xsync_map_Map_LoadOrStore : Gen.Facts.xsync_map_Map_LoadOrStore = ["func{", "return", "}", "m.doCompute", "return"] := rfl
theorem xsync_map_Map_LoadAndStore : Gen.Facts.xsync_map_Map_LoadAndStore = ["func{", "return", "}", "m.doCompute", "return"] := rfl
theorem xsync_map_Map_LoadOrCompute : Gen.Facts.xsync_map_Map_LoadOrCompute = ["func{", "valueFn", "return", "}", "m.doCompute", "return"] := rfl
theorem xsync_map_Map_Compute : Gen.Facts.xsync_map_Map_Compute = ["m.doCompute", "return"] := rfl
theorem xsync_map_Map_LoadAndDelete : Gen.Facts.xsync_map_Map_LoadAndDelete = ["func{", "return", "}", "m.doCompute", "return"] := rfl
theorem xsync_map_Map_Delete : Gen.Facts.xsync_map_Map_Delete = ["func{", "return", "}", "m.doCompute"] := rfl
theorem xsync_map_Map_doCompute : Gen.Facts.xsync_map_Map_doCompute = ["if(", "){", "m.Load", "if(", "){", "return", "}", "}", "for(", "){", "label compute_attempt", "atomic.LoadPointer(table)", "R:buckets", "R:seed", "hashString", "R:buckets", "lockBucket", "if(", "m.resizeInProgress", "){", "unlockBucket", "m.waitForResize", "goto compute_attempt", "}", "if(", "m.newerTableExists", "){", "unlockBucket", "goto compute_attempt", "}", "for(", "){", "atomic.LoadUint64(topHashMutex)", "for(", "){", "if(", "R:keys", "){", "if(", "){", "}", "continue", "}", "if(", "topHashMatch", "){", "continue", "}", "if(", "R:keys", "derefKey", "){", "R:values", "if(", "){", "unlockBucket", "derefValue", "return", "}", "derefValue", "valueFn", "if(", "){", "eraseTopHash", "atomic.StoreUint64(topHashMutex)", "atomic.StorePointer(values)", "atomic.StorePointer(keys)", "if(", "){", "isEmptyBucket", "}", "unlockBucket", "table.addSize", "if(", "){", "m.resize", "}", "return", "}", "if(", "&&", "){", "panic", "}", "atomic.StorePointer(values)", "unlockBucket", "if(", "){", "return", "}", "return", "}", "}", "if(", "R:next", "){", "if(", "){", "valueFn", "if(", "){", "unlockBucket", "return", "}", "atomic.LoadUint64(topHashMutex)", "storeTopHash", "atomic.StoreUint64(topHashMutex)", "atomic.StorePointer(values)", "atomic.StorePointer(keys)", "unlockBucket", "table.addSize", "return", "}", "if(", "table.sumSize", "){", "unlockBucket", "m.resize", "goto compute_attempt", "}", "valueFn", "if(", "){", "unlockBucket", "return", "}", "W:keys", "W:values", "R:topHashMutex", "storeTopHash", "W:topHashMutex", "atomic.StorePointer(next)", "unlockBucket", "table.addSize", "return", "}", "R:next", "}", "}"] := rfl
theorem xsync_map_Map_newerTableExists : Gen.Facts.xsync_map_Map_newerTableExists = ["atomic.LoadPointer(table)", "return"] := rfl
theorem xsync_map_Map_resizeInProgress : Gen.Facts.xsync_map_Map_resizeInProgress = ["atomic.LoadInt64(resizing)", "return"] := rfl
theorem xsync_map_Map_Size : Gen.Facts.xsync_map_Map_Size = ["atomic.LoadPointer(table)", "table.sumSize", "return"] := rfl
theorem xsync_map_mapTable_addSize : Gen.Facts.xsync_map_mapTable_addSize = ["R:size", "atomic.AddInt64(size.c)"] := rfl
theorem xsync_map_mapTable_sumSize : Gen.Facts.xsync_map_mapTable_sumSize = ["R:size", "range{", "atomic.LoadInt64(size.c)", "}", "return"] := rfl
theorem xsync_mapof_MapOf_Store : Gen.Facts.xsync_mapof_MapOf_Store = ["func{", "return", "}", "m.doCompute"] := rfl
theorem xsync_mapof_MapOf_LoadOrStore : Gen.Facts.xsync_mapof_MapOf_LoadOrStore = ["func{", "return", "}", "m.doCompute", "return"] := rfl
theorem xsync_mapof_MapOf_LoadAndStore : Gen.Facts.xsync_mapof_MapOf_LoadAndStore = ["func{", "return", "}", "m.doCompute", "return"] := rfl
theorem xsync_mapof_MapOf_LoadOrCompute : Gen.Facts.xsync_mapof_MapOf_LoadOrCompute = ["func{", "valueFn", "return", "}", "m.doCompute", "return"] := rfl
theorem xsync_mapof_MapOf_Compute : Gen.Facts.xsync_mapof_MapOf_Compute = ["m.doCompute", "return"] := rfl
theorem xsync_mapof_MapOf_LoadAndDelete : Gen.Facts.xsync_mapof_MapOf_LoadAndDelete = ["func{", "return", "}", "m.doCompute", "return"] := rfl
theorem xsync_mapof_MapOf_Delete : Gen.Facts.xsync_mapof_MapOf_Delete = ["func{", "return", "}", "m.doCompute"] := rfl
theorem xsync_mapof_MapOf_doCompute : Gen.Facts.xsync_mapof_MapOf_doCompute = ["if(", "){", "m.Load", "if(", "){", "return", "}", "}", "for(", "){", "label compute_attempt", "atomic.LoadPointer(table)", "R:buckets", "R:seed", "h1", "h2", "broadcast", "R:buckets", "mu.Lock", "if(", "m.resizeInProgress", "){", "mu.Unlock", "m.waitForResize", "goto compute_attempt", "}", "if(", "m.newerTableExists", "){", "mu.Unlock", "goto compute_attempt", "}", "for(", "){", "R:meta", "markZeroBytes", "for(", "){", "firstMarkedByteIndex", "R:entries", "if(", "){", "if(", "){", "if(", "){", "mu.Unlock", "return", "}", "valueFn", "if(", "){", "setByte", "atomic.StoreUint64(meta)", "atomic.StorePointer(entries)", "mu.Unlock", "table.addSize", "if(", "){", "m.resize", "}", "return", "}", "atomic.StorePointer(entries)", "mu.Unlock", "if(", "){", "return", "}", "return", "}", "}", "}", "if(", "){", "if(", "){", "firstMarkedByteIndex", "}", "}", "if(", "R:next", "){", "if(", "){", "valueFn", "if(", "){", "mu.Unlock", "return", "}", "R:meta", "setByte", "atomic.StoreUint64(meta)", "atomic.StorePointer(entries)", "mu.Unlock", "table.addSize", "return", "}", "if(", "table.sumSize", "){", "mu.Unlock", "m.resize", "goto compute_attempt", "}", "valueFn", "if(", "){", "mu.Unlock", "return", "}", "setByte", "W:meta", "W:entries", "atomic.StorePointer(next)", "mu.Unlock", "table.addSize", "return", "}", "R:next", "}", "}"] := rfl
theorem xsync_mapof_MapOf_newerTableExists : Gen.Facts.xsync_mapof_MapOf_newerTableExists = ["atomic.LoadPointer(table)", "return"] := rfl
theorem xsync_mapof_MapOf_resizeInProgress : Gen.Facts.xsync_mapof_MapOf_resizeInProgress = ["atomic.LoadInt64(resizing)", "return"] := rfl
theorem xsync_mapof_MapOf_Size : Gen.Facts.xsync_mapof_MapOf_Size = ["atomic.LoadPointer(table)", "table.sumSize", "return"] := rfl
theorem xsync_mapof_mapOfTable_addSize : Gen.Facts.xsync_mapof_mapOfTable_addSize = ["R:size", "atomic.AddInt64(size.c)"] := rfl
theorem xsync_mapof_mapOfTable_sumSize : Gen.Facts.xsync_mapof_mapOfTable_sumSize = ["R:size", "range{", "atomic.LoadInt64(size.c)", "}", "return"] := rfl

end Expect.DoCompute
