import CacheVerif.Generated.Facts
/-!
Pinned structural facts: table allocation and presizing: M3 `new`.
Regenerate with tools/pin_expect.py only after reviewing the change against the hand-written models.
-/
namespace Expect.Alloc

theorem xsync_map_WithPresize : Gen.Facts.xsync_map_WithPresize = ["func{", "}", "return"] := rfl
theorem xsync_map_WithGrowOnly : Gen.Facts.xsync_map_WithGrowOnly = ["func{", "W:growOnly", "}", "return"] := rfl
theorem xsync_map_NewMap : Gen.Facts.xsync_map_NewMap = ["range{", "}", "if(", "){", "newMapTable", "}else{", "nextPowOf2", "newMapTable", "}", "R:buckets", "W:minTableLen", "R:growOnly", "W:growOnly", "atomic.StorePointer(table)", "return"] := rfl
theorem xsync_map_NewMapPresized : Gen.Facts.xsync_map_NewMapPresized = ["return"] := rfl
theorem xsync_map_newMapTable : Gen.Facts.xsync_map_newMapTable = ["if(", "){", "}else{", "if(", "){", "}", "}", "makeSeed", "return"] := rfl
theorem xsync_mapof_NewMapOf : Gen.Facts.xsync_mapof_NewMapOf = ["return"] := rfl
theorem xsync_mapof_NewMapOfWithHasher : Gen.Facts.xsync_mapof_NewMapOfWithHasher = ["range{", "}", "W:hasher", "if(", "){", "newMapOfTable", "}else{", "nextPowOf2", "newMapOfTable", "}", "R:buckets", "W:minTableLen", "R:growOnly", "W:growOnly", "atomic.StorePointer(table)", "return"] := rfl
theorem xsync_mapof_NewMapOfPresized : Gen.Facts.xsync_mapof_NewMapOfPresized = ["return"] := rfl
theorem xsync_mapof_newMapOfTable : Gen.Facts.xsync_mapof_newMapOfTable = ["range{", "W:meta", "}", "if(", "){", "}else{", "if(", "){", "}", "}", "makeSeed", "return"] := rfl

end Expect.Alloc
