import CacheVerif.Generated.Facts
/-!
Pinned structural facts: Range (table struct copied once; lock, copy, unlock, then visit): M4a rg pcs.
Regenerate with tools/pin_expect.py only after reviewing the change against the hand-written models.
-/
namespace Expect.Range

theorem xsync_map_Map_Range : Gen.Facts.xsync_map_Map_Range = ["atomic.LoadPointer(table)", "R:buckets", "range{", "lockBucket", "for(", "){", "for(", "){", "if(", "R:keys", "){", "R:keys", "R:values", "}", "}", "if(", "R:next", "){", "unlockBucket", "break", "}", "R:next", "}", "range{", "derefKey", "derefValue", "if(", "f", "){", "return", "}", "}", "}"] := rfl
theorem xsync_mapof_MapOf_Range : Gen.Facts.xsync_mapof_MapOf_Range = ["atomic.LoadPointer(table)", "R:buckets", "range{", "mu.Lock", "for(", "){", "for(", "){", "if(", "R:entries", "){", "R:entries", "}", "}", "if(", "R:next", "){", "mu.Unlock", "break", "}", "R:next", "}", "range{", "if(", "f", "){", "return", "}", "}", "}"] := rfl

end Expect.Range
