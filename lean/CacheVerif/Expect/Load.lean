import CacheVerif.Generated.Facts
/-!
Pinned structural facts: the lock-free read path of Map/MapOf (no lock, no wait; read order of the atomic snapshot): M4a reader pcs, M4b.
Regenerate with tools/pin_expect.py only after reviewing the change against the hand-written models.
-/
namespace Expect.Load

theorem xsync_map_Map_Load : Gen.Facts.xsync_map_Map_Load = ["atomic.LoadPointer(table)", "R:seed", "hashString", "R:buckets", "for(", "){", "atomic.LoadUint64(topHashMutex)", "for(", "){", "if(", "topHashMatch", "){", "continue", "}", "label atomic_snapshot", "atomic.LoadPointer(values)", "atomic.LoadPointer(keys)", "if(", "&&", "){", "if(", "derefKey", "){", "if(", "atomic.LoadPointer(values)", "){", "derefValue", "return", "}", "goto atomic_snapshot", "}", "}", "}", "atomic.LoadPointer(next)", "if(", "){", "return", "}", "}"] := rfl
theorem xsync_mapof_MapOf_Load : Gen.Facts.xsync_mapof_MapOf_Load = ["atomic.LoadPointer(table)", "R:seed", "h1", "h2", "broadcast", "R:buckets", "for(", "){", "atomic.LoadUint64(meta)", "markZeroBytes", "for(", "){", "firstMarkedByteIndex", "atomic.LoadPointer(entries)", "if(", "){", "if(", "){", "return", "}", "}", "}", "atomic.LoadPointer(next)", "if(", "){", "return", "}", "}"] := rfl

end Expect.Load
