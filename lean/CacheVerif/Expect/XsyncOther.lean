import CacheVerif.Generated.Facts
/-!
Pinned structural facts: remaining functions of internal/xsync.
Regenerate with tools/pin_expect.py only after reviewing the change against the hand-written models.
-/
namespace Expect.XsyncOther

theorem xsync_map_derefKey : Gen.Facts.xsync_map_derefKey = ["return"] := rfl
theorem xsync_map_derefValue : Gen.Facts.xsync_map_derefValue = ["return"] := rfl
theorem xsync_map_topHashMatch : Gen.Facts.xsync_map_topHashMatch = ["if(", "){", "return", "}", "return"] := rfl
theorem xsync_map_storeTopHash : Gen.Facts.xsync_map_storeTopHash = ["return"] := rfl
theorem xsync_map_eraseTopHash : Gen.Facts.xsync_map_eraseTopHash = ["return"] := rfl
theorem xsync_mapof_h1 : Gen.Facts.xsync_mapof_h1 = ["return"] := rfl
theorem xsync_mapof_h2 : Gen.Facts.xsync_mapof_h2 = ["return"] := rfl

end Expect.XsyncOther
