import CacheVerif.Generated.Facts
/-!
Pinned structural facts: call structure of the cache-layer methods (xsync_map.go, xsync_mapof.go): basis of M2, M5.
Regenerate with tools/pin_expect.py only after reviewing the change against the hand-written models.
-/
namespace Expect.Cache

theorem cache_xsync_map_xsyncMap_Set : Gen.Facts.cache_xsync_map_xsyncMap_Set = ["R:items", "c.expiration", "items.Store"] := rfl
theorem cache_xsync_map_xsyncMap_expiration : Gen.Facts.cache_xsync_map_xsyncMap_expiration = ["if(", "){", "c.DefaultExpiration", "}", "if(", "){", "time.Now", "Now().Add", "Add().UnixNano", "}", "return"] := rfl
theorem cache_xsync_map_xsyncMap_SetDefault : Gen.Facts.cache_xsync_map_xsyncMap_SetDefault = ["c.Set"] := rfl
theorem cache_xsync_map_xsyncMap_SetForever : Gen.Facts.cache_xsync_map_xsyncMap_SetForever = ["c.Set"] := rfl
theorem cache_xsync_map_xsyncMap_Get : Gen.Facts.cache_xsync_map_xsyncMap_Get = ["c.get", "if(", "){", "return", "}", "return"] := rfl
theorem cache_xsync_map_xsyncMap_get : Gen.Facts.cache_xsync_map_xsyncMap_get = ["R:items", "items.Load", "if(", "){", "return", "}", "if(", "i.expired", "){", "return", "}", "R:items", "func{", "if(", "){", "if(", "i.expired", "){", "return", "}", "}", "return", "}", "items.Compute", "if(", "){", "return", "}", "return"] := rfl
theorem cache_xsync_map_xsyncMap_GetWithExpiration : Gen.Facts.cache_xsync_map_xsyncMap_GetWithExpiration = ["c.get", "if(", "){", "return", "}", "if(", "){", "time.Unix", "return", "}", "return"] := rfl
theorem cache_xsync_map_xsyncMap_GetWithTTL : Gen.Facts.cache_xsync_map_xsyncMap_GetWithTTL = ["c.get", "if(", "){", "return", "}", "if(", "){", "time.Unix", "time.Until", "return", "}", "return"] := rfl
theorem cache_xsync_map_xsyncMap_GetOrSet : Gen.Facts.cache_xsync_map_xsyncMap_GetOrSet = ["R:items", "func{", "if(", "){", "if(", "old.expired", "){", "return", "}", "}", "c.expiration", "return", "}", "items.Compute", "return"] := rfl
theorem cache_xsync_map_xsyncMap_GetAndSet : Gen.Facts.cache_xsync_map_xsyncMap_GetAndSet = ["R:items", "func{", "if(", "){", "if(", "old.expired", "){", "}", "}", "c.expiration", "return", "}", "items.Compute", "if(", "){", "return", "}", "return"] := rfl
theorem cache_xsync_map_xsyncMap_GetAndRefresh : Gen.Facts.cache_xsync_map_xsyncMap_GetAndRefresh = ["R:items", "func{", "if(", "){", "if(", "i.expired", "){", "c.expiration", "return", "}", "}", "return", "}", "items.Compute", "if(", "){", "return", "}", "return"] := rfl
theorem cache_xsync_map_xsyncMap_GetOrCompute : Gen.Facts.cache_xsync_map_xsyncMap_GetOrCompute = ["R:items", "func{", "if(", "){", "if(", "i.expired", "){", "return", "}", "}", "valueFn", "c.expiration", "return", "}", "items.Compute", "return"] := rfl
theorem cache_xsync_map_xsyncMap_Compute : Gen.Facts.cache_xsync_map_xsyncMap_Compute = ["R:items", "func{", "if(", "){", "if(", "i.expired", "){", "}else{", "}", "}", "valueFn", "if(", "){", "return", "}", "c.expiration", "return", "}", "items.Compute", "if(", "){", "return", "}", "return"] := rfl
theorem cache_xsync_map_xsyncMap_GetAndDelete : Gen.Facts.cache_xsync_map_xsyncMap_GetAndDelete = ["R:items", "func{", "if(", "){", "i.expired", "}", "return", "}", "items.Compute", "if(", "){", "return", "}", "c.EvictedCallback", "if(", "){", "ec", "}", "if(", "){", "return", "}", "return"] := rfl
theorem cache_xsync_map_xsyncMap_Delete : Gen.Facts.cache_xsync_map_xsyncMap_Delete = ["c.GetAndDelete"] := rfl
theorem cache_xsync_map_xsyncMap_DeleteExpired : Gen.Facts.cache_xsync_map_xsyncMap_DeleteExpired = ["c.EvictedCallback", "time.Now", "Now().UnixNano", "R:items", "func{", "if(", "i.expiredWithNow", "){", "R:items", "func{", "if(", "){", "return", "}", "if(", "i.expiredWithNow", "){", "return", "}", "if(", "){", "}", "return", "}", "items.Compute", "}", "return", "}", "items.Range", "range{", "ec", "}"] := rfl
theorem cache_xsync_map_xsyncMap_Range : Gen.Facts.cache_xsync_map_xsyncMap_Range = ["if(", "){", "return", "}", "time.Now", "Now().UnixNano", "R:items", "func{", "if(", "i.expiredWithNow", "){", "return", "}", "f", "return", "}", "items.Range"] := rfl
theorem cache_xsync_map_xsyncMap_Items : Gen.Facts.cache_xsync_map_xsyncMap_Items = ["R:items", "items.Size", "func{", "return", "}", "c.Range", "return"] := rfl
theorem cache_xsync_map_xsyncMap_Clear : Gen.Facts.cache_xsync_map_xsyncMap_Clear = ["R:items", "items.Clear"] := rfl
theorem cache_xsync_map_xsyncMap_Count : Gen.Facts.cache_xsync_map_xsyncMap_Count = ["R:items", "items.Size", "return"] := rfl
theorem cache_xsync_map_xsyncMap_DefaultExpiration : Gen.Facts.cache_xsync_map_xsyncMap_DefaultExpiration = ["R:defaultExpiration", "defaultExpiration.Load", "return"] := rfl
theorem cache_xsync_map_xsyncMap_SetDefaultExpiration : Gen.Facts.cache_xsync_map_xsyncMap_SetDefaultExpiration = ["R:defaultExpiration", "defaultExpiration.Store"] := rfl
theorem cache_xsync_map_xsyncMap_EvictedCallback : Gen.Facts.cache_xsync_map_xsyncMap_EvictedCallback = ["R:evictedCallback", "evictedCallback.Load", "return"] := rfl
theorem cache_xsync_map_xsyncMap_SetEvictedCallback : Gen.Facts.cache_xsync_map_xsyncMap_SetEvictedCallback = ["R:evictedCallback", "evictedCallback.Store"] := rfl
theorem cache_xsync_mapof_xsyncMapOf_Set : Gen.Facts.cache_xsync_mapof_xsyncMapOf_Set = ["R:items", "c.expiration", "items.Store"] := rfl
theorem cache_xsync_mapof_xsyncMapOf_expiration : Gen.Facts.cache_xsync_mapof_xsyncMapOf_expiration = ["if(", "){", "c.DefaultExpiration", "}", "if(", "){", "time.Now", "Now().Add", "Add().UnixNano", "}", "return"] := rfl
theorem cache_xsync_mapof_xsyncMapOf_SetDefault : Gen.Facts.cache_xsync_mapof_xsyncMapOf_SetDefault = ["c.Set"] := rfl
theorem cache_xsync_mapof_xsyncMapOf_SetForever : Gen.Facts.cache_xsync_mapof_xsyncMapOf_SetForever = ["c.Set"] := rfl
theorem cache_xsync_mapof_xsyncMapOf_Get : Gen.Facts.cache_xsync_mapof_xsyncMapOf_Get = ["c.get", "if(", "){", "return", "}", "return"] := rfl
theorem cache_xsync_mapof_xsyncMapOf_get : Gen.Facts.cache_xsync_mapof_xsyncMapOf_get = ["R:items", "items.Load", "if(", "){", "return", "}", "if(", "i.expired", "){", "return", "}", "R:items", "func{", "if(", "&&", "value.expired", "){", "return", "}", "return", "}", "items.Compute", "if(", "){", "return", "}", "return"] := rfl
theorem cache_xsync_mapof_xsyncMapOf_GetWithExpiration : Gen.Facts.cache_xsync_mapof_xsyncMapOf_GetWithExpiration = ["c.get", "if(", "){", "return", "}", "if(", "){", "time.Unix", "return", "}", "return"] := rfl
theorem cache_xsync_mapof_xsyncMapOf_GetWithTTL : Gen.Facts.cache_xsync_mapof_xsyncMapOf_GetWithTTL = ["c.get", "if(", "){", "return", "}", "if(", "){", "time.Unix", "time.Until", "return", "}", "return"] := rfl
theorem cache_xsync_mapof_xsyncMapOf_GetOrSet : Gen.Facts.cache_xsync_mapof_xsyncMapOf_GetOrSet = ["R:items", "func{", "if(", "&&", "value.expired", "){", "return", "}", "c.expiration", "return", "}", "items.Compute", "return"] := rfl
theorem cache_xsync_mapof_xsyncMapOf_GetAndSet : Gen.Facts.cache_xsync_mapof_xsyncMapOf_GetAndSet = ["R:items", "func{", "if(", "&&", "value.expired", "){", "}", "c.expiration", "return", "}", "items.Compute", "if(", "){", "return", "}", "return"] := rfl
theorem cache_xsync_mapof_xsyncMapOf_GetAndRefresh : Gen.Facts.cache_xsync_mapof_xsyncMapOf_GetAndRefresh = ["R:items", "func{", "if(", "&&", "value.expired", "){", "c.expiration", "return", "}", "return", "}", "items.Compute", "if(", "){", "return", "}", "return"] := rfl
theorem cache_xsync_mapof_xsyncMapOf_GetOrCompute : Gen.Facts.cache_xsync_mapof_xsyncMapOf_GetOrCompute = ["R:items", "func{", "if(", "&&", "value.expired", "){", "return", "}", "valueFn", "c.expiration", "return", "}", "items.Compute", "return"] := rfl
theorem cache_xsync_mapof_xsyncMapOf_Compute : Gen.Facts.cache_xsync_mapof_xsyncMapOf_Compute = ["R:items", "func{", "if(", "&&", "ov.expired", "){", "}else{", "}", "valueFn", "if(", "){", "return", "}", "c.expiration", "return", "}", "items.Compute", "if(", "){", "return", "}", "return"] := rfl
theorem cache_xsync_mapof_xsyncMapOf_GetAndDelete : Gen.Facts.cache_xsync_mapof_xsyncMapOf_GetAndDelete = ["R:items", "func{", "if(", "){", "i.expired", "}", "return", "}", "items.Compute", "if(", "){", "return", "}", "c.EvictedCallback", "if(", "){", "ec", "}", "if(", "){", "return", "}", "return"] := rfl
theorem cache_xsync_mapof_xsyncMapOf_Delete : Gen.Facts.cache_xsync_mapof_xsyncMapOf_Delete = ["c.GetAndDelete"] := rfl
theorem cache_xsync_mapof_xsyncMapOf_DeleteExpired : Gen.Facts.cache_xsync_mapof_xsyncMapOf_DeleteExpired = ["c.EvictedCallback", "time.Now", "Now().UnixNano", "R:items", "func{", "if(", "i.expiredWithNow", "){", "R:items", "func{", "if(", "){", "return", "}", "if(", "value.expiredWithNow", "){", "return", "}", "if(", "){", "}", "return", "}", "items.Compute", "}", "return", "}", "items.Range", "range{", "ec", "}"] := rfl
theorem cache_xsync_mapof_xsyncMapOf_Range : Gen.Facts.cache_xsync_mapof_xsyncMapOf_Range = ["if(", "){", "return", "}", "time.Now", "Now().UnixNano", "R:items", "func{", "if(", "i.expiredWithNow", "){", "return", "}", "f", "return", "}", "items.Range"] := rfl
theorem cache_xsync_mapof_xsyncMapOf_Items : Gen.Facts.cache_xsync_mapof_xsyncMapOf_Items = ["R:items", "items.Size", "func{", "return", "}", "c.Range", "return"] := rfl
theorem cache_xsync_mapof_xsyncMapOf_Clear : Gen.Facts.cache_xsync_mapof_xsyncMapOf_Clear = ["R:items", "items.Clear"] := rfl
theorem cache_xsync_mapof_xsyncMapOf_Count : Gen.Facts.cache_xsync_mapof_xsyncMapOf_Count = ["R:items", "items.Size", "return"] := rfl
theorem cache_xsync_mapof_xsyncMapOf_DefaultExpiration : Gen.Facts.cache_xsync_mapof_xsyncMapOf_DefaultExpiration = ["R:defaultExpiration", "defaultExpiration.Load", "return"] := rfl
theorem cache_xsync_mapof_xsyncMapOf_SetDefaultExpiration : Gen.Facts.cache_xsync_mapof_xsyncMapOf_SetDefaultExpiration = ["R:defaultExpiration", "defaultExpiration.Store"] := rfl
theorem cache_xsync_mapof_xsyncMapOf_EvictedCallback : Gen.Facts.cache_xsync_mapof_xsyncMapOf_EvictedCallback = ["R:evictedCallback", "evictedCallback.Load", "return"] := rfl
theorem cache_xsync_mapof_xsyncMapOf_SetEvictedCallback : Gen.Facts.cache_xsync_mapof_xsyncMapOf_SetEvictedCallback = ["R:evictedCallback", "evictedCallback.Store"] := rfl

end Expect.Cache
