import CacheVerif.Generated.Facts
/-!
Pinned structural facts: constructors, options, janitor goroutine and finalizer closures (capture facts): basis of M6 and of the constructor plumbing of M2.
Regenerate with tools/pin_expect.py only after reviewing the change against the hand-written models.
-/
namespace Expect.Ctor

theorem cache_xsync_map_newXsyncMap : Gen.Facts.cache_xsync_map_newXsyncMap = ["configDefault", "NewMapPresized", "R:defaultExpiration", "defaultExpiration.Store", "R:evictedCallback", "evictedCallback.Store", "if(", "){", "go{", "func{", "time.NewTicker", "defer{", "ticker.Stop", "}", "for(", "){", "select{", "case:", "c.DeleteExpired", "case:", "R:stop", "return", "}", "}", "}", "}", "}", "func{", "R:stop", "close", "}", "runtime.SetFinalizer", "return"] := rfl
theorem cache_xsync_map_newXsyncMap_go0_captures : Gen.Facts.cache_xsync_map_newXsyncMap_go0_captures = ["c", "cfg"] := rfl
theorem cache_xsync_map_newXsyncMap_finalizer_captures : Gen.Facts.cache_xsync_map_newXsyncMap_finalizer_captures = [] := rfl
theorem cache_xsync_map_newXsyncMap_finalizer_target : Gen.Facts.cache_xsync_map_newXsyncMap_finalizer_target = "cache" := rfl
theorem cache_xsync_map_newXsyncMapDefault : Gen.Facts.cache_xsync_map_newXsyncMapDefault = ["if(", "){", "}", "newXsyncMap", "return"] := rfl
theorem cache_xsync_mapof_newXsyncMapOf : Gen.Facts.cache_xsync_mapof_newXsyncMapOf = ["configDefaultOf", "NewMapOfPresized", "R:defaultExpiration", "defaultExpiration.Store", "R:evictedCallback", "evictedCallback.Store", "if(", "){", "go{", "func{", "time.NewTicker", "defer{", "ticker.Stop", "}", "for(", "){", "select{", "case:", "c.DeleteExpired", "case:", "R:stop", "return", "}", "}", "}", "}", "}", "func{", "R:stop", "close", "}", "runtime.SetFinalizer", "return"] := rfl
theorem cache_xsync_mapof_newXsyncMapOf_go0_captures : Gen.Facts.cache_xsync_mapof_newXsyncMapOf_go0_captures = ["c", "cfg"] := rfl
theorem cache_xsync_mapof_newXsyncMapOf_finalizer_captures : Gen.Facts.cache_xsync_mapof_newXsyncMapOf_finalizer_captures = [] := rfl
theorem cache_xsync_mapof_newXsyncMapOf_finalizer_target : Gen.Facts.cache_xsync_mapof_newXsyncMapOf_finalizer_target = "cache" := rfl
theorem cache_xsync_mapof_newXsyncMapOfDefault : Gen.Facts.cache_xsync_mapof_newXsyncMapOfDefault = ["if(", "){", "}", "newXsyncMapOf", "return"] := rfl
theorem cache_cache_New : Gen.Facts.cache_cache_New = ["DefaultConfig", "range{", "opt", "}", "newXsyncMap", "return"] := rfl
theorem cache_cache_NewDefault : Gen.Facts.cache_cache_NewDefault = ["newXsyncMapDefault", "return"] := rfl
theorem cache_cacheof_NewOf : Gen.Facts.cache_cacheof_NewOf = ["DefaultConfigOf", "range{", "opt", "}", "newXsyncMapOf", "return"] := rfl
theorem cache_cacheof_NewOfDefault : Gen.Facts.cache_cacheof_NewOfDefault = ["newXsyncMapOfDefault", "return"] := rfl
theorem cache_map_NewMap : Gen.Facts.cache_map_NewMap = ["return"] := rfl
theorem cache_map_NewMapPresized : Gen.Facts.cache_map_NewMapPresized = ["return"] := rfl
theorem cache_mapof_NewMapOf : Gen.Facts.cache_mapof_NewMapOf = ["return"] := rfl
theorem cache_mapof_NewMapOfPresized : Gen.Facts.cache_mapof_NewMapOfPresized = ["return"] := rfl
theorem cache_options_WithDefaultExpiration : Gen.Facts.cache_options_WithDefaultExpiration = ["func{", "}", "return"] := rfl
theorem cache_options_WithCleanupInterval : Gen.Facts.cache_options_WithCleanupInterval = ["func{", "}", "return"] := rfl
theorem cache_options_WithEvictedCallback : Gen.Facts.cache_options_WithEvictedCallback = ["func{", "}", "return"] := rfl
theorem cache_options_WithMinCapacity : Gen.Facts.cache_options_WithMinCapacity = ["func{", "}", "return"] := rfl
theorem cache_optionsof_WithDefaultExpirationOf : Gen.Facts.cache_optionsof_WithDefaultExpirationOf = ["func{", "}", "return"] := rfl
theorem cache_optionsof_WithCleanupIntervalOf : Gen.Facts.cache_optionsof_WithCleanupIntervalOf = ["func{", "}", "return"] := rfl
theorem cache_optionsof_WithEvictedCallbackOf : Gen.Facts.cache_optionsof_WithEvictedCallbackOf = ["func{", "}", "return"] := rfl
theorem cache_optionsof_WithMinCapacityOf : Gen.Facts.cache_optionsof_WithMinCapacityOf = ["func{", "}", "return"] := rfl

end Expect.Ctor
