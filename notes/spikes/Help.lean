/-! Clear-with-helping + linearization log + stale readers, OG style. One key, one bucket per generation. -/
namespace Help

inductive Pc where
  | idle | w1 | w2 | w3 | w4 | w5 | wdone | r1 | r2 | rdone
deriving DecidableEq, Repr

inductive Op where | swap (v : Nat) | clear
deriving DecidableEq, Repr

structure Entry where
  tid : Nat
  cid : Nat
  op  : Op
  ret : Option Nat     -- swap: old value; clear: none
deriving DecidableEq, Repr

/-- sequential spec replay: `none` if some recorded result is wrong -/
def specStep (st : Option Nat) (e : Entry) : Option (Option Nat) :=
  match e.op with
  | .swap v => if e.ret = st then some (some v) else none
  | .clear  => some none

def specRun : List Entry → Option Nat → Option (Option Nat)
  | [], st => some st
  | e :: es, st => (specStep st e).bind (specRun es)

theorem specRun_append (xs : List Entry) (e : Entry) (st : Option Nat) :
    specRun (xs ++ [e]) st = (specRun xs st).bind (fun s => specStep s e) := by
  induction xs generalizing st with
  | nil => simp [specRun]
  | cons x xs ih =>
    simp only [List.cons_append, specRun]
    cases specStep st x with
    | none => simp
    | some s => simp [ih]

structure G where
  cur     : Nat
  data    : Nat → Option Nat
  lock    : Nat → Option Nat
  pending : Option (Nat × Nat × Nat)      -- ghost: (tid, cid, v) of the writer past its check on `cur`
  hist    : List (Option Nat)
  pub     : Nat → Nat
  lin     : List Entry
structure L where
  pc    : Pc
  cid   : Nat
  v     : Nat
  g     : Nat
  old   : Option Nat
  start : Nat          -- reader: hist index at invocation
  res   : Option Nat

inductive Ch where | swap (v : Nat) | clear | read

def tstep (t : Nat) (g : G) (l : L) (c : Ch) : Option (G × L) :=
  match l.pc with
  | .idle => match c with
     | .swap v => some (g, { l with pc := .w1, v := v, cid := l.cid + 1 })
     | .read   => some (g, { l with pc := .r1, start := g.hist.length - 1 })
     | .clear  => match g.pending with
        -- publish a fresh empty table; lock no bucket; help the writer that is past its check
        | some (u, ucid, uv) =>
          some ({ g with data := fun i => if i = g.cur + 1 then none else g.data i,
                         pub := fun i => if i = g.cur then g.hist.length - 1 else g.pub i,
                         hist := g.hist ++ [some uv] ++ [none],
                         lin := g.lin ++ [Entry.mk u ucid (.swap uv) (g.data g.cur)] ++ [Entry.mk t (l.cid + 1) .clear none],
                         pending := none,
                         cur := g.cur + 1 }, { l with cid := l.cid + 1 })
        | none =>
          some ({ g with data := fun i => if i = g.cur + 1 then none else g.data i,
                         pub := fun i => if i = g.cur then g.hist.length - 1 else g.pub i,
                         hist := g.hist ++ [none],
                         lin := g.lin ++ [Entry.mk t (l.cid + 1) .clear none],
                         cur := g.cur + 1 }, { l with cid := l.cid + 1 })
  | .w1 => some (g, { l with pc := .w2, g := g.cur })
  | .w2 => match g.lock l.g with
     | none => some ({ g with lock := fun i => if i = l.g then some t else g.lock i }, { l with pc := .w3 })
     | some _ => some (g, l)
  | .w3 => if l.g = g.cur
           then some ({ g with pending := some (t, l.cid, l.v) }, { l with pc := .w4, old := g.data l.g })
           else some ({ g with lock := fun i => if i = l.g then none else g.lock i }, { l with pc := .w1 })
  | .w4 => if l.g = g.cur
     then          -- not helped: this is the linearization point
        some ({ g with data := fun i => if i = l.g then some l.v else g.data i,
                       hist := g.hist ++ [some l.v],
                       lin := g.lin ++ [Entry.mk t l.cid (.swap l.v) l.old],
                       pending := none }, { l with pc := .w5 })
     else          -- helped by a clear: late commit into a retired table
        some ({ g with data := fun i => if i = l.g then some l.v else g.data i }, { l with pc := .w5 })
  | .w5 => some ({ g with lock := fun i => if i = l.g then none else g.lock i }, { l with pc := .wdone })
  | .wdone => none
  | .r1 => some (g, { l with pc := .r2, g := g.cur })
  | .r2 => some (g, { l with pc := .rdone, res := g.data l.g })
  | .rdone => none

def holds : Pc → Bool | .w3 | .w4 | .w5 => true | _ => false

structure GI (g : G) : Prop where
  ne    : g.hist ≠ []
  last  : g.hist[g.hist.length - 1]? = some (g.data g.cur)
  lin   : specRun g.lin none = some (g.data g.cur)
  old   : ∀ i, i < g.cur → ∃ j, g.pub i ≤ j ∧ g.hist[j]? = some (g.data i)

structure LI (t : Nat) (g : G) (l : L) : Prop where
  lk   : ∀ i, g.lock i = some t ↔ (holds l.pc = true ∧ l.g = i)
  pend : (∃ c v, g.pending = some (t, c, v)) → l.pc = .w4 ∧ l.g = g.cur
  w4   : l.pc = .w4 →
           (l.g = g.cur ∧ g.pending = some (t, l.cid, l.v) ∧ l.old = g.data g.cur) ∨
           (l.g < g.cur ∧ Entry.mk t l.cid (.swap l.v) l.old ∈ g.lin ∧
              ∃ j, g.pub l.g ≤ j ∧ g.hist[j]? = some (some l.v))
  wd   : (l.pc = .w5 ∨ l.pc = .wdone) → Entry.mk t l.cid (.swap l.v) l.old ∈ g.lin
  st   : (l.pc = .r1 ∨ l.pc = .r2 ∨ l.pc = .rdone) → l.start < g.hist.length
  r2   : l.pc = .r2 → l.g ≤ g.cur ∧ (l.g < g.cur → l.start ≤ g.pub l.g)
  rd   : l.pc = .rdone → ∃ i, l.start ≤ i ∧ g.hist[i]? = some l.res


theorem app_old {α} (xs : List α) (y : α) (i : Nat) (h : i < xs.length) : (xs ++ [y])[i]? = xs[i]? := by
  simp [List.getElem?_append_left h]
theorem lt_of_get {α} (xs : List α) (i : Nat) (a : α) (h : xs[i]? = some a) : i < xs.length := by
  rcases Nat.lt_or_ge i xs.length with h' | h'
  · exact h'
  · simp [List.getElem?_eq_none h'] at h
theorem app_mono {α} (xs : List α) (y : α) (i : Nat) (a : α) (h : xs[i]? = some a) : (xs ++ [y])[i]? = some a := by
  rw [app_old _ _ _ (lt_of_get _ _ _ h)]; exact h
theorem app_last {α} (xs : List α) (y : α) : (xs ++ [y])[(xs ++ [y]).length - 1]? = some y := by simp
theorem app_at {α} (xs : List α) (y : α) : (xs ++ [y])[xs.length]? = some y := by simp

theorem gi_ok (t : Nat) (g : G) (l : L) (c : Ch) (g' : G) (l' : L)
    (hg : GI g) (hl : LI t g l) (hs : tstep t g l c = some (g', l')) : GI g' := by
  obtain ⟨h1, h2, h3, h4⟩ := hg
  have hlen : 0 < g.hist.length := List.length_pos_iff.mpr h1
  unfold tstep at hs
  split at hs
  · -- idle
    split at hs
    · simp only [Option.some.injEq, Prod.mk.injEq] at hs; obtain ⟨rfl, rfl⟩ := hs; exact ⟨h1, h2, h3, h4⟩
    · simp only [Option.some.injEq, Prod.mk.injEq] at hs; obtain ⟨rfl, rfl⟩ := hs; exact ⟨h1, h2, h3, h4⟩
    · -- clear
      split at hs
      · rename_i u ucid uv hp
        simp only [Option.some.injEq, Prod.mk.injEq] at hs; obtain ⟨rfl, rfl⟩ := hs
        refine ⟨by simp, by simp, ?_, ?_⟩
        · dsimp only
          rw [specRun_append, specRun_append, h3]; simp [specStep]
        · intro i hi
          dsimp only at hi ⊢
          by_cases hic : i = g.cur
          · subst hic
            refine ⟨g.hist.length - 1, by simp, ?_⟩
            rw [if_neg (by omega)]
            exact app_mono _ _ _ _ (app_mono _ _ _ _ h2)
          · obtain ⟨j, hj, he⟩ := h4 i (by omega)
            refine ⟨j, by simp [hic]; exact hj, ?_⟩
            rw [if_neg (by omega)]
            exact app_mono _ _ _ _ (app_mono _ _ _ _ he)
      · simp only [Option.some.injEq, Prod.mk.injEq] at hs; obtain ⟨rfl, rfl⟩ := hs
        refine ⟨by simp, by simp, ?_, ?_⟩
        · simp [specRun_append, h3, specStep]
        · intro i hi
          dsimp only at hi ⊢
          by_cases hic : i = g.cur
          · subst hic
            refine ⟨g.hist.length - 1, by simp, ?_⟩
            rw [if_neg (by omega)]
            exact app_mono _ _ _ _ h2
          · obtain ⟨j, hj, he⟩ := h4 i (by omega)
            refine ⟨j, by simp [hic]; exact hj, ?_⟩
            rw [if_neg (by omega)]
            exact app_mono _ _ _ _ he
  · simp only [Option.some.injEq, Prod.mk.injEq] at hs; obtain ⟨rfl, rfl⟩ := hs; exact ⟨h1, h2, h3, h4⟩
  · split at hs <;> simp only [Option.some.injEq, Prod.mk.injEq] at hs <;> obtain ⟨rfl, rfl⟩ := hs <;> exact ⟨h1, h2, h3, h4⟩
  · split at hs <;> simp only [Option.some.injEq, Prod.mk.injEq] at hs <;> obtain ⟨rfl, rfl⟩ := hs <;> exact ⟨h1, h2, h3, h4⟩
  · -- w4
    rename_i hpc
    have hw4 := hl.w4 hpc
    split at hs
    · rename_i hgc
      simp only [Option.some.injEq, Prod.mk.injEq] at hs; obtain ⟨rfl, rfl⟩ := hs
      rcases hw4 with ⟨_, hpend, hold⟩ | ⟨hlt, _⟩
      · refine ⟨by simp, by simp [hgc], ?_, ?_⟩
        · simp [specRun_append, h3, specStep, hold, hgc]
        · intro i hi
          dsimp only at hi ⊢
          obtain ⟨j, hj, he⟩ := h4 i hi
          exact ⟨j, hj, by rw [if_neg (by omega)]; exact app_mono _ _ _ _ he⟩
      · omega
    · rename_i hgc
      simp only [Option.some.injEq, Prod.mk.injEq] at hs; obtain ⟨rfl, rfl⟩ := hs
      rcases hw4 with ⟨hh, _⟩ | ⟨hlt, _, j, hj, he⟩
      · exact absurd hh hgc
      · refine ⟨h1, by simpa [show g.cur ≠ l.g by omega] using h2, by simpa [show g.cur ≠ l.g by omega] using h3, ?_⟩
        intro i hi
        dsimp only
        by_cases hil : i = l.g
        · subst hil; exact ⟨j, hj, by simpa using he⟩
        · simpa [hil] using h4 i hi
  · simp only [Option.some.injEq, Prod.mk.injEq] at hs; obtain ⟨rfl, rfl⟩ := hs; exact ⟨h1, h2, h3, h4⟩
  · simp at hs
  · simp only [Option.some.injEq, Prod.mk.injEq] at hs; obtain ⟨rfl, rfl⟩ := hs; exact ⟨h1, h2, h3, h4⟩
  · simp only [Option.some.injEq, Prod.mk.injEq] at hs; obtain ⟨rfl, rfl⟩ := hs; exact ⟨h1, h2, h3, h4⟩
  · simp at hs


attribute [grind =] holds

theorem mem_app_mono {α} (xs : List α) (y a : α) (h : a ∈ xs) : a ∈ xs ++ [y] := by simp [h]

theorem other_ok (t u : Nat) (hne : u ≠ t) (g : G) (l m : L) (c : Ch) (g' : G) (l' : L)
    (hg : GI g) (hl : LI t g l) (hm : LI u g m) (hs : tstep t g l c = some (g', l')) : LI u g' m := by
  obtain ⟨h1, h2, h3, h4⟩ := hg
  have hlen : 0 < g.hist.length := List.length_pos_iff.mpr h1
  obtain ⟨m1, m2, m3, m4, m5, m6, m7⟩ := hm
  obtain ⟨l1, l2, l3, l4, l5, l6, l7⟩ := hl
  unfold tstep at hs
  split at hs <;> (try split at hs) <;> (try split at hs) <;>
    simp only [Option.some.injEq, Prod.mk.injEq, reduceCtorEq] at hs <;>
    (try obtain ⟨rfl, rfl⟩ := hs) <;>
    (try exact ⟨m1, m2, m3, m4, m5, m6, m7⟩)
  all_goals (refine ⟨?_, ?_, ?_, ?_, ?_, ?_, ?_⟩)
  all_goals (try (first | exact m1 | exact m2 | exact m3 | exact m4 | exact m5 | exact m6 | exact m7))
  all_goals (try grind [app_mono, mem_app_mono, app_at, lt_of_get])
  -- what automation leaves: witnesses through double appends, and lock/pending exclusion arguments
  case h_1.refine_7 =>
    intro h; obtain ⟨i, hi, he⟩ := m7 h
    exact ⟨i, hi, app_mono _ _ _ _ (app_mono _ _ _ _ he)⟩
  case h_1.refine_3 =>
    rename_i _ _ _ _ u' ucid' uv' hpn
    intro h
    rcases m3 h with ⟨hmg, hp, hold⟩ | ⟨hlt, hin, j, hj, he⟩
    · rw [hpn] at hp
      simp only [Option.some.injEq, Prod.mk.injEq] at hp
      obtain ⟨rfl, rfl, rfl⟩ := hp
      right
      refine ⟨by dsimp only; omega, ?_, g.hist.length, ?_, ?_⟩
      · dsimp only; rw [hold]; simp
      · dsimp only; rw [hmg]; simp
      · dsimp only; exact app_mono _ _ _ _ (app_at _ _)
    · right
      refine ⟨by dsimp only; omega, mem_app_mono _ _ _ (mem_app_mono _ _ _ hin), j, ?_, app_mono _ _ _ _ (app_mono _ _ _ _ he)⟩
      dsimp only; rw [if_neg (by omega)]; exact hj
  case h_2.refine_3 =>
    rename_i _ _ _ _ hpn
    intro h
    rcases m3 h with ⟨_, hp, _⟩ | ⟨hlt, hin, j, hj, he⟩
    · rw [hpn] at hp; cases hp
    · right
      refine ⟨by dsimp only; omega, mem_app_mono _ _ _ hin, j, ?_, app_mono _ _ _ _ he⟩
      dsimp only; rw [if_neg (by omega)]; exact hj
  case h_2.refine_7 =>
    intro h; obtain ⟨i, hi, he⟩ := m7 h
    exact ⟨i, hi, app_mono _ _ _ _ he⟩
  case h_4.isTrue.refine_3 =>
    intro h
    rename_i hpc hgc
    rcases m3 h with ⟨hmg, hp, _⟩ | hr
    · -- u would hold the lock of `cur`, but t holds it
      have hu : g.lock g.cur = some u := (m1 g.cur).mpr ⟨by simp [h, holds], hmg⟩
      have ht : g.lock g.cur = some t := (l1 g.cur).mpr ⟨by simp [hpc, holds], hgc⟩
      rw [hu] at ht; exact absurd (Option.some.inj ht) hne
    · exact Or.inr hr
  case h_4.isFalse.refine_1 =>
    rename_i hpc hgc
    intro i
    dsimp only
    by_cases hi : i = l.g
    · subst hi
      simp only [if_true]
      constructor
      · intro h; cases h
      · rintro ⟨hh, hg⟩
        have hu : g.lock l.g = some u := (m1 l.g).mpr ⟨hh, hg⟩
        have ht : g.lock l.g = some t := (l1 l.g).mpr ⟨by simp [hpc, holds], rfl⟩
        rw [hu] at ht; exact absurd (Option.some.inj ht) hne
    · simp only [if_neg hi]; exact m1 i
  case h_5.isTrue.refine_3 =>
    intro h
    rename_i hpc hgc
    rcases m3 h with ⟨hmg, hp, _⟩ | ⟨hlt, hin, j, hj, he⟩
    · have hu : g.lock g.cur = some u := (m1 g.cur).mpr ⟨by simp [h, holds], hmg⟩
      have ht : g.lock g.cur = some t := (l1 g.cur).mpr ⟨by simp [hpc, holds], hgc⟩
      rw [hu] at ht; exact absurd (Option.some.inj ht) hne
    · exact Or.inr ⟨hlt, mem_app_mono _ _ _ hin, j, hj, app_mono _ _ _ _ he⟩
  case h_5.isTrue.refine_7 =>
    intro h; obtain ⟨i, hi, he⟩ := m7 h
    exact ⟨i, hi, app_mono _ _ _ _ he⟩
  case h_6.refine_1 =>
    rename_i hpc
    intro i
    dsimp only
    by_cases hi : i = l.g
    · subst hi
      simp only [if_true]
      constructor
      · intro h; cases h
      · rintro ⟨hh, hg⟩
        have hu : g.lock l.g = some u := (m1 l.g).mpr ⟨hh, hg⟩
        have ht : g.lock l.g = some t := (l1 l.g).mpr ⟨by simp [hpc, holds], rfl⟩
        rw [hu] at ht; exact absurd (Option.some.inj ht) hne
    · simp only [if_neg hi]; exact m1 i


theorem self_ok (t : Nat) (g : G) (l : L) (c : Ch) (g' : G) (l' : L)
    (hg : GI g) (hl : LI t g l) (hs : tstep t g l c = some (g', l')) : LI t g' l' := by
  obtain ⟨h1, h2, h3, h4⟩ := hg
  have hlen : 0 < g.hist.length := List.length_pos_iff.mpr h1
  obtain ⟨l1, l2, l3, l4, l5, l6, l7⟩ := hl
  unfold tstep at hs
  split at hs <;> (try split at hs) <;> (try split at hs) <;>
    simp only [Option.some.injEq, Prod.mk.injEq, reduceCtorEq] at hs <;>
    (try obtain ⟨rfl, rfl⟩ := hs) <;>
    (try exact ⟨l1, l2, l3, l4, l5, l6, l7⟩)
  all_goals (refine ⟨?_, ?_, ?_, ?_, ?_, ?_, ?_⟩)
  all_goals (try grind [app_mono, mem_app_mono, app_at, lt_of_get])

end Help
