/-! hindsight by global append-only history + local start index, OG style -/
namespace Hind

inductive Pc where | idle | r1 | r2 | done
deriving DecidableEq, Repr

structure G where
  cur   : Nat
  data  : Nat → Option Nat          -- per generation content of the single key
  hist  : List (Option Nat)          -- every value abs has taken, oldest first
  pub   : Nat → Nat                  -- ghost: index in hist of abs at the time generation g was retired
structure L where
  pc : Pc
  g : Nat
  start : Nat
  res : Option Nat

inductive Ch where | write (v : Nat) | del | publish | read

def tstep (g : G) (l : L) (c : Ch) : Option (G × L) :=
  match l.pc with
  | .idle => match c with
     | .write v => some ({ g with data := fun i => if i = g.cur then some v else g.data i, hist := g.hist ++ [some v] }, l)
     | .del     => some ({ g with data := fun i => if i = g.cur then none else g.data i, hist := g.hist ++ [none] }, l)
     | .publish => some ({ g with data := fun i => if i = g.cur + 1 then g.data g.cur else g.data i,
                                  pub := fun i => if i = g.cur then g.hist.length - 1 else g.pub i,
                                  cur := g.cur + 1 }, l)
     | .read    => some (g, { l with pc := .r1, start := g.hist.length - 1 })
  | .r1 => some (g, { l with pc := .r2, g := g.cur })
  | .r2 => some (g, { l with pc := .done, res := g.data l.g })
  | .done => none

structure GI (g : G) : Prop where
  ne    : g.hist ≠ []
  last  : g.hist[g.hist.length - 1]? = some (g.data g.cur)
  old   : ∀ i, i < g.cur → g.pub i < g.hist.length ∧ g.hist[g.pub i]? = some (g.data i)

structure LI (g : G) (l : L) : Prop where
  st  : l.pc ≠ .idle → l.start < g.hist.length
  r2  : l.pc = .r2 → l.g ≤ g.cur ∧ (l.g < g.cur → l.start ≤ g.pub l.g)
  dn  : l.pc = .done → ∃ i, l.start ≤ i ∧ g.hist[i]? = some l.res


theorem getElem?_append_old {α} (xs : List α) (y : α) (i : Nat) (h : i < xs.length) : (xs ++ [y])[i]? = xs[i]? := by
  simp [List.getElem?_append_left h]

theorem gi_ok (g : G) (l : L) (c : Ch) (g' : G) (l' : L)
    (hg : GI g) (hs : tstep g l c = some (g', l')) : GI g' := by
  obtain ⟨h1, h2, h3⟩ := hg
  have hlen : 0 < g.hist.length := List.length_pos_iff.mpr h1
  unfold tstep at hs
  split at hs
  · split at hs <;> simp only [Option.some.injEq, Prod.mk.injEq] at hs <;> obtain ⟨rfl, rfl⟩ := hs
    · refine ⟨by simp, by simp, ?_⟩
      intro i hi
      dsimp only at hi ⊢
      have := h3 i hi
      have hne : i ≠ g.cur := by omega
      refine ⟨by simp; omega, ?_⟩
      rw [getElem?_append_old _ _ _ this.1, if_neg hne]; exact this.2
    · refine ⟨by simp, by simp, ?_⟩
      intro i hi
      dsimp only at hi ⊢
      have := h3 i hi
      have hne : i ≠ g.cur := by omega
      refine ⟨by simp; omega, ?_⟩
      rw [getElem?_append_old _ _ _ this.1, if_neg hne]; exact this.2
    · refine ⟨h1, by simpa using h2, ?_⟩
      intro i hi
      simp only at hi
      by_cases hic : i = g.cur
      · subst hic; simp; exact ⟨by omega, h2⟩
      · have := h3 i (by omega)
        simp [hic, show i ≠ g.cur + 1 by omega]; exact this
    · exact ⟨h1, h2, h3⟩
  all_goals (simp only [Option.some.injEq, Prod.mk.injEq, reduceCtorEq] at hs; try (obtain ⟨rfl, rfl⟩ := hs; exact ⟨h1, h2, h3⟩))

theorem self_ok (g : G) (l : L) (c : Ch) (g' : G) (l' : L)
    (hg : GI g) (hl : LI g l) (hs : tstep g l c = some (g', l')) : LI g' l' := by
  obtain ⟨h1, h2, h3⟩ := hg
  obtain ⟨l1, l2, l3⟩ := hl
  have hlen : 0 < g.hist.length := List.length_pos_iff.mpr h1
  unfold tstep at hs
  split at hs
  · rename_i hpc
    split at hs <;> simp only [Option.some.injEq, Prod.mk.injEq] at hs <;> obtain ⟨rfl, rfl⟩ := hs
    · exact ⟨by simp [hpc], by simp [hpc], by simp [hpc]⟩
    · exact ⟨by simp [hpc], by simp [hpc], by simp [hpc]⟩
    · exact ⟨by simp [hpc], by simp [hpc], by simp [hpc]⟩
    · exact ⟨by simp; omega, by simp, by simp⟩
  · rename_i hpc
    simp only [Option.some.injEq, Prod.mk.injEq] at hs; obtain ⟨rfl, rfl⟩ := hs
    refine ⟨fun _ => l1 (by simp [hpc]), fun _ => ⟨Nat.le_refl _, fun h => absurd h (Nat.lt_irrefl _)⟩, by simp⟩
  · rename_i hpc
    simp only [Option.some.injEq, Prod.mk.injEq] at hs; obtain ⟨rfl, rfl⟩ := hs
    refine ⟨fun _ => l1 (by simp [hpc]), by simp, fun _ => ?_⟩
    have ⟨hle, hlt⟩ := l2 hpc
    by_cases hc : l.g < g.cur
    · exact ⟨g.pub l.g, hlt hc, (h3 _ hc).2⟩
    · have : l.g = g.cur := by omega
      exact ⟨g.hist.length - 1, by have := l1 (by simp [hpc]); dsimp only; omega, by rw [this]; exact h2⟩
  · simp at hs

theorem other_ok (g : G) (l m : L) (c : Ch) (g' : G) (l' : L)
    (hg : GI g) (hm : LI g m) (hs : tstep g l c = some (g', l')) : LI g' m := by
  obtain ⟨h1, h2, h3⟩ := hg
  obtain ⟨m1, m2, m3⟩ := hm
  have hlen : 0 < g.hist.length := List.length_pos_iff.mpr h1
  unfold tstep at hs
  split at hs
  · split at hs <;> simp only [Option.some.injEq, Prod.mk.injEq] at hs <;> obtain ⟨rfl, rfl⟩ := hs
    · refine ⟨fun h => by have := m1 h; simp; omega, m2, fun h => ?_⟩
      obtain ⟨i, hi, he⟩ := m3 h
      have : i < g.hist.length := by
        rcases Nat.lt_or_ge i g.hist.length with h | h
        · exact h
        · simp [List.getElem?_eq_none h] at he
      exact ⟨i, hi, by rw [getElem?_append_old _ _ _ this]; exact he⟩
    · refine ⟨fun h => by have := m1 h; simp; omega, m2, fun h => ?_⟩
      obtain ⟨i, hi, he⟩ := m3 h
      have : i < g.hist.length := by
        rcases Nat.lt_or_ge i g.hist.length with h | h
        · exact h
        · simp [List.getElem?_eq_none h] at he
      exact ⟨i, hi, by rw [getElem?_append_old _ _ _ this]; exact he⟩
    · refine ⟨m1, fun h => ?_, m3⟩
      have ⟨hle, hlt⟩ := m2 h
      refine ⟨by simp; omega, fun hh => ?_⟩
      simp only at hh ⊢
      by_cases hc : m.g = g.cur
      · simp [hc]; have := m1 (by simp [h]); omega
      · simp [hc]; exact hlt (by omega)
    · exact ⟨m1, m2, m3⟩
  all_goals (simp only [Option.some.injEq, Prod.mk.injEq, reduceCtorEq] at hs; try (obtain ⟨rfl, rfl⟩ := hs; exact ⟨m1, m2, m3⟩))

end Hind
