/-! calibration: one bucket chain as a flat slot list; compute = update | delete | first empty slot | append bucket -/
namespace Chain
variable {K V : Type} [DecidableEq K]

abbrev Slots (K V : Type) := List (Option (K × V))

def lookup (k : K) : Slots K V → Option V
  | [] => none
  | none :: r => lookup k r
  | some (k', v) :: r => if k' = k then some v else lookup k r

def keys : Slots K V → List K
  | [] => []
  | none :: r => keys r
  | some (k, _) :: r => k :: keys r

def WF (s : Slots K V) : Prop := (keys s).Nodup

/-- replace the value in the slot holding `k` -/
def upd (k : K) (v : V) : Slots K V → Slots K V
  | [] => []
  | none :: r => none :: upd k v r
  | some (k', v') :: r => if k' = k then some (k, v) :: r else some (k', v') :: upd k v r

def del (k : K) : Slots K V → Slots K V
  | [] => []
  | none :: r => none :: del k r
  | some (k', v') :: r => if k' = k then none :: r else some (k', v') :: del k r

/-- fill the first empty slot; `none` if the chain is full -/
def fillFirst (k : K) (v : V) : Slots K V → Option (Slots K V)
  | [] => none
  | none :: r => some (some (k, v) :: r)
  | some e :: r => (fillFirst k v r).map (some e :: ·)

def insert (S : Nat) (k : K) (v : V) (s : Slots K V) : Slots K V :=
  match fillFirst k v s with
  | some s' => s'
  | none => s ++ (some (k, v) :: List.replicate (S - 1) none)   -- append a bucket

/-- the Go `doCompute` on one chain (write path) -/
def compute (S : Nat) (k : K) (g : Option V → V × Bool) (s : Slots K V) : Slots K V × Option V × Bool :=
  match lookup k s with
  | some old =>
    let (nv, d) := g (some old)
    if d then (del k s, some old, false) else (upd k nv s, some nv, true)
  | none =>
    let (nv, d) := g none
    if d then (s, none, false) else (insert S k nv s, some nv, true)

/-- spec on functions -/
def specCompute (k : K) (g : Option V → V × Bool) (m : K → Option V) : (K → Option V) × Option V × Bool :=
  match m k with
  | some old =>
    let (nv, d) := g (some old)
    if d then (fun x => if x = k then none else m x, some old, false)
    else (fun x => if x = k then some nv else m x, some nv, true)
  | none =>
    let (nv, d) := g none
    if d then (m, none, false) else (fun x => if x = k then some nv else m x, some nv, true)

theorem lookup_none_of_not_mem (k : K) (s : Slots K V) (h : k ∉ keys s) : lookup k s = none := by
  induction s with
  | nil => rfl
  | cons a r ih =>
    cases a with
    | none => simpa [lookup, keys] using ih (by simpa [keys] using h)
    | some e =>
      obtain ⟨k', v⟩ := e
      simp [keys] at h
      simp [lookup, Ne.symm h.1, ih h.2]

theorem lookup_upd (k x : K) (v : V) (s : Slots K V) (hk : (lookup k s).isSome) :
    lookup x (upd k v s) = if x = k then some v else lookup x s := by
  induction s with
  | nil => simp [lookup] at hk
  | cons a r ih =>
    cases a with
    | none => simpa [lookup, upd] using ih (by simpa [lookup] using hk)
    | some e =>
      obtain ⟨k', v'⟩ := e
      by_cases h : k' = k
      · subst h; by_cases hx : x = k'
        · simp [lookup, upd, hx]
        · simp [lookup, upd, hx, Ne.symm hx]
      · have := ih (by simpa [lookup, h] using hk)
        by_cases hx : x = k
        · subst hx; simp [lookup, upd, h, this]
        · simp [lookup, upd, h, this, hx]

theorem lookup_del (k x : K) (s : Slots K V) (hw : WF s) :
    lookup x (del k s) = if x = k then none else lookup x s := by
  induction s with
  | nil => simp [lookup, del]
  | cons a r ih =>
    cases a with
    | none => simpa [lookup, del] using ih (by simpa [WF, keys] using hw)
    | some e =>
      obtain ⟨k', v'⟩ := e
      simp [WF, keys] at hw
      by_cases h : k' = k
      · subst h
        by_cases hx : x = k'
        · subst hx; simp [lookup, del, lookup_none_of_not_mem _ _ hw.1]
        · simp [lookup, del, hx, Ne.symm hx]
      · have := ih hw.2
        by_cases hx : x = k
        · subst hx; simp [lookup, del, h, this]
        · simp [lookup, del, h, this, hx]

theorem lookup_fill (k x : K) (v : V) (s s' : Slots K V) (hk : lookup k s = none) (hf : fillFirst k v s = some s') :
    lookup x s' = if x = k then some v else lookup x s := by
  induction s generalizing s' with
  | nil => simp [fillFirst] at hf
  | cons a r ih =>
    cases a with
    | none =>
      simp [fillFirst] at hf; subst hf
      by_cases hx : x = k
      · simp [lookup, hx]
      · simp [lookup, hx, Ne.symm hx]
    | some e =>
      obtain ⟨k', v'⟩ := e
      simp only [fillFirst, Option.map_eq_some_iff] at hf
      obtain ⟨r', hr, rfl⟩ := hf
      have hne : k' ≠ k := by intro h; subst h; simp [lookup] at hk
      have := ih r' (by simpa [lookup, hne] using hk) hr
      by_cases hx : x = k
      · subst hx; simp [lookup, hne, this]
      · simp [lookup, this, hx]

theorem lookup_append (x : K) (s t : Slots K V) : lookup x (s ++ t) = (lookup x s).or (lookup x t) := by
  induction s with
  | nil => simp [lookup]
  | cons a r ih =>
    cases a with
    | none => simpa [lookup] using ih
    | some e => obtain ⟨k', v'⟩ := e; by_cases h : k' = x <;> simp [lookup, h, ih]

theorem lookup_replicate_none (x : K) (n : Nat) : lookup x (List.replicate n (none : Option (K × V))) = none := by
  induction n with
  | zero => rfl
  | succ n ih => simpa [List.replicate, lookup] using ih

theorem lookup_insert (S : Nat) (k x : K) (v : V) (s : Slots K V) (hk : lookup k s = none) :
    lookup x (insert S k v s) = if x = k then some v else lookup x s := by
  unfold insert
  split
  · rename_i s' hf; exact lookup_fill k x v s s' hk hf
  · rw [lookup_append]
    by_cases hx : x = k
    · subst hx; simp [hk, lookup]
    · simp [lookup, Ne.symm hx, hx, lookup_replicate_none]

/-- refinement of `compute` on one chain: abstraction = `fun x => lookup x s` -/
theorem compute_refines (S : Nat) (k : K) (g : Option V → V × Bool) (s : Slots K V) (hw : WF s) :
    let r := compute S k g s
    let r' := specCompute k g (fun x => lookup x s)
    (fun x => lookup x r.1) = r'.1 ∧ r.2 = r'.2 := by
  simp only [compute, specCompute]
  cases hl : lookup k s with
  | some old =>
    simp only
    cases hg : g (some old) with
    | mk nv d =>
      cases d
      · simp only [Bool.false_eq_true, if_false]
        exact ⟨funext fun x => lookup_upd k x nv s (by simp [hl]), trivial⟩
      · simp only [if_true]
        exact ⟨funext fun x => lookup_del k x s hw, trivial⟩
  | none =>
    simp only
    cases hg : g none with
    | mk nv d =>
      cases d
      · simp only [Bool.false_eq_true, if_false]
        exact ⟨funext fun x => lookup_insert S k x nv s hl, trivial⟩
      · simp

end Chain
