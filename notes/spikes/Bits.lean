import Std.Tactic.BVDecide
namespace Bits

def topHashMask : BitVec 64 := ((1#64 <<< 20) - 1) <<< 44
def entryMask (idx : Nat) : BitVec 64 := topHashMask >>> (20 * idx)

def topHashMatch (hash topHashes : BitVec 64) (idx : Nat) : Bool :=
  if topHashes &&& (1#64 <<< (idx + 1)) = 0#64 then false
  else
    let hash := hash &&& topHashMask
    let th := (topHashes &&& entryMask idx) <<< (20 * idx)
    hash = th

def storeTopHash (hash topHashes : BitVec 64) (idx : Nat) : BitVec 64 :=
  let th := topHashes &&& ~~~ (entryMask idx)
  let h := (hash &&& topHashMask) >>> (20 * idx)
  (th ||| h) ||| (1#64 <<< (idx + 1))

def eraseTopHash (topHashes : BitVec 64) (idx : Nat) : BitVec 64 :=
  topHashes &&& ~~~ (1#64 <<< (idx + 1))

def markZeroBytes (w : BitVec 64) : BitVec 64 :=
  (w - 0x0101010101010101#64) &&& (~~~ w) &&& 0x8080808080808080#64

def setByte (w : BitVec 64) (b : BitVec 8) (idx : Nat) : BitVec 64 :=
  (w &&& ~~~ (0xff#64 <<< (idx <<< 3))) ||| ((b.zeroExtend 64) <<< (idx <<< 3))

-- with bv_decide (adds a native axiom)
theorem match_store_0 (h w : BitVec 64) : topHashMatch h (storeTopHash h w 0) 0 = true := by
  simp only [topHashMatch, storeTopHash, entryMask, topHashMask]; bv_decide
theorem match_store_1 (h w : BitVec 64) : topHashMatch h (storeTopHash h w 1) 1 = true := by
  simp only [topHashMatch, storeTopHash, entryMask, topHashMask]; bv_decide
theorem lockbit_store_2 (h w : BitVec 64) : (storeTopHash h w 2) &&& 1#64 = w &&& 1#64 := by
  simp only [storeTopHash, entryMask, topHashMask]; bv_decide
theorem mzb_byte0 (w : BitVec 64) (h : w &&& 0xff#64 = 0#64) : markZeroBytes w &&& 0x80#64 = 0x80#64 := by
  simp only [markZeroBytes]; bv_decide
theorem mzb_byte3 (w : BitVec 64) (h : w &&& 0xff000000#64 = 0#64) : markZeroBytes w &&& 0x80000000#64 = 0x80000000#64 := by
  simp only [markZeroBytes]; bv_decide

end Bits
