namespace Bits3
-- arithmetic core of "markZeroBytes has no false negatives", byte j = 3, kernel-only
theorem core3 (w : Nat) (hw : w < 2^64) (hz : (w / 2^24) % 256 = 0) :
    ((w + 2^64 - 0x0101010101010101) % 2^64 / 2^31) % 2 = 1 := by
  omega
theorem core0 (w : Nat) (hw : w < 2^64) (hz : w % 256 = 0) :
    ((w + 2^64 - 0x0101010101010101) % 2^64 / 2^7) % 2 = 1 := by
  omega
theorem core4 (w : Nat) (hw : w < 2^64) (hz : (w / 2^32) % 256 = 0) :
    ((w + 2^64 - 0x0101010101010101) % 2^64 / 2^39) % 2 = 1 := by
  omega
end Bits3
