namespace OG

inductive Pc where
  | idle | lockSpin | chkFlag | crit | unlockOk | unlockRetry
  | wMuLock | wChk | wParked | wMuUnlock
  | rCas | rLockB | rCopy | rUnlockB | rPublish | rMuLock | rClear | rBcast | rMuUnlock
  | done
deriving DecidableEq, Repr

structure G where
  lock    : Option Nat
  flag    : Bool
  mu      : Option Nat
  table   : Nat
  resizer : Option Nat      -- ghost
  bcaster : Option Nat      -- ghost
  waiting : Nat → Bool       -- cond notify list
structure L where
  pc   : Pc
  seen : Nat

def tstep (t : Nat) (g : G) (l : L) (c : Bool) : Option (G × L) :=
  match l.pc with
  | .idle => some (if c then (g, { pc := .lockSpin, seen := g.table }) else (g, { l with pc := .rCas }))
  | .lockSpin => match g.lock with
      | none => some ({ g with lock := some t }, { l with pc := .chkFlag })
      | some _ => some (g, l)
  | .chkFlag => if g.flag then some (g, { l with pc := .unlockRetry })
                else if l.seen ≠ g.table then some (g, { l with pc := .unlockRetry }) else some (g, { l with pc := .crit })
  | .crit => some (g, { l with pc := .unlockOk })
  | .unlockOk => some ({ g with lock := none }, { l with pc := .done })
  | .unlockRetry => some ({ g with lock := none }, { l with pc := .wMuLock })
  | .wMuLock => match g.mu with
      | none => some ({ g with mu := some t }, { l with pc := .wChk })
      | some _ => none
  | .wChk => if g.flag then some ({ g with mu := none, waiting := fun x => if x = t then true else g.waiting x }, { l with pc := .wParked })
             else some (g, { l with pc := .wMuUnlock })
  | .wParked => if g.waiting t then none else (match g.mu with
                   | none => some ({ g with mu := some t }, { l with pc := .wChk })
                   | some _ => none)
  | .wMuUnlock => some ({ g with mu := none }, { l with pc := .idle })
  | .rCas => if g.flag then some (g, { l with pc := .wMuLock }) else some ({ g with flag := true, resizer := some t }, { l with pc := .rLockB })
  | .rLockB => match g.lock with
      | none => some ({ g with lock := some t }, { l with pc := .rCopy })
      | some _ => some (g, l)
  | .rCopy => some (g, { l with pc := .rUnlockB })
  | .rUnlockB => some ({ g with lock := none }, { l with pc := .rPublish })
  | .rPublish => some ({ g with table := g.table + 1 }, { l with pc := .rMuLock })
  | .rMuLock => match g.mu with
      | none => some ({ g with mu := some t }, { l with pc := .rClear })
      | some _ => none
  | .rClear => some ({ g with flag := false, resizer := none, bcaster := some t }, { l with pc := .rBcast })
  | .rBcast => some ({ g with waiting := fun _ => false, bcaster := none }, { l with pc := .rMuUnlock })
  | .rMuUnlock => some ({ g with mu := none }, { l with pc := .done })
  | .done => none

def holdsLock : Pc → Bool
  | .chkFlag | .crit | .unlockOk | .unlockRetry | .rCopy | .rUnlockB => true
  | _ => false
def holdsMu : Pc → Bool
  | .wChk | .wMuUnlock | .rClear | .rBcast | .rMuUnlock => true
  | _ => false
def isResizer : Pc → Bool
  | .rLockB | .rCopy | .rUnlockB | .rPublish | .rMuLock | .rClear => true
  | _ => false

def GI (g : G) : Prop := (g.flag = true ↔ g.resizer.isSome)
structure LI (u : Nat) (g : G) (l : L) : Prop where
  lock : holdsLock l.pc = true ↔ g.lock = some u
  mu   : holdsMu l.pc = true ↔ g.mu = some u
  rsz  : isResizer l.pc = true ↔ g.resizer = some u
  /-- no lost wake-up -/
  park : g.waiting u = true → l.pc = .wParked ∧ (g.flag = true ∨ g.bcaster.isSome)
  bc   : l.pc = .rBcast ↔ g.bcaster = some u

theorem self_ok (t : Nat) (g : G) (l : L) (c : Bool) (g' : G) (l' : L)
    (hg : GI g) (hl : LI t g l) (hs : tstep t g l c = some (g', l')) : GI g' ∧ LI t g' l' := by
  obtain ⟨h1, h2, h3, h4, h5⟩ := hl
  unfold tstep at hs
  unfold GI at *
  split at hs <;> (try split at hs) <;> (try split at hs) <;> (try split at hs) <;>
    simp only [Option.some.injEq, reduceCtorEq, Prod.mk.injEq] at hs <;>
    obtain ⟨rfl, rfl⟩ := hs <;>
    (refine ⟨?_, ⟨?_, ?_, ?_, ?_, ?_⟩⟩) <;> simp_all [holdsLock, holdsMu, isResizer] <;> grind


theorem other_ok (t u : Nat) (g : G) (l m : L) (c : Bool) (g' : G) (l' : L) (hne : u ≠ t)
    (hg : GI g) (hl : LI t g l) (hm : LI u g m) (hs : tstep t g l c = some (g', l')) : LI u g' m := by
  obtain ⟨h1, h2, h3, h4, h5⟩ := hl
  obtain ⟨m1, m2, m3, m4, m5⟩ := hm
  unfold tstep at hs
  unfold GI at *
  split at hs <;> (try split at hs) <;> (try split at hs) <;> (try split at hs) <;>
    simp only [Option.some.injEq, reduceCtorEq, Prod.mk.injEq] at hs <;>
    obtain ⟨rfl, rfl⟩ := hs <;>
    (refine ⟨?_, ?_, ?_, ?_, ?_⟩) <;> simp_all [holdsLock, holdsMu, isResizer] <;> grind

/-- Global state and the generic lifting. -/
structure St where
  g : G
  l : Nat → L

def Inv (s : St) : Prop := GI s.g ∧ ∀ u, LI u s.g (s.l u)

def step (s : St) (t : Nat) (c : Bool) : Option St :=
  match tstep t s.g (s.l t) c with
  | none => none
  | some (g', l') => some { g := g', l := fun x => if x = t then l' else s.l x }

theorem inv_step (s s' : St) (t : Nat) (c : Bool) (h : Inv s) (hs : step s t c = some s') : Inv s' := by
  unfold step at hs
  split at hs
  · simp at hs
  · rename_i g' l' heq
    simp only [Option.some.injEq] at hs; subst hs
    have := self_ok t s.g (s.l t) c g' l' h.1 (h.2 t) heq
    refine ⟨this.1, fun u => ?_⟩
    by_cases hu : u = t
    · subst hu; simpa using this.2
    · simpa [hu] using other_ok t u s.g (s.l t) (s.l u) c g' l' hu h.1 (h.2 t) (h.2 u) heq

/-- mutual exclusion as a corollary -/
theorem mutex (s : St) (h : Inv s) (t u : Nat) (ht : holdsLock (s.l t).pc = true) (hu : holdsLock (s.l u).pc = true) : t = u := by
  have a := (h.2 t).lock.mp ht
  have b := (h.2 u).lock.mp hu
  rw [a] at b; exact Option.some.inj b

/-- no lost wake-up: a parked thread that is still on the notify list sees flag set or a broadcast is pending -/
theorem no_lost_wakeup (s : St) (h : Inv s) (u : Nat) (hw : s.g.waiting u = true) :
    s.g.flag = true ∨ ∃ b, (s.l b).pc = .rBcast := by
  rcases (h.2 u).park hw with ⟨_, hf | hb⟩
  · exact Or.inl hf
  · right
    cases hbo : s.g.bcaster with
    | none => simp [hbo] at hb
    | some b => exact ⟨b, ((h.2 b).bc).mpr hbo⟩

end OG
