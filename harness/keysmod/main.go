// keysharness: key-type catalogue for property C10 (external module with go 1.23 so that interface-typed
// keys can be instantiated).  For every comparable kind: equal keys built through different memory must
// address one entry, distinct keys must never alias (also under hashers forced to collide), an entry must
// stay reachable after the memory its key points to changes, and no valid key may panic.  Each type is run
// differentially against a builtin map.
package main

import (
	"fmt"
	"os"
	"strings"
	"time"
	"unsafe"

	"github.com/fufuok/cache"
)

var failures []string

func fail(format string, a ...interface{}) {
	failures = append(failures, fmt.Sprintf(format, a...))
}

type rng struct{ s uint64 }

func (r *rng) next() uint64 {
	r.s += 0x9E3779B97F4A7C15
	z := r.s
	z = (z ^ (z >> 30)) * 0xBF58476D1CE4E5B9
	z = (z ^ (z >> 27)) * 0x94D049BB133111EB
	return z ^ (z >> 31)
}
func (r *rng) intn(n int) int { return int(r.next() % uint64(n)) }

type spec[K comparable] struct {
	name   string
	gen    func(i int) K  // i-th key, pairwise distinct (!=) for distinct i
	alias  func(k K) K    // a key == k built through different memory (may be the identity)
	mutate func()         // changes memory the keys merely point to (nil if not applicable)
}

var stats = map[string]int{}

// runType exercises MapOf[K,int] (and CacheOf[K,int]) with the given hasher variants against map[K]int.
func runType[K comparable](sp spec[K], seed uint64, nops int) {
	defer func() {
		if e := recover(); e != nil {
			fail("PANIC type=%s: %v", sp.name, e)
		}
	}()
	dh := cache.VerifDefaultHasher[K]()
	hashers := map[string]func() cache.MapOf[K, int]{
		"default":  func() cache.MapOf[K, int] { return cache.NewMapOf[K, int]() },
		"constant": func() cache.MapOf[K, int] { return cache.VerifNewMapOfWithHasher[K, int](func(K, uint64) uint64 { return 12345 }) },
		"h1-only":  func() cache.MapOf[K, int] { return cache.VerifNewMapOfWithHasher[K, int](func(k K, s uint64) uint64 { return dh(k, s) &^ 0x7f }) },
		"h2-only":  func() cache.MapOf[K, int] { return cache.VerifNewMapOfWithHasher[K, int](func(k K, s uint64) uint64 { return dh(k, s) & 0x7f }) },
	}
	for hname, mk := range hashers {
		r := &rng{s: seed}
		m := mk()
		ref := map[K]int{}
		nk := 40
		if hname != "default" {
			nk = 14
		}
		key := func() K {
			k := sp.gen(r.intn(nk))
			if r.intn(2) == 0 {
				k = sp.alias(k)
			}
			return k
		}
		for i := 0; i < nops; i++ {
			k := key()
			v := i + 1
			switch r.intn(8) {
			case 0, 1:
				m.Store(k, v)
				ref[k] = v
			case 2:
				got, ok := m.Load(k)
				want, wok := ref[k]
				if ok != wok || (ok && got != want) {
					fail("type=%s hasher=%s Load(%v): got (%v,%v), builtin map has (%v,%v)", sp.name, hname, k, got, ok, want, wok)
					return
				}
			case 3:
				got, loaded := m.LoadOrStore(k, v)
				want, wok := ref[k]
				if !wok {
					ref[k] = v
					want = v
				}
				if loaded != wok || got != want {
					fail("type=%s hasher=%s LoadOrStore(%v): got (%v,%v), want (%v,%v)", sp.name, hname, k, got, loaded, want, wok)
					return
				}
			case 4:
				got, loaded := m.LoadAndDelete(k)
				want, wok := ref[k]
				delete(ref, k)
				if loaded != wok || (wok && got != want) {
					fail("type=%s hasher=%s LoadAndDelete(%v): got (%v,%v), want (%v,%v)", sp.name, hname, k, got, loaded, want, wok)
					return
				}
			case 5:
				m.Delete(k)
				delete(ref, k)
			case 6:
				got, ok := m.Compute(k, func(old int, loaded bool) (int, bool) {
					if w, wok := ref[k]; wok != loaded || (wok && w != old) {
						fail("type=%s hasher=%s Compute(%v) saw (%v,%v), builtin map has (%v,%v)", sp.name, hname, k, old, loaded, w, wok)
					}
					return v, false
				})
				ref[k] = v
				if !ok || got != v {
					fail("type=%s hasher=%s Compute(%v) returned (%v,%v)", sp.name, hname, k, got, ok)
					return
				}
			case 7:
				if sp.mutate != nil {
					sp.mutate()
				}
			}
			stats[sp.name+"/"+hname]++
		}
		if m.Size() != len(ref) {
			fail("type=%s hasher=%s Size()=%d, builtin map has %d", sp.name, hname, m.Size(), len(ref))
		}
		n := 0
		m.Range(func(k K, v int) bool {
			n++
			if w, ok := ref[k]; !ok || w != v {
				fail("type=%s hasher=%s Range visited (%v,%v), builtin map has (%v,%v)", sp.name, hname, k, v, w, ok)
			}
			return true
		})
		if n != len(ref) {
			fail("type=%s hasher=%s Range visited %d pairs, builtin map has %d", sp.name, hname, n, len(ref))
		}
		// every key of the reference must be found through a freshly built equal key
		for k, w := range ref {
			if got, ok := m.Load(sp.alias(k)); !ok || got != w {
				fail("type=%s hasher=%s final Load(alias %v) = (%v,%v), want (%v,true)", sp.name, hname, k, got, ok, w)
				break
			}
		}
	}
	// the cache layer over the same key type
	c := cache.NewOf[K, int](cache.WithCleanupIntervalOf[K, int](0))
	ref := map[K]int{}
	r := &rng{s: seed + 7}
	for i := 0; i < nops/2; i++ {
		k := sp.gen(r.intn(30))
		if r.intn(2) == 0 {
			k = sp.alias(k)
		}
		switch r.intn(5) {
		case 0, 1:
			c.Set(k, i, time.Hour)
			ref[k] = i
		case 2:
			got, ok := c.Get(k)
			w, wok := ref[k]
			if ok != wok || (ok && got != w) {
				fail("type=%s CacheOf.Get(%v): got (%v,%v), want (%v,%v)", sp.name, k, got, ok, w, wok)
				return
			}
		case 3:
			c.Delete(k)
			delete(ref, k)
		case 4:
			if sp.mutate != nil {
				sp.mutate()
			}
		}
	}
	if c.Count() != len(ref) {
		fail("type=%s CacheOf.Count()=%d, want %d", sp.name, c.Count(), len(ref))
	}
}

// ---- the catalogue ---------------------------------------------------------------------------------------------

type padded struct {
	a int8
	b int64
	c int16
}
// blank: no padding, but a blank field: Go's == (and a builtin map) ignores `_`, whatever bytes it holds
type blank struct {
	a uint32
	_ uint32
	b uint64
}

// blankArr: an array of such structs
type blankArr [2]blank

type withString struct {
	s string
	n int
}
type nested struct {
	p padded
	w withString
	f float64
}
type withIface struct {
	x interface{}
	n int
}
type stringer struct{ n int }

func (s stringer) String() string { return fmt.Sprint(s.n) }

func freshString(s string) string { return strings.Clone(s + "") }

var ints [64]int
var cells [64]*int

func main() {
	seed := uint64(1)
	nops := 3000
	for _, a := range os.Args[1:] {
		if strings.HasPrefix(a, "seed=") {
			fmt.Sscan(a[5:], &seed)
		}
		if strings.HasPrefix(a, "nops=") {
			fmt.Sscan(a[5:], &nops)
		}
	}
	for i := range cells {
		cells[i] = &ints[i]
	}
	mutateInts := func() {
		for i := range ints {
			ints[i]++
		}
	}
	runType(spec[string]{"string", func(i int) string {
		if i == 0 {
			return ""
		}
		return fmt.Sprint("key-", i)
	}, freshString, nil}, seed, nops)
	// string keys that share memory: prefixes of one backing string start at the same address and differ only in
	// length; suffixes end at the same address.  A comparison short-cut on the data pointer would merge them
	backing := "a/rather/long/path/with/many/segments/that/keeps/going/and/going/until/it/is/long/enough"
	runType(spec[string]{"string (prefix slices of one string)", func(i int) string { return backing[:i+1] }, freshString, nil}, seed, nops)
	runType(spec[string]{"string (suffix slices of one string)", func(i int) string { return backing[len(backing)-1-i:] }, freshString, nil}, seed, nops)
	runType(spec[int]{"int", func(i int) int { return i*7919 - 3 }, func(k int) int { return k }, nil}, seed, nops)
	runType(spec[int8]{"int8", func(i int) int8 { return int8(i - 20) }, func(k int8) int8 { return k }, nil}, seed, nops)
	runType(spec[int16]{"int16", func(i int) int16 { return int16(i*300 - 7) }, func(k int16) int16 { return k }, nil}, seed, nops)
	runType(spec[int32]{"int32", func(i int) int32 { return int32(i*100003 - 9) }, func(k int32) int32 { return k }, nil}, seed, nops)
	runType(spec[int64]{"int64", func(i int) int64 { return int64(i)<<33 - 1 }, func(k int64) int64 { return k }, nil}, seed, nops)
	runType(spec[uint8]{"uint8", func(i int) uint8 { return uint8(i) }, func(k uint8) uint8 { return k }, nil}, seed, nops)
	runType(spec[uint64]{"uint64", func(i int) uint64 { return uint64(i) * 0x9E3779B97F4A7C15 }, func(k uint64) uint64 { return k }, nil}, seed, nops)
	runType(spec[uintptr]{"uintptr", func(i int) uintptr { return uintptr(i * 8) }, func(k uintptr) uintptr { return k }, nil}, seed, nops)
	runType(spec[bool]{"bool", func(i int) bool { return i%2 == 0 }, func(k bool) bool { return k }, nil}, seed, nops/10)
	negZero := func() float64 { z := 0.0; return -z }
	runType(spec[float64]{"float64", func(i int) float64 { return float64(i) * 0.5 }, func(k float64) float64 {
		if k == 0 {
			return negZero() // +0 and -0 are one key
		}
		return k
	}, nil}, seed, nops)
	runType(spec[float32]{"float32", func(i int) float32 { return float32(i) * 0.25 }, func(k float32) float32 {
		if k == 0 {
			return float32(negZero())
		}
		return k
	}, nil}, seed, nops)
	runType(spec[complex128]{"complex128", func(i int) complex128 { return complex(float64(i), float64(-i)) }, func(k complex128) complex128 {
		if k == 0 {
			return complex(negZero(), negZero())
		}
		return k
	}, nil}, seed, nops)
	runType(spec[*int]{"*int", func(i int) *int { return cells[i] }, func(k *int) *int { return k }, mutateInts}, seed, nops)
	runType(spec[unsafe.Pointer]{"unsafe.Pointer", func(i int) unsafe.Pointer { return unsafe.Pointer(cells[i]) }, func(k unsafe.Pointer) unsafe.Pointer { return k }, mutateInts}, seed, nops)
	chans := make([]chan int, 64)
	for i := range chans {
		chans[i] = make(chan int, 1)
	}
	runType(spec[chan int]{"chan int", func(i int) chan int { return chans[i] }, func(k chan int) chan int { return k }, nil}, seed, nops)
	runType(spec[[3]int]{"[3]int", func(i int) [3]int { return [3]int{i, -i, i * i} }, func(k [3]int) [3]int { return k }, nil}, seed, nops)
	runType(spec[[2]string]{"[2]string", func(i int) [2]string { return [2]string{fmt.Sprint(i), "x"} }, func(k [2]string) [2]string {
		return [2]string{freshString(k[0]), freshString(k[1])}
	}, nil}, seed, nops)
	runType(spec[[1]*int]{"[1]*int", func(i int) [1]*int { return [1]*int{cells[i]} }, func(k [1]*int) [1]*int { return k }, mutateInts}, seed, nops)
	runType(spec[padded]{"struct{int8;int64;int16} (padding)", func(i int) padded { return padded{int8(i), int64(i) * 3, int16(-i)} }, func(k padded) padded {
		// copy through memory with dirty padding bytes
		var buf [unsafe.Sizeof(padded{})]byte
		for j := range buf {
			buf[j] = 0xAA
		}
		p := (*padded)(unsafe.Pointer(&buf[0]))
		p.a, p.b, p.c = k.a, k.b, k.c
		return *p
	}, nil}, seed, nops)
	mkBlank := func(a uint32, b uint64, junk uint32) blank {
		var buf [unsafe.Sizeof(blank{})]byte
		*(*uint32)(unsafe.Pointer(&buf[0])) = a
		*(*uint32)(unsafe.Pointer(&buf[4])) = junk // the bytes of the blank field
		*(*uint64)(unsafe.Pointer(&buf[8])) = b
		return *(*blank)(unsafe.Pointer(&buf[0]))
	}
	runType(spec[blank]{"struct{uint32;_ uint32;uint64} (blank field)", func(i int) blank { return mkBlank(uint32(i), uint64(i)*7, 0) },
		func(k blank) blank { return mkBlank(k.a, k.b, 0xDEADBEEF) }, nil}, seed, nops)
	runType(spec[blankArr]{"[2]struct{uint32;_ uint32;uint64}", func(i int) blankArr { return blankArr{mkBlank(uint32(i), 1, 0), mkBlank(2, uint64(i), 0)} },
		func(k blankArr) blankArr { return blankArr{mkBlank(k[0].a, k[0].b, 0x11111111), mkBlank(k[1].a, k[1].b, 0x22222222)} }, nil}, seed, nops)
	runType(spec[withString]{"struct{string;int}", func(i int) withString { return withString{fmt.Sprint("s", i), i} }, func(k withString) withString {
		return withString{freshString(k.s), k.n}
	}, nil}, seed, nops)
	runType(spec[nested]{"nested struct", func(i int) nested {
		return nested{padded{int8(i), int64(i), 1}, withString{fmt.Sprint(i), i}, float64(i)}
	}, func(k nested) nested {
		k.w.s = freshString(k.w.s)
		return k
	}, nil}, seed, nops)
	runType(spec[struct{ p *int }]{"struct{*int}", func(i int) struct{ p *int } { return struct{ p *int }{cells[i]} }, func(k struct{ p *int }) struct{ p *int } { return k }, mutateInts}, seed, nops)
	runType(spec[withIface]{"struct{interface{};int}", func(i int) withIface {
		if i%3 == 0 {
			return withIface{fmt.Sprint("v", i), i}
		}
		if i%3 == 1 {
			return withIface{i, i}
		}
		return withIface{nil, i}
	}, func(k withIface) withIface {
		if s, ok := k.x.(string); ok {
			k.x = freshString(s)
		}
		return k
	}, nil}, seed, nops)
	// interface-typed keys holding every comparable dynamic kind, and nil
	anyKey := func(i int) interface{} {
		switch i % 8 {
		case 0:
			return i
		case 1:
			return fmt.Sprint("str", i)
		case 2:
			return cells[i%64]
		case 3:
			return padded{int8(i), int64(i), 2}
		case 4:
			return float64(i)
		case 5:
			return [2]int{i, i}
		case 6:
			if i == 6 {
				return nil
			}
			return uint8(i)
		default:
			return withString{fmt.Sprint(i), i}
		}
	}
	anyAlias := func(k interface{}) interface{} {
		switch x := k.(type) {
		case string:
			return freshString(x)
		case withString:
			return withString{freshString(x.s), x.n}
		}
		return k
	}
	runType(spec[interface{}]{"interface{} (any)", anyKey, anyAlias, mutateInts}, seed, nops)
	// interface-typed keys holding POINTER-SHAPED composites: Go stores a struct with one pointer-shaped field, a
	// one-element array of such, and nestings of these directly in the interface's data word, exactly like a plain
	// pointer - a hasher that decides "is the data word the value?" by reflect.Kind gets these wrong (hashes the
	// pointee, which changes; dereferences nil)
	type ptrBox struct{ p *int }
	type chanBox struct{ ch chan int }
	type nestBox struct{ a [1]ptrBox }
	bchans := make([]chan int, 64)
	for i := range bchans {
		bchans[i] = make(chan int, 4)
	}
	shapedKey := func(i int) interface{} {
		switch i % 5 {
		case 0:
			if i == 0 {
				return ptrBox{nil}
			}
			return ptrBox{cells[i%64]}
		case 1:
			if i == 1 {
				return [1]*int{nil}
			}
			return [1]*int{cells[i%64]}
		case 2:
			return nestBox{[1]ptrBox{{cells[i%64]}}}
		case 3:
			return chanBox{bchans[i%64]}
		default:
			return cells[i%64]
		}
	}
	mutateShaped := func() {
		mutateInts()
		for _, c := range bchans { // the channel's header memory changes, its identity does not
			select {
			case c <- 1:
			default:
				<-c
			}
		}
	}
	runType(spec[interface{}]{"interface{} holding pointer-shaped structs / arrays", shapedKey, func(k interface{}) interface{} { return k }, mutateShaped}, seed, nops)
	runType(spec[fmt.Stringer]{"fmt.Stringer (non-empty interface)", func(i int) fmt.Stringer {
		if i == 3 {
			return nil
		}
		return stringer{i}
	}, func(k fmt.Stringer) fmt.Stringer { return k }, nil}, seed, nops)

	for _, f := range failures {
		fmt.Println("BAD", f)
	}
	n := 0
	for _, c := range stats {
		n += c
	}
	fmt.Printf("keys-catalogue: %d type/hasher runs, %d operations, %d failures\n", len(stats), n, len(failures))
	if len(failures) > 0 {
		os.Exit(3)
	}
}
