module keysharness

go 1.23

require github.com/fufuok/cache v0.0.0

replace github.com/fufuok/cache => /repo
