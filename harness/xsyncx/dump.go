package xsync

// White-box accessors for the /verif harness (overlaid into package xsync at build time; never committed).

import (
	"fmt"
	"strings"
	"sync/atomic"
	"unsafe"
)

// VerifMapDump returns: table length, counter sum, growths, shrinks, the canonical layout of the chain of
// bucket `bidx` (-1: none) and a digest of the whole layout (keys per slot, presence bits and top hashes
// of present slots).
func (m *Map) VerifDump(key string, want bool) (tlen int, size int64, g, s int64, chain string, digest uint64) {
	table := (*mapTable)(atomic.LoadPointer(&m.table))
	tlen = len(table.buckets)
	size = table.sumSize()
	g, s = atomic.LoadInt64(&m.totalGrowths), atomic.LoadInt64(&m.totalShrinks)
	target := -1
	if want {
		target = int(uint64(tlen-1) & hashString(key, table.seed))
	}
	digest = 1469598103934665603
	mix := func(str string) {
		for i := 0; i < len(str); i++ {
			digest ^= uint64(str[i])
			digest *= 1099511628211
		}
	}
	for i := range table.buckets {
		var sb strings.Builder
		b := &table.buckets[i]
		for {
			sb.WriteString("[")
			w := b.topHashMutex
			for j := 0; j < entriesPerMapBucket; j++ {
				if j > 0 {
					sb.WriteString(" ")
				}
				present := w&(1<<(j+1)) != 0
				if b.keys[j] == nil {
					if present {
						sb.WriteString("BAD-presence-bit-on-empty-slot")
					} else {
						sb.WriteString("_")
					}
				} else {
					k := derefKey(b.keys[j])
					th := (w & topHashEntryMasks[j]) << (20 * j) >> 44
					if !present {
						sb.WriteString("BAD-no-presence-bit:")
					}
					sb.WriteString(fmt.Sprintf("%s=%v#%x", k, derefValue(b.values[j]), th))
				}
			}
			sb.WriteString("]")
			if b.next == nil {
				break
			}
			b = (*bucketPadded)(b.next)
		}
		str := sb.String()
		mix(str)
		mix(";")
		if i == target {
			chain = str
		}
	}
	return
}

func (m *MapOf[K, V]) VerifDump(key K, want bool) (tlen int, size int64, g, s int64, chain string, digest uint64) {
	table := (*mapOfTable[K, V])(atomic.LoadPointer(&m.table))
	tlen = len(table.buckets)
	size = table.sumSize()
	g, s = atomic.LoadInt64(&m.totalGrowths), atomic.LoadInt64(&m.totalShrinks)
	target := -1
	if want {
		target = int(uint64(tlen-1) & h1(m.hasher(key, table.seed)))
	}
	digest = 1469598103934665603
	mix := func(str string) {
		for i := 0; i < len(str); i++ {
			digest ^= uint64(str[i])
			digest *= 1099511628211
		}
	}
	for i := range table.buckets {
		var sb strings.Builder
		b := &table.buckets[i]
		for {
			sb.WriteString("[")
			for j := 0; j < entriesPerMapOfBucket; j++ {
				if j > 0 {
					sb.WriteString(" ")
				}
				mb := uint8(b.meta >> (8 * j))
				if b.entries[j] == nil {
					if mb != emptyMetaSlot {
						sb.WriteString("BAD-meta-on-empty-slot")
					} else {
						sb.WriteString("_")
					}
				} else {
					e := (*entryOf[K, V])(b.entries[j])
					sb.WriteString(fmt.Sprintf("%v=%v#%x", e.key, e.value, mb))
				}
			}
			if b.meta>>40 != defaultMeta>>40 {
				sb.WriteString(" BAD-high-meta-bytes")
			}
			sb.WriteString("]")
			if b.next == nil {
				break
			}
			b = (*bucketOfPadded)(b.next)
		}
		str := sb.String()
		mix(str)
		mix(";")
		if i == target {
			chain = str
		}
	}
	return
}

// VerifShrinkTo replaces the (empty) initial table by one with n root buckets and makes n the minimal
// table length, so that grows and shrinks happen within a handful of operations.
func (m *Map) VerifShrinkTo(n int) {
	t := newMapTable(n)
	m.minTableLen = n
	atomic.StorePointer(&m.table, unsafe.Pointer(t))
}

func (m *MapOf[K, V]) VerifShrinkTo(n int) {
	t := newMapOfTable[K, V](n)
	m.minTableLen = n
	atomic.StorePointer(&m.table, unsafe.Pointer(t))
}

// VerifResizing reports the resize-in-progress flag.
func (m *Map) VerifResizing() bool        { return atomic.LoadInt64(&m.resizing) == 1 }
func (m *MapOf[K, V]) VerifResizing() bool { return atomic.LoadInt64(&m.resizing) == 1 }

// VerifDefaultHasher exposes defaultHasher.
func VerifDefaultHasher[K comparable]() func(K, uint64) uint64 { return defaultHasher[K]() }

// VerifAddrs returns the addresses of the control words (for trace classification).
func (m *Map) VerifAddrs() (table, resizing, mu unsafe.Pointer) {
	return unsafe.Pointer(&m.table), unsafe.Pointer(&m.resizing), unsafe.Pointer(&m.resizeMu)
}
func (m *MapOf[K, V]) VerifAddrs() (table, resizing, mu unsafe.Pointer) {
	return unsafe.Pointer(&m.table), unsafe.Pointer(&m.resizing), unsafe.Pointer(&m.resizeMu)
}

// VerifGrowthAddrs returns the addresses of the statistics counters (dropped from traces).
func (m *Map) VerifGrowthAddrs() (g, s unsafe.Pointer) {
	return unsafe.Pointer(&m.totalGrowths), unsafe.Pointer(&m.totalShrinks)
}
func (m *MapOf[K, V]) VerifGrowthAddrs() (g, s unsafe.Pointer) {
	return unsafe.Pointer(&m.totalGrowths), unsafe.Pointer(&m.totalShrinks)
}
