package main

import (
	"bufio"
	"fmt"
	"os"
	"sort"
	"strings"
	"unsafe"

	"github.com/fufuok/cache/internal/vshim"
	"github.com/fufuok/cache/internal/xsync"
)

// ---- Map / MapOf[string, any] behind one interface ----------------------------------------------------

type mapAPI interface {
	Load(k string) (interface{}, bool)
	Store(k string, v interface{})
	LoadOrStore(k string, v interface{}) (interface{}, bool)
	LoadAndStore(k string, v interface{}) (interface{}, bool)
	LoadOrCompute(k string, f func() interface{}) (interface{}, bool)
	Compute(k string, f func(interface{}, bool) (interface{}, bool)) (interface{}, bool)
	LoadAndDelete(k string) (interface{}, bool)
	Delete(k string)
	Range(f func(k string, v interface{}) bool)
	Clear()
	Size() int
	VerifDump(key string, want bool) (int, int64, int64, int64, string, uint64)
	VerifAddrs() (table, resizing, mu unsafe.Pointer)
	VerifGrowthAddrs() (g, s unsafe.Pointer)
}

func newMapInst(variant string, hint int, growOnly bool, whitebox bool) mapAPI {
	var opts []func(*xsync.MapConfig)
	if hint != -999999 {
		opts = append(opts, xsync.WithPresize(hint))
	}
	if growOnly {
		opts = append(opts, xsync.WithGrowOnly())
	}
	if variant == "map" {
		return xsync.NewMap(opts...)
	}
	if whitebox {
		return xsync.NewMapOfWithHasher[string, interface{}](vshim.HashString, opts...)
	}
	return xsync.NewMapOf[string, interface{}](opts...)
}

// execMap runs one protocol line; whitebox adds the layout observation.
func execMap(m mapAPI, line string, whitebox bool) string {
	t := strings.Fields(line)
	out := "-"
	calls := 0
	key := ""
	vb := func(v interface{}, ok bool) string { return fmt.Sprintf("v=%s ok=%v", val(v), ok) }
	switch t[0] {
	case "load":
		key = t[1]
		out = vb(m.Load(t[1]))
	case "store":
		key = t[1]
		m.Store(t[1], parseVal(t[2]))
	case "loadorstore":
		key = t[1]
		out = vb(m.LoadOrStore(t[1], parseVal(t[2])))
	case "loadandstore":
		key = t[1]
		out = vb(m.LoadAndStore(t[1], parseVal(t[2])))
	case "loadorcompute":
		key = t[1]
		v := parseVal(t[2])
		out = vb(m.LoadOrCompute(t[1], func() interface{} { calls++; return v }))
		out += fmt.Sprintf(" fn=%d", calls)
	case "compute":
		key = t[1]
		sv, sd := parseAct(t[2])
		nv, nd := parseAct(t[3])
		bad := ""
		out = vb(m.Compute(t[1], func(old interface{}, loaded bool) (interface{}, bool) {
			calls++
			if loaded {
				return sv, sd
			}
			if old != nil {
				bad = " BAD-nonzero-old"
			}
			return nv, nd
		}))
		out += fmt.Sprintf(" fn=%d%s", calls, bad)
	case "loadanddelete":
		key = t[1]
		out = vb(m.LoadAndDelete(t[1]))
	case "delete":
		key = t[1]
		m.Delete(t[1])
	case "range":
		var order []string
		seen := map[string]interface{}{}
		dup, stopped, after := false, false, false
		m.Range(func(k string, v interface{}) bool {
			if stopped {
				after = true
			}
			if _, ok := seen[k]; ok {
				dup = true
			}
			seen[k] = v
			order = append(order, k+":"+val(v))
			if k == t[1] {
				stopped = true
				return false
			}
			return true
		})
		switch {
		case dup:
			out = "BAD-duplicate-visit"
		case after:
			out = "BAD-visit-after-false"
		case whitebox:
			out = fmt.Sprintf("n=%d [%s]", len(order), strings.Join(order, " "))
		case stopped:
			out = "stopped " + t[1] + ":" + val(seen[t[1]])
		default:
			out = fmt.Sprintf("n=%d %s", len(seen), sortedPairs(seen))
		}
	case "clear":
		m.Clear()
	case "size":
		out = fmt.Sprintf("n=%d", m.Size())
	default:
		panic("unknown map op " + t[0])
	}
	if whitebox {
		tlen, size, g, s, chain, dig := m.VerifDump(key, key != "")
		out += fmt.Sprintf(" || len=%d size=%d g=%d s=%d chain=%s dig=%x", tlen, size, g, s, chain, dig)
	}
	return out
}

type mapGen struct {
	r     *rng
	nextV int
	pool  int
	live  []string // keys believed present (approximate; only steers the generator)
	stats map[string]int
}

func (g *mapGen) key() string {
	if len(g.live) > 0 && g.r.chance(1, 2) {
		return g.live[g.r.intn(len(g.live))]
	}
	return fmt.Sprintf("k%d", g.r.intn(g.pool))
}
func (g *mapGen) v() string {
	if g.r.chance(1, 40) {
		return "nil"
	}
	g.nextV++
	return fmt.Sprint(g.nextV)
}
func (g *mapGen) act() string {
	if g.r.chance(1, 3) {
		return "d:" + g.v()
	}
	return "s:" + g.v()
}
func (g *mapGen) add(k string) {
	if len(g.live) < 4096 {
		g.live = append(g.live, k)
	}
}
func (g *mapGen) op() string {
	switch n := g.r.intn(100); {
	case n < 10:
		return "load " + g.key()
	case n < 35:
		k := g.key()
		g.add(k)
		return fmt.Sprintf("store %s %s", k, g.v())
	case n < 43:
		k := g.key()
		g.add(k)
		return fmt.Sprintf("loadorstore %s %s", k, g.v())
	case n < 50:
		k := g.key()
		g.add(k)
		return fmt.Sprintf("loadandstore %s %s", k, g.v())
	case n < 56:
		k := g.key()
		g.add(k)
		return fmt.Sprintf("loadorcompute %s %s", k, g.v())
	case n < 64:
		k := g.key()
		g.add(k)
		return fmt.Sprintf("compute %s %s %s", k, g.act(), g.act())
	case n < 68:
		// deleting Compute on a key that is (almost surely) absent: exercises every chain shape of the target bucket
		return fmt.Sprintf("compute absent%d %s d:%s", g.r.intn(100000), g.act(), g.v())
	case n < 80:
		return "loadanddelete " + g.key()
	case n < 90:
		return "delete " + g.key()
	case n < 93:
		return "range *"
	case n < 95:
		return "range " + g.key()
	case n < 96:
		g.live = nil
		return "clear"
	default:
		return "size"
	}
}

// seqMap: sequential correspondence for Map / MapOf.  wb=1: white-box layout (needs the layout overlay:
// deterministic seeds and string hash); wb=0: black box with the real runtime hash.
func seqMap(a map[string]string) {
	seed := argInt(a, "seed", 1)
	nseq := argInt(a, "nseq", 50)
	nops := argInt(a, "nops", 400)
	variant := argStr(a, "kind", "map")
	wb := argInt(a, "wb", 1) == 1
	outdir := argStr(a, "out", ".")
	replay := argStr(a, "replay", "")
	opsF, _ := os.Create(outdir + "/ops.txt")
	implF, _ := os.Create(outdir + "/impl.txt")
	ow, iw := bufio.NewWriter(opsF), bufio.NewWriter(implF)
	defer func() { ow.Flush(); iw.Flush(); opsF.Close(); implF.Close() }()
	var m mapAPI
	run := func(line string) {
		fmt.Fprintln(ow, line)
		t := strings.Fields(line)
		if t[0] == "newmap" {
			// newmap <map|mapof> <hint|none> <growonly 0/1> <seed> <hashmode> <wb 0/1>
			hint := -999999
			if t[2] != "none" {
				hint = int(atoi64(t[2]))
			}
			vshim.SetSeed(uint64(atoi64(t[4])))
			vshim.HashMode = int(atoi64(t[5]))
			wb = t[6] == "1"
			m = newMapInst(t[1], hint, t[3] == "1", wb)
			if wb {
				tlen, size, g, s, _, dig := m.VerifDump("", false)
				fmt.Fprintf(iw, "- || len=%d size=%d g=%d s=%d chain= dig=%x\n", tlen, size, g, s, dig)
			} else {
				fmt.Fprintln(iw, "-")
			}
			return
		}
		var res string
		func() {
			defer func() {
				if e := recover(); e != nil {
					res = fmt.Sprint("PANIC ", e)
				}
			}()
			res = execMap(m, line, wb)
		}()
		fmt.Fprintln(iw, res)
	}
	if replay != "" {
		f, err := os.Open(replay)
		if err != nil {
			panic(err)
		}
		sc := bufio.NewScanner(f)
		for sc.Scan() {
			if l := strings.TrimSpace(sc.Text()); l != "" && !strings.HasPrefix(l, "#") {
				run(l)
			}
		}
		return
	}
	r := newRng(uint64(seed))
	stats := map[string]int{}
	for s := 0; s < nseq; s++ {
		g := &mapGen{r: r, stats: stats}
		g.pool = []int{4, 12, 60, 300, 1500}[r.intn(5)]
		hints := []string{"none", "none", "-5", "0", "1", "96", "97", "161", "1000", "5000"}
		hint := hints[r.intn(len(hints))]
		if !wb && r.chance(1, 8) {
			// a table large enough for 16 / 32 counter stripes (tableLen >> 10 above minMapCounterLen)
			hint = []string{"40000", "70000"}[r.intn(2)]
		}
		growOnly := "0"
		if r.chance(1, 6) {
			growOnly = "1"
		}
		hm := 0
		if wb && r.chance(1, 4) {
			if variant == "map" {
				hm = []int{1, 4}[r.intn(2)]
			} else {
				hm = []int{1, 2, 3}[r.intn(3)]
			}
		}
		wbs := "0"
		if wb {
			wbs = "1"
		}
		run(fmt.Sprintf("newmap %s %s %s %d %d %s", variant, hint, growOnly, r.intn(1<<30)+1, hm, wbs))
		emit := func(l string) {
			stats[strings.Fields(l)[0]]++
			run(l)
		}
		if hm != 0 {
			// fully colliding keys make long chains: a chain-with-holes phase, then short mixed traffic
			n := 7 + r.intn(22)
			for i := 0; i < n; i++ {
				k := fmt.Sprintf("c%d", i)
				g.add(k)
				emit(fmt.Sprintf("store %s %s", k, g.v()))
			}
			// a chain of four or more buckets: empty one overflow bucket in the MIDDLE of the chain completely, look at
			// everything behind it, then empty the LAST bucket and look again (an emptied bucket must not cut off, or
			// be taken for the end of, the chain)
			per := 5
			if variant == "map" {
				per = 3
			}
			if nb := (n + per - 1) / per; nb >= 4 && r.chance(2, 3) {
				mid := 1 + r.intn(nb-2)
				for i := mid * per; i < (mid+1)*per && i < n; i++ {
					emit(fmt.Sprintf("%s c%d", []string{"delete", "loadanddelete"}[r.intn(2)], i))
				}
				for i := 0; i < n; i++ {
					emit(fmt.Sprintf("load c%d", i))
				}
				for i := (nb - 1) * per; i < n; i++ {
					emit(fmt.Sprintf("delete c%d", i))
				}
				for i := 0; i < n; i++ {
					emit(fmt.Sprintf("load c%d", i))
				}
				emit("range *")
				emit("size")
			}
			// empty (part of) the earliest buckets, then look at everything behind the holes
			nd := 1 + r.intn(6)
			for i := 0; i < nd && i < n; i++ {
				emit(fmt.Sprintf("delete c%d", i))
			}
			for i := 0; i < n; i++ {
				emit(fmt.Sprintf("load c%d", i))
			}
			emit("range *")
			for i := 0; i < 2; i++ {
				emit(fmt.Sprintf("loadorstore c%d %s", r.intn(n), g.v()))
			}
			for i := 0; i < 100 && i < nops; i++ {
				emit(g.op())
			}
			continue
		}
		switch plan := r.intn(3); plan {
		case 0: // mixed traffic on a small or medium pool
			for i := 0; i < nops; i++ {
				emit(g.op())
			}
		default: // grow/shrink cycles: bulk insert of distinct keys, mixed traffic, bulk delete of everything
			for cyc := 0; cyc < 1+r.intn(2); cyc++ {
				n := []int{80, 130, 200, 420}[r.intn(4)]
				base := r.intn(1000)
				var mine []string
				for i := 0; i < n; i++ {
					k := fmt.Sprintf("k%d", base+i)
					mine = append(mine, k)
					g.add(k)
					emit(fmt.Sprintf("store %s %s", k, g.v()))
				}
				for i := 0; i < nops/8; i++ {
					emit(g.op())
				}
				// delete everything ever stored, in random order, through the different deleting calls
				seenK := map[string]bool{}
				for _, k := range g.live {
					if !seenK[k] {
						seenK[k] = true
						mine = append(mine, k)
					}
				}
				sort.Strings(mine)
				for i := 1; i < len(mine); {
					if mine[i] == mine[i-1] {
						mine = append(mine[:i], mine[i+1:]...)
					} else {
						i++
					}
				}
				for len(mine) > 0 {
					j := r.intn(len(mine))
					k := mine[j]
					mine[j] = mine[len(mine)-1]
					mine = mine[:len(mine)-1]
					switch r.intn(3) {
					case 0:
						emit("delete " + k)
					case 1:
						emit("loadanddelete " + k)
					default:
						emit(fmt.Sprintf("compute %s d:%s d:%s", k, g.v(), g.v()))
					}
					if r.chance(1, 30) {
						emit("size")
					}
					if len(mine) > 0 && r.chance(1, 3) {
						// a survivor must still be found behind the holes the deletes leave in its chain
						emit("load " + mine[r.intn(len(mine))])
					}
				}
				g.live = nil
				for i := 0; i < 20; i++ {
					emit(g.op())
				}
			}
		}
	}
	sf, _ := os.Create(outdir + "/stats.txt")
	var ks []string
	for k := range stats {
		ks = append(ks, k)
	}
	sort.Strings(ks)
	for _, k := range ks {
		fmt.Fprintf(sf, "%s %d\n", k, stats[k])
	}
	sf.Close()
}

func init() { modes["seqmap"] = seqMap }
