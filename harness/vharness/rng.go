package main

import (
	"strconv"
)

// single PRNG state: every random choice of a run derives from VERIF_SEED through this generator.
type rng struct{ s uint64 }

func newRng(seed uint64) *rng { return &rng{s: seed*0x9E3779B97F4A7C15 + 0xD1B54A32D192ED03} }
func (r *rng) next() uint64 {
	r.s += 0x9E3779B97F4A7C15
	z := r.s
	z = (z ^ (z >> 30)) * 0xBF58476D1CE4E5B9
	z = (z ^ (z >> 27)) * 0x94D049BB133111EB
	return z ^ (z >> 31)
}
func (r *rng) intn(n int) int { return int(r.next() % uint64(n)) }
func (r *rng) chance(num, den int) bool { return r.intn(den) < num }

func argInt(a map[string]string, k string, def int) int {
	if v, ok := a[k]; ok {
		n, err := strconv.Atoi(v)
		if err != nil {
			panic("bad int argument " + k + "=" + v)
		}
		return n
	}
	return def
}
func argStr(a map[string]string, k, def string) string {
	if v, ok := a[k]; ok {
		return v
	}
	return def
}
