package main

import (
	"bufio"
	"fmt"
	"os"
	"sort"
	"strings"
	"time"

	"github.com/fufuok/cache"
	"github.com/fufuok/cache/internal/vshim"
)

// ---- the two twins behind one interface --------------------------------------------------------

type cacheAPI interface {
	Set(k string, v interface{}, d time.Duration)
	SetDefault(k string, v interface{})
	SetForever(k string, v interface{})
	Get(k string) (interface{}, bool)
	GetWithExpiration(k string) (interface{}, time.Time, bool)
	GetWithTTL(k string) (interface{}, time.Duration, bool)
	GetOrSet(k string, v interface{}, d time.Duration) (interface{}, bool)
	GetAndSet(k string, v interface{}, d time.Duration) (interface{}, bool)
	GetAndRefresh(k string, d time.Duration) (interface{}, bool)
	GetOrCompute(k string, f func() interface{}, d time.Duration) (interface{}, bool)
	Compute(k string, f func(interface{}, bool) (interface{}, bool), d time.Duration) (interface{}, bool)
	GetAndDelete(k string) (interface{}, bool)
	Delete(k string)
	DeleteExpired()
	Range(f func(k string, v interface{}) bool)
	Items() map[string]interface{}
	Clear()
	Count() int
	DefaultExpiration() time.Duration
	SetDefaultExpiration(d time.Duration)
	HasCallback() bool
	SetCallback(f func(k string, v interface{}))
}

type plain struct{ cache.Cache }

func (p plain) HasCallback() bool { return p.Cache.EvictedCallback() != nil }
func (p plain) SetCallback(f func(k string, v interface{})) {
	if f == nil {
		p.Cache.SetEvictedCallback(nil)
	} else {
		p.Cache.SetEvictedCallback(f)
	}
}

type generic struct {
	cache.CacheOf[string, interface{}]
}

func (g generic) HasCallback() bool { return g.CacheOf.EvictedCallback() != nil }
func (g generic) SetCallback(f func(k string, v interface{})) {
	if f == nil {
		g.CacheOf.SetEvictedCallback(nil)
	} else {
		g.CacheOf.SetEvictedCallback(f)
	}
}
func (g generic) GetOrCompute(k string, f func() interface{}, d time.Duration) (interface{}, bool) {
	return g.CacheOf.GetOrCompute(k, f, d)
}
func (g generic) Compute(k string, f func(interface{}, bool) (interface{}, bool), d time.Duration) (interface{}, bool) {
	return g.CacheOf.Compute(k, f, d)
}
func (g generic) Range(f func(k string, v interface{}) bool) { g.CacheOf.Range(f) }

// ---- one cache instance under test ------------------------------------------------------------

type inst struct {
	c      cacheAPI
	cbs    []string // callbacks fired during the current call
	curCb  int      // id of the callback in force (0 = none)
	onCb   func(k string, v interface{}) // trace hook: called at every callback invocation
	fnlog  []string
	depth  int // nesting depth of the re-entrant sweeper callback (id 8)
}

func (in *inst) mkcb(id int) func(k string, v interface{}) {
	if id == 0 {
		return nil
	}
	if id == 9 {
		// a callback that re-enters the container: on the evicted key, on a new key, and a whole-container call
		return func(k string, v interface{}) {
			in.cbs = append(in.cbs, fmt.Sprintf("%d:%s:%s", id, k, val(v)))
			in.c.Get(k)
			in.c.Set("re-"+k, v, cache.NoExpiration)
			in.c.Count()
		}
	}
	if id == 6 {
		// "refresh on eviction": the callback stores the evicted key again (a fresh value, no TTL)
		return func(k string, v interface{}) {
			vshim.Park("cb")
			in.cbs = append(in.cbs, fmt.Sprintf("%d:%s:%s", id, k, val(v)))
			in.c.Set(k, val(v)+".r", cache.NoExpiration)
		}
	}
	if id == 7 {
		// a callback that replaces itself: at its first invocation it installs callback 2 (used by the direct twin
		// comparison only: the models have no callbacks with effects)
		return func(k string, v interface{}) {
			in.cbs = append(in.cbs, fmt.Sprintf("%d:%s:%s", id, k, val(v)))
			if in.curCb == 7 {
				in.curCb = 2
				in.c.SetCallback(in.mkcb(2))
			}
		}
	}
	if id == 8 {
		// a callback that starts another cleanup pass from inside a pass (C06 lets the callback call back into
		// the cache): it plants two entries that expire at once, lets the clock pass them, and sweeps
		return func(k string, v interface{}) {
			vshim.Park("cb")
			in.cbs = append(in.cbs, fmt.Sprintf("%d:%s:%s", id, k, val(v)))
			if in.depth == 0 {
				in.depth++
				in.c.Set("ra-"+k, val(v)+".a", 1)
				in.c.Set("rb-"+k, val(v)+".b", 1)
				vshim.Advance(2)
				in.c.DeleteExpired()
				in.depth--
			}
		}
	}
	return func(k string, v interface{}) {
		vshim.Park("cb") // a scheduling point under the cooperative scheduler (no-op otherwise)
		if in.onCb != nil {
			in.onCb(k, v)
		}
		in.cbs = append(in.cbs, fmt.Sprintf("%d:%s:%s", id, k, val(v)))
	}
}

func val(v interface{}) string {
	if v == nil {
		return "nil"
	}
	return fmt.Sprint(v)
}

// newInst builds a cache through one of the public constructor variants.
//   variant: default  -> NewDefault(dflt, cleanup[, cb])
//            opts     -> New(WithDefaultExpiration, WithCleanupInterval[, WithEvictedCallback][, WithMinCapacity])
//            over<b>  -> New(WithDefaultExpiration(b), WithCleanupInterval, [cb], [mincap], WithDefaultExpiration(dflt)): the
//                        default is set twice in one option list (a base slice plus an override); the later one wins
//            bare     -> New() then SetDefaultExpiration/SetEvictedCallback are NOT applied (dflt, cb ignored)
func newInst(twin, variant string, dflt, cleanup int64, cb int, mincap int) *inst {
	in := &inst{curCb: cb}
	f := in.mkcb(cb)
	if twin == "cache" {
		var c cache.Cache
		switch variant {
		case "default":
			if f != nil {
				c = cache.NewDefault(time.Duration(dflt), time.Duration(cleanup), f)
			} else {
				c = cache.NewDefault(time.Duration(dflt), time.Duration(cleanup))
			}
		case "opts":
			o := []cache.Option{cache.WithDefaultExpiration(time.Duration(dflt)), cache.WithCleanupInterval(time.Duration(cleanup))}
			if f != nil {
				o = append(o, cache.WithEvictedCallback(f))
			}
			if mincap != 0 {
				o = append(o, cache.WithMinCapacity(mincap))
			}
			c = cache.New(o...)
		case "bare":
			c = cache.New(cache.WithCleanupInterval(0))
			in.curCb = 0
		default:
			if !strings.HasPrefix(variant, "over") {
				panic("variant " + variant)
			}
			o := []cache.Option{cache.WithDefaultExpiration(time.Duration(atoi64(variant[4:]))), cache.WithCleanupInterval(time.Duration(cleanup))}
			if f != nil {
				o = append(o, cache.WithEvictedCallback(f))
			}
			if mincap != 0 {
				o = append(o, cache.WithMinCapacity(mincap))
			}
			o = append(o, cache.WithDefaultExpiration(time.Duration(dflt)))
			c = cache.New(o...)
		}
		in.c = plain{c}
	} else {
		var c cache.CacheOf[string, interface{}]
		switch variant {
		case "default":
			if f != nil {
				c = cache.NewOfDefault[string, interface{}](time.Duration(dflt), time.Duration(cleanup), f)
			} else {
				c = cache.NewOfDefault[string, interface{}](time.Duration(dflt), time.Duration(cleanup))
			}
		case "opts":
			o := []cache.OptionOf[string, interface{}]{cache.WithDefaultExpirationOf[string, interface{}](time.Duration(dflt)),
				cache.WithCleanupIntervalOf[string, interface{}](time.Duration(cleanup))}
			if f != nil {
				o = append(o, cache.WithEvictedCallbackOf[string, interface{}](f))
			}
			if mincap != 0 {
				o = append(o, cache.WithMinCapacityOf[string, interface{}](mincap))
			}
			c = cache.NewOf[string, interface{}](o...)
		case "bare":
			c = cache.NewOf[string, interface{}](cache.WithCleanupIntervalOf[string, interface{}](0))
			in.curCb = 0
		default:
			if !strings.HasPrefix(variant, "over") {
				panic("variant " + variant)
			}
			o := []cache.OptionOf[string, interface{}]{cache.WithDefaultExpirationOf[string, interface{}](time.Duration(atoi64(variant[4:]))),
				cache.WithCleanupIntervalOf[string, interface{}](time.Duration(cleanup))}
			if f != nil {
				o = append(o, cache.WithEvictedCallbackOf[string, interface{}](f))
			}
			if mincap != 0 {
				o = append(o, cache.WithMinCapacityOf[string, interface{}](mincap))
			}
			o = append(o, cache.WithDefaultExpirationOf[string, interface{}](time.Duration(dflt)))
			c = cache.NewOf[string, interface{}](o...)
		}
		in.c = generic{c}
	}
	return in
}

func parseVal(s string) interface{} {
	if s == "nil" {
		return nil
	}
	var n int
	fmt.Sscan(s, &n)
	return n
}

func atoi64(s string) int64 {
	var n int64
	if _, err := fmt.Sscan(s, &n); err != nil {
		panic("bad int " + s)
	}
	return n
}

// action "s:<val>" (store val) or "d:<val>" (delete, returning val as newValue)
func parseAct(s string) (interface{}, bool) {
	return parseVal(s[2:]), s[0] == 'd'
}

func sortedPairs(m map[string]interface{}) string {
	var ks []string
	for k := range m {
		ks = append(ks, k)
	}
	sort.Strings(ks)
	var sb strings.Builder
	sb.WriteString("[")
	for i, k := range ks {
		if i > 0 {
			sb.WriteString(" ")
		}
		sb.WriteString(k + ":" + val(m[k]))
	}
	sb.WriteString("]")
	return sb.String()
}

// exec runs one protocol line on the real cache and returns the canonical result line.
func (in *inst) exec(line string) (res string) {
	t := strings.Fields(line)
	in.cbs, in.fnlog = nil, nil
	c := in.c
	out := "-"
	vb := func(v interface{}, ok bool) string { return fmt.Sprintf("v=%s ok=%v", val(v), ok) }
	switch t[0] {
	case "set":
		c.Set(t[1], parseVal(t[2]), time.Duration(atoi64(t[3])))
	case "setdefault":
		c.SetDefault(t[1], parseVal(t[2]))
	case "setforever":
		c.SetForever(t[1], parseVal(t[2]))
	case "get":
		out = vb(c.Get(t[1]))
	case "getexp":
		v, e, ok := c.GetWithExpiration(t[1])
		en := int64(0)
		if !e.IsZero() {
			en = e.UnixNano()
		}
		out = fmt.Sprintf("v=%s e=%d ok=%v", val(v), en, ok)
	case "getttl":
		v, d, ok := c.GetWithTTL(t[1])
		out = fmt.Sprintf("v=%s ttl=%d ok=%v", val(v), int64(d), ok)
	case "getorset":
		out = vb(c.GetOrSet(t[1], parseVal(t[2]), time.Duration(atoi64(t[3]))))
	case "getandset":
		out = vb(c.GetAndSet(t[1], parseVal(t[2]), time.Duration(atoi64(t[3]))))
	case "getandrefresh":
		out = vb(c.GetAndRefresh(t[1], time.Duration(atoi64(t[2]))))
	case "getorcompute":
		v := parseVal(t[2])
		out = vb(c.GetOrCompute(t[1], func() interface{} { in.fnlog = append(in.fnlog, "f"); return v }, time.Duration(atoi64(t[3]))))
	case "getorcomputeslow":
		// the user function takes time: the virtual clock advances by t[4] ns while it runs
		v := parseVal(t[2])
		out = vb(c.GetOrCompute(t[1], func() interface{} {
			in.fnlog = append(in.fnlog, "f")
			vshim.Advance(atoi64(t[4]))
			return v
		}, time.Duration(atoi64(t[3]))))
	case "computeslow":
		sv, sd := parseAct(t[2])
		nv, nd := parseAct(t[3])
		out = vb(c.Compute(t[1], func(old interface{}, loaded bool) (interface{}, bool) {
			vshim.Advance(atoi64(t[5]))
			if loaded {
				in.fnlog = append(in.fnlog, "g(some "+val(old)+")")
				return sv, sd
			}
			if old != nil {
				in.fnlog = append(in.fnlog, "g(BAD-nonzero-old "+val(old)+")")
			} else {
				in.fnlog = append(in.fnlog, "g(none)")
			}
			return nv, nd
		}, time.Duration(atoi64(t[4]))))
	case "compute":
		sv, sd := parseAct(t[2])
		nv, nd := parseAct(t[3])
		out = vb(c.Compute(t[1], func(old interface{}, loaded bool) (interface{}, bool) {
			if loaded {
				in.fnlog = append(in.fnlog, "g(some "+val(old)+")")
				return sv, sd
			}
			if old != nil {
				in.fnlog = append(in.fnlog, "g(BAD-nonzero-old "+val(old)+")")
			} else {
				in.fnlog = append(in.fnlog, "g(none)")
			}
			return nv, nd
		}, time.Duration(atoi64(t[4]))))
	case "getanddelete":
		out = vb(c.GetAndDelete(t[1]))
	case "delete":
		c.Delete(t[1])
	case "deleteexpired":
		c.DeleteExpired()
	case "range":
		seen := map[string]interface{}{}
		dup, stopped, after := false, false, false
		c.Range(func(k string, v interface{}) bool {
			if stopped {
				after = true
			}
			if _, ok := seen[k]; ok {
				dup = true
			}
			seen[k] = v
			if k == t[1] {
				stopped = true
				return false
			}
			return true
		})
		switch {
		case dup:
			out = "BAD-duplicate-visit " + sortedPairs(seen)
		case after:
			out = "BAD-visit-after-false"
		case stopped:
			out = "stopped " + t[1] + ":" + val(seen[t[1]])
		default:
			out = fmt.Sprintf("n=%d %s", len(seen), sortedPairs(seen))
		}
	case "rangenil":
		c.Range(nil)
	case "items":
		out = sortedPairs(c.Items())
	case "clear":
		c.Clear()
	case "count":
		out = fmt.Sprintf("n=%d", c.Count())
	case "defexp":
		out = fmt.Sprintf("d=%d", int64(c.DefaultExpiration()))
	case "setdefexp":
		c.SetDefaultExpiration(time.Duration(atoi64(t[1])))
	case "evcb":
		if c.HasCallback() {
			out = fmt.Sprintf("cb=%d", in.curCb)
		} else {
			out = "cb=nil"
		}
	case "setevcb":
		id := 0
		if t[1] != "nil" {
			id = int(atoi64(t[1]))
		}
		in.curCb = id
		c.SetCallback(in.mkcb(id))
	case "tick":
		vshim.Advance(atoi64(t[1]))
	default:
		panic("unknown op " + t[0])
	}
	if len(in.fnlog) > 0 {
		out += " | fn=" + strings.Join(in.fnlog, ",")
	}
	if len(in.cbs) > 0 {
		sort.Strings(in.cbs)
		out += " | cbs=" + strings.Join(in.cbs, ",")
	}
	return out
}

// ---- generator -----------------------------------------------------------------------------------

const clockBase = int64(1_700_000_000_000_000_000)

var durChoices = []int64{-2_000_000_000, -1_000_000_000, -1, 0, 1, 5, 50, 1000, 3_600_000_000_000}
var dfltChoices = []int64{-2_000_000_000, -1_000_000_000, -1, 0, 1, 10, 100, 3_600_000_000_000}

type gen struct {
	r      *rng
	nextV  int
	now    int64
	dflt   int64
	exps   []int64 // expiration instants produced so far (approximate bookkeeping for boundary ticks)
	nkeys  int
	stats  map[string]int
	cb7    bool // offer the self-replacing callback 7 (twin comparison runs)
}

func (g *gen) key() string { return fmt.Sprintf("k%d", g.r.intn(g.nkeys)) }
func (g *gen) v() string {
	if g.r.chance(1, 25) {
		return "nil"
	}
	g.nextV++
	return fmt.Sprint(g.nextV)
}
func (g *gen) d() int64 {
	d := durChoices[g.r.intn(len(durChoices))]
	eff := d
	if d == -1_000_000_000 {
		eff = g.dflt
	}
	if eff > 0 {
		g.exps = append(g.exps, g.now+eff)
	}
	return d
}
// slow: how long a slow user function runs (ns of virtual time), around the TTL lattice
func (g *gen) slow() int64 { return []int64{0, 1, 4, 5, 6, 49, 50, 51, 1000, 1001}[g.r.intn(10)] }

func (g *gen) act() string {
	if g.r.chance(1, 3) {
		return "d:" + g.v()
	}
	return "s:" + g.v()
}

func (g *gen) op() string {
	r := g.r
	switch n := r.intn(100); {
	case n < 14:
		return fmt.Sprintf("set %s %s %d", g.key(), g.v(), g.d())
	case n < 17:
		if g.dflt > 0 {
			g.exps = append(g.exps, g.now+g.dflt)
		}
		return fmt.Sprintf("setdefault %s %s", g.key(), g.v())
	case n < 19:
		return fmt.Sprintf("setforever %s %s", g.key(), g.v())
	case n < 26:
		return "get " + g.key()
	case n < 30:
		return "getexp " + g.key()
	case n < 34:
		return "getttl " + g.key()
	case n < 40:
		return fmt.Sprintf("getorset %s %s %d", g.key(), g.v(), g.d())
	case n < 46:
		return fmt.Sprintf("getandset %s %s %d", g.key(), g.v(), g.d())
	case n < 51:
		return fmt.Sprintf("getandrefresh %s %d", g.key(), g.d())
	case n < 56:
		if r.chance(1, 3) {
			return fmt.Sprintf("getorcomputeslow %s %s %d %d", g.key(), g.v(), g.d(), g.slow())
		}
		return fmt.Sprintf("getorcompute %s %s %d", g.key(), g.v(), g.d())
	case n < 63:
		if r.chance(1, 3) {
			return fmt.Sprintf("computeslow %s %s %s %d %d", g.key(), g.act(), g.act(), g.d(), g.slow())
		}
		return fmt.Sprintf("compute %s %s %s %d", g.key(), g.act(), g.act(), g.d())
	case n < 68:
		return "getanddelete " + g.key()
	case n < 71:
		return "delete " + g.key()
	case n < 75:
		return "deleteexpired"
	case n < 78:
		return "range *"
	case n < 80:
		return "range " + g.key()
	case n < 81:
		return "rangenil"
	case n < 84:
		return "items"
	case n < 85:
		return "clear"
	case n < 89:
		return "count"
	case n < 90:
		return "defexp"
	case n < 92:
		g.dflt = dfltChoices[r.intn(len(dfltChoices))]
		return fmt.Sprintf("setdefexp %d", g.dflt)
	case n < 93:
		return "evcb"
	case n < 95:
		ids := []string{"nil", "1", "2", "3"}
		if g.cb7 {
			ids = append(ids, "7", "7")
		}
		return "setevcb " + ids[r.intn(len(ids))]
	default:
		// clock advance: half of the time land on / around a known expiration instant
		var delta int64
		if len(g.exps) > 0 && r.chance(1, 2) {
			e := g.exps[r.intn(len(g.exps))]
			delta = e - g.now + int64(r.intn(3)) - 1
			if delta < 0 {
				delta = int64(r.intn(3))
			}
		} else {
			c := []int64{0, 1, 2, 4, 5, 6, 49, 50, 51, 999, 1000, 1001}
			delta = c[r.intn(len(c))]
		}
		g.now += delta
		return fmt.Sprintf("tick %d", delta)
	}
}

func seqCache(a map[string]string) {
	seed := argInt(a, "seed", 1)
	nseq := argInt(a, "nseq", 100)
	nops := argInt(a, "nops", 40)
	twin := argStr(a, "twin", "cache")
	outdir := argStr(a, "out", ".")
	replay := argStr(a, "replay", "")
	opsF, _ := os.Create(outdir + "/ops.txt")
	implF, _ := os.Create(outdir + "/impl.txt")
	ow, iw := bufio.NewWriter(opsF), bufio.NewWriter(implF)
	defer func() { ow.Flush(); iw.Flush(); opsF.Close(); implF.Close() }()

	var in *inst
	run := func(line string) {
		fmt.Fprintln(ow, line)
		t := strings.Fields(line)
		if t[0] == "new" {
			// new <twin> <variant> <now> <dflt> <cleanup> <cb> <mincap>
			vshim.SetClock(atoi64(t[3]))
			cb := 0
			if t[6] != "nil" {
				cb = int(atoi64(t[6]))
			}
			in = newInst(t[1], t[2], atoi64(t[4]), atoi64(t[5]), cb, int(atoi64(t[7])))
			fmt.Fprintln(iw, "-")
			return
		}
		var res string
		func() {
			defer func() {
				if e := recover(); e != nil {
					res = fmt.Sprint("PANIC ", e)
				}
			}()
			res = in.exec(line)
		}()
		fmt.Fprintln(iw, res)
	}
	if replay != "" {
		f, err := os.Open(replay)
		if err != nil {
			panic(err)
		}
		sc := bufio.NewScanner(f)
		for sc.Scan() {
			if l := strings.TrimSpace(sc.Text()); l != "" && !strings.HasPrefix(l, "#") {
				run(l)
			}
		}
		return
	}
	r := newRng(uint64(seed))
	stats := map[string]int{}
	for s := 0; s < nseq; s++ {
		g := &gen{r: r, now: clockBase, nkeys: 2 + r.intn(5), stats: stats, cb7: argInt(a, "cb7", 0) == 1}
		if s%8 == 7 {
			g.nkeys = 150 + r.intn(250) // long chains and resizes of the underlying table
		}
		variants := []string{"default", "opts", "bare", "over3600000000000", "over-1", "over40"}
		variant := variants[r.intn(len(variants))]
		g.dflt = dfltChoices[r.intn(len(dfltChoices))]
		cb := []string{"nil", "1", "2"}[r.intn(3)]
		mincap := []int{0, 0, 1, 96, 200}[r.intn(5)]
		run(fmt.Sprintf("new %s %s %d %d 0 %s %d", twin, variant, g.now, g.dflt, cb, mincap))
		// what the constructor makes of dflt: known to the generator only for boundary bookkeeping
		if variant == "bare" || g.dflt < 1 {
			g.dflt = -2_000_000_000
		}
		n := nops
		if g.nkeys > 100 {
			n = nops * 12
		}
		for i := 0; i < n; i++ {
			var l string
			switch {
			case g.nkeys > 100 && i < n/3:
				// bulk phase: fill the table (chains grow, the table grows)
				l = fmt.Sprintf("set k%d %s %d", i%g.nkeys, g.v(), []int64{-2_000_000_000, 3_600_000_000_000, 50}[r.intn(3)])
			case g.nkeys > 100 && i < n/2 && r.chance(2, 3):
				// punch holes into the chains, then refill them
				l = fmt.Sprintf("delete k%d", r.intn(g.nkeys))
			default:
				l = g.op()
			}
			stats[strings.Fields(l)[0]]++
			run(l)
		}
	}
	sf, _ := os.Create(outdir + "/stats.txt")
	var ks []string
	for k := range stats {
		ks = append(ks, k)
	}
	sort.Strings(ks)
	for _, k := range ks {
		fmt.Fprintf(sf, "%s %d\n", k, stats[k])
	}
	sf.Close()
}
