package main

// Controlled-scheduler exploration: one goroutine per logical thread, exactly one runs at a time; vshim
// announces every synchronisation action of the (rewritten) library code and the scheduler decides who
// performs the next one.  Needs the "sched" overlay.

import (
	"bufio"
	"fmt"
	"os"
	"sort"
	"strings"
	"time"
	"unsafe"

	"github.com/fufuok/cache"
	"github.com/fufuok/cache/internal/vshim"
	"github.com/fufuok/cache/internal/xsync"
)

type sthread struct {
	id      int
	resume  chan struct{}
	yield   chan *vshim.Ev
	pending *vshim.Ev
	done    bool
	ops     []string
	steps   int
}

type opRec struct {
	tid       int
	inv, resp int
	op, res   string
	fnCalls   int
	cbs       []string
	visits    []string // for range ops: "k:v" in visit order
	reader    bool
}

type sched struct {
	order   []int // thread id of every executed step (for exact replays)
	forced  []int // when non-empty: the schedule to follow (thread ids), then fall back to the strategy
	threads []*sthread
	cur     *sthread
	clock   int
	steps   int
	r       *rng
	hist    []*opRec
	trace   []string
	keepTr  bool
	problem string
	exh     uint64 // strategy 5: first + 16*k
}

func (s *sched) tick() int { s.clock++; return s.clock }

func (s *sched) hook(ev *vshim.Ev) {
	t := s.cur
	t.yield <- ev
	<-t.resume
}

func (s *sched) spawn(id int, ops []string, body func(t *sthread)) *sthread {
	t := &sthread{id: id, resume: make(chan struct{}), yield: make(chan *vshim.Ev), ops: ops}
	go func() {
		<-t.resume
		func() {
			defer func() {
				if e := recover(); e != nil {
					s.problem = fmt.Sprint("PANIC in thread ", id, ": ", e)
				}
			}()
			body(t)
		}()
		t.yield <- nil
	}()
	s.threads = append(s.threads, t)
	return t
}

// step lets t perform its pending action and run to its next yield point.
func (s *sched) step(t *sthread) {
	if s.keepTr && t.pending != nil {
		s.trace = append(s.trace, fmt.Sprintf("T%d %s", t.id, t.pending.Kind))
	}
	s.cur = t
	s.steps++
	t.steps++
	s.order = append(s.order, t.id)
	t.resume <- struct{}{}
	var ev *vshim.Ev
	select {
	case ev = <-t.yield:
	case <-time.After(20 * time.Second):
		// the thread neither finished its action nor reached another scheduling point: it is blocked on something
		// the scheduler does not control (a lock or channel that is not one of the shimmed primitives) while every
		// other thread is suspended - nobody can ever release it
		s.problem = fmt.Sprintf("HANG: T%d is blocked outside the scheduler (a lock the library took that is not released while the other threads are suspended: self-deadlock or lock-order deadlock)", t.id)
		t.done = true
		t.pending = nil
		return
	}
	if ev == nil {
		t.done = true
	}
	t.pending = ev
}

func (t *sthread) runnable() bool {
	return !t.done && (t.pending == nil || t.pending.Blocked == nil || !t.pending.Blocked())
}

// run explores one schedule.  strategy 0: uniformly random; 1: run-to-block with a few random
// pre-emptions (pre-emption bounded); 2: like 1 but prefers switching right after writes to shared words.
func (s *sched) run(strategy int, budget int) {
	for _, t := range s.threads {
		s.step(t) // to the first yield (op-start park)
	}
	if len(s.forced) >= len(s.threads) {
		s.forced = s.forced[len(s.threads):] // the recorded schedule starts with these same steps
	}
	var cur *sthread
	preempt := map[int]bool{}
	switchTo := map[int]int{}
	if strategy == 6 && len(s.threads) >= 2 {
		// two short pre-emptions: A runs k1 steps, B runs k2 steps, A runs k3 steps, B resumes (then run-to-block with
		// cyclic switching): the shape "B is stopped between two adjacent actions while A does a few more"
		a := s.r.intn(len(s.threads))
		b := (a + 1 + s.r.intn(len(s.threads)-1)) % len(s.threads)
		k1, k2, k3 := 1+s.r.intn(80), 1+s.r.intn(25), 1+s.r.intn(12)
		cur = s.threads[a]
		preempt[s.steps+k1] = true
		switchTo[s.steps+k1] = b
		preempt[s.steps+k1+k2] = true
		switchTo[s.steps+k1+k2] = a
		preempt[s.steps+k1+k2+k3] = true
		switchTo[s.steps+k1+k2+k3] = b
	}
	if strategy == 5 {
		// bounded-exhaustive exploration, one pre-emption: thread `first` runs `k` of its own steps, then the others
		// run to completion (lowest id first), then it resumes.  (first, k) are encoded in the schedule seed.
		first, k := int(s.exh%16), int(s.exh/16)
		if first < len(s.threads) {
			cur = s.threads[first]
		}
		preempt[s.steps+k] = true
	} else if strategy == 3 {
		// one early pre-emption: the first thread is stopped after a few of its own steps (between two of its first
		// atomic actions), everybody else runs to completion, then it resumes
		preempt[1+s.r.intn(10)] = true
	} else if strategy >= 1 {
		for i := 0; i < 1+s.r.intn(3); i++ {
			preempt[1+s.r.intn(120)] = true
		}
	}
	for s.steps < budget {
		var rs []*sthread
		alive := false
		for _, t := range s.threads {
			if !t.done {
				alive = true
				if t.runnable() {
					rs = append(rs, t)
				}
			}
		}
		if !alive {
			return
		}
		if len(rs) == 0 {
			var w []string
			for _, t := range s.threads {
				if !t.done {
					w = append(w, fmt.Sprintf("T%d@%s", t.id, t.pending.Kind))
				}
			}
			s.problem = "DEADLOCK: no thread can move: " + strings.Join(w, " ")
			return
		}
		var pick *sthread
		if len(s.forced) > 0 {
			want := s.forced[0]
			s.forced = s.forced[1:]
			for _, t := range rs {
				if t.id == want {
					pick = t
				}
			}
		}
		switch {
		case pick != nil:
		case strategy == 0:
			pick = rs[s.r.intn(len(rs))]
		default:
			stay := cur != nil && cur.runnable() && !preempt[s.steps] &&
				cur.pending != nil && cur.pending.Kind != "Gosched" && cur.pending.Kind != "CondWait" && cur.pending.Kind != "Lock-spin"
			if stay {
				pick = cur
			} else {
				// switch: any other runnable thread if there is one
				var others []*sthread
				for _, t := range rs {
					if t != cur {
						others = append(others, t)
					}
				}
				if len(others) > 0 {
					pick = others[s.r.intn(len(others))]
					if want, ok := switchTo[s.steps]; ok {
						for _, t := range others {
							if t.id == want {
								pick = t
							}
						}
					}
					if strategy == 5 {
						// deterministic but fair: the next runnable thread after the current one, cyclically (a
						// fixed preference would starve the holder of a spin lock two other threads are waiting for)
						pick = others[0]
						if cur != nil {
							for _, t := range others {
								if t.id > cur.id {
									pick = t
									break
								}
							}
						}
					}
				} else {
					pick = rs[0]
				}
			}
		}
		cur = pick
		s.step(pick)
		if s.problem != "" {
			return
		}
	}
	s.problem = fmt.Sprintf("STEP-BUDGET: %d steps without completion (livelock / unbounded spinning)", budget)
}

// soloFinish runs only thread t until its current operation completes; returns the number of its own
// steps, or -1 if it got blocked / exceeded the bound.
func (s *sched) soloFinish(t *sthread, bound int, opDone func() bool) int {
	n := 0
	for !opDone() && !t.done {
		if !t.runnable() || n >= bound {
			return -1
		}
		s.step(t)
		n++
	}
	return n
}

// ---- objects under test ------------------------------------------------------------------------------

type target struct {
	kind  string // map | mapof | cache | cacheof
	m     mapAPI
	c     *inst
	small int
}

// m5sink, when non-nil, makes newTarget build the caches with their `items` map wrapped (every map call is one
// scheduling step) and receives the M5-granularity events; m5dflt / m5cb are the addresses of the two settings.
var m5sink func(string)
var m5dflt, m5cb unsafe.Pointer

func newTarget(kind string, small int, dflt int64, cb int) *target {
	tg := &target{kind: kind, small: small}
	switch kind {
	case "map":
		m := xsync.NewMap()
		m.VerifShrinkTo(small)
		tg.m = m
	case "mapof":
		m := xsync.NewMapOfWithHasher[string, interface{}](vshim.HashString)
		m.VerifShrinkTo(small)
		tg.m = m
	case "cache":
		in := &inst{curCb: cb}
		if m5sink != nil {
			c, a, b := cache.VerifNewCacheTraced(small, time.Duration(dflt), in.mkcb(cb), m5sink)
			in.c, m5dflt, m5cb = plain{c}, a, b
		} else {
			in.c = plain{cache.VerifNewCacheSmall(small, time.Duration(dflt), in.mkcb(cb))}
		}
		tg.c = in
	case "cacheof":
		in := &inst{curCb: cb}
		f := in.mkcb(cb)
		var ec cache.EvictedCallbackOf[string, interface{}]
		if f != nil {
			ec = f
		}
		if m5sink != nil {
			c, a, b := cache.VerifNewCacheOfTraced(small, time.Duration(dflt), ec, m5sink)
			in.c, m5dflt, m5cb = generic{c}, a, b
		} else {
			in.c = generic{cache.VerifNewCacheOfSmall(small, time.Duration(dflt), ec)}
		}
		tg.c = in
	}
	return tg
}

func (tg *target) isCache() bool { return tg.c != nil }

// ---- executing one op inside a scheduled thread ---------------------------------------------------------

// opExec runs the protocol line and fills the record (result string without callbacks; callbacks and
// user-function invocations are recorded separately).
func (tg *target) opExec(s *sched, t *sthread, line string) *opRec {
	rec := &opRec{tid: t.id, op: line}
	f := strings.Fields(line)
	rec.reader = f[0] == "load" || f[0] == "get" || f[0] == "getexp" || f[0] == "getttl" || f[0] == "size" || f[0] == "count"
	rec.inv = s.tick()
	if tg.isCache() {
		rec.res, rec.fnCalls, rec.cbs, rec.visits = tg.cacheOp(f)
	} else {
		rec.res, rec.fnCalls, rec.visits = tg.mapOp(f)
	}
	rec.resp = s.tick()
	return rec
}

func (tg *target) mapOp(t []string) (string, int, []string) {
	m := tg.m
	calls := 0
	var visits []string
	vb := func(v interface{}, ok bool) string { return fmt.Sprintf("v=%s ok=%v", val(v), ok) }
	switch t[0] {
	case "load":
		return vb(m.Load(t[1])), 0, nil
	case "store":
		m.Store(t[1], parseVal(t[2]))
		return "-", 0, nil
	case "loadorstore":
		return vb(m.LoadOrStore(t[1], parseVal(t[2]))), 0, nil
	case "loadandstore":
		return vb(m.LoadAndStore(t[1], parseVal(t[2]))), 0, nil
	case "loadorcompute":
		v := parseVal(t[2])
		r := vb(m.LoadOrCompute(t[1], func() interface{} { calls++; vshim.Park("fn"); return v }))
		return r + fmt.Sprintf(" fn=%d", calls), calls, nil
	case "compute":
		sv, sd := parseAct(t[2])
		nv, nd := parseAct(t[3])
		r := vb(m.Compute(t[1], func(old interface{}, loaded bool) (interface{}, bool) {
			calls++
			vshim.Park("fn")
			if loaded {
				return sv, sd
			}
			return nv, nd
		}))
		return r + fmt.Sprintf(" fn=%d", calls), calls, nil
	case "loadanddelete":
		return vb(m.LoadAndDelete(t[1])), 0, nil
	case "delete":
		m.Delete(t[1])
		return "-", 0, nil
	case "clear":
		m.Clear()
		return "-", 0, nil
	case "size":
		return fmt.Sprintf("n=%d", m.Size()), 0, nil
	case "range":
		// range <stopkey|*> [reentrant op...]: the visitor may run one re-entrant call per visit
		m.Range(func(k string, v interface{}) bool {
			visits = append(visits, k+":"+val(v))
			vshim.Park("visit")
			if len(t) > 2 {
				re := strings.Split(strings.Join(t[2:], " "), ";")
				rf := strings.Fields(re[len(visits)%len(re)])
				if len(rf) >= 3 {
					rf[2] = fmt.Sprintf("%s%03d", rf[2], len(visits)) // every store carries a unique value
				}
				tg.mapOp(rf)
			}
			return k != t[1]
		})
		return "visited", 0, visits
	}
	panic("sched: unknown map op " + t[0])
}

func (tg *target) cacheOp(t []string) (string, int, []string, []string) {
	in := tg.c
	// the shared inst collects callbacks / fn logs per call; under the scheduler several calls are in flight,
	// so use private collectors
	var cbs []string
	calls := 0
	c := in.c
	d := func(i int) time.Duration { return time.Duration(atoi64(t[i])) }
	vb := func(v interface{}, ok bool) string { return fmt.Sprintf("v=%s ok=%v", val(v), ok) }
	_ = cbs
	switch t[0] {
	case "set":
		c.Set(t[1], parseVal(t[2]), d(3))
		return "-", 0, nil, nil
	case "setdefault":
		c.SetDefault(t[1], parseVal(t[2]))
		return "-", 0, nil, nil
	case "setdefexp":
		c.SetDefaultExpiration(d(1))
		return "-", 0, nil, nil
	case "setevcb":
		id := int(atoi64(t[1]))
		in.curCb = id
		c.SetCallback(in.mkcb(id))
		return "-", 0, nil, nil
	case "defexp":
		return fmt.Sprintf("d=%d", int64(c.DefaultExpiration())), 0, nil, nil
	case "tick":
		// the clock advances while the other threads are in the middle of their calls
		vshim.Advance(atoi64(t[1]))
		return "-", 0, nil, nil
	case "get":
		return vb(c.Get(t[1])), 0, nil, nil
	case "getexp":
		v, e, ok := c.GetWithExpiration(t[1])
		en := int64(0)
		if !e.IsZero() {
			en = e.UnixNano()
		}
		return fmt.Sprintf("v=%s e=%d ok=%v", val(v), en, ok), 0, nil, nil
	case "getttl":
		v, dd, ok := c.GetWithTTL(t[1])
		return fmt.Sprintf("v=%s ttl=%d ok=%v", val(v), int64(dd), ok), 0, nil, nil
	case "getorset":
		return vb(c.GetOrSet(t[1], parseVal(t[2]), d(3))), 0, nil, nil
	case "getandset":
		return vb(c.GetAndSet(t[1], parseVal(t[2]), d(3))), 0, nil, nil
	case "getandrefresh":
		return vb(c.GetAndRefresh(t[1], d(2))), 0, nil, nil
	case "getorcompute":
		v := parseVal(t[2])
		r := vb(c.GetOrCompute(t[1], func() interface{} { calls++; vshim.Park("fn"); return v }, d(3)))
		fn := ""
		if calls > 0 {
			fn = " | fn=" + strings.TrimSuffix(strings.Repeat("f,", calls), ",")
		}
		return r + fn, calls, nil, nil
	case "compute":
		sv, sd := parseAct(t[2])
		nv, nd := parseAct(t[3])
		var log []string
		r := vb(c.Compute(t[1], func(old interface{}, loaded bool) (interface{}, bool) {
			calls++
			vshim.Park("fn")
			if loaded {
				log = append(log, "g(some "+val(old)+")")
				return sv, sd
			}
			log = append(log, "g(none)")
			return nv, nd
		}, d(4)))
		return r + " | fn=" + strings.Join(log, ","), calls, nil, nil
	case "getanddelete":
		return vb(c.GetAndDelete(t[1])), 0, nil, nil
	case "delete":
		c.Delete(t[1])
		return "-", 0, nil, nil
	case "deleteexpired":
		c.DeleteExpired()
		return "-", 0, nil, nil
	case "clear":
		c.Clear()
		return "-", 0, nil, nil
	case "count":
		return fmt.Sprintf("n=%d", c.Count()), 0, nil, nil
	case "range":
		var visits []string
		c.Range(func(k string, v interface{}) bool {
			visits = append(visits, k+":"+val(v))
			vshim.Park("visit")
			if len(t) > 2 {
				re := strings.Split(strings.Join(t[2:], " "), ";")
				rf := strings.Fields(re[len(visits)%len(re)])
				if len(rf) >= 3 {
					rf[2] = fmt.Sprintf("%s%03d", rf[2], len(visits)) // every store carries a unique value
				}
				tg.cacheOp(rf)
			}
			return k != t[1]
		})
		return "visited", 0, nil, visits
	}
	panic("sched: unknown cache op " + t[0])
}

// ---- program generation ------------------------------------------------------------------------------------

type program struct {
	kind    string
	small   int
	dflt    int64
	cb      int
	hashMd  int
	seed    int
	prefill []string   // sequential, unscheduled (cache: may contain ticks)
	threads [][]string // concurrent phase
	now     int64
}

func genProgram(r *rng, kind string, focus string) *program {
	p := &program{kind: kind, small: 1 + r.intn(2), dflt: []int64{-2_000_000_000, 50, 3_600_000_000_000}[r.intn(3)], seed: r.intn(1<<20) + 1, now: clockBase}
	isCache := kind == "cache" || kind == "cacheof"
	if r.chance(1, 5) {
		p.hashMd = []int{1, 3, 4, 2}[r.intn(4)]
	}
	if isCache {
		p.cb = r.intn(2)
		if focus == "reenter" {
			p.cb = 9 // the evicted callback calls back into the cache
		}
	}
	nkeys := 2 + r.intn(4)
	key := func() string { return fmt.Sprintf("k%d", r.intn(nkeys)) }
	nextV := 0
	v := func() string { nextV++; return fmt.Sprint(nextV) }
	act := func() string {
		if r.chance(1, 3) {
			return "d:" + v()
		}
		return "s:" + v()
	}
	dur := func() int64 { return []int64{-2_000_000_000, -1_000_000_000, 5, 50, 3_600_000_000_000}[r.intn(5)] }
	// prefill: 0..7 entries, for caches some of them expired-uncleaned at the start of the concurrent phase
	npre := r.intn(8)
	for i := 0; i < npre; i++ {
		k := fmt.Sprintf("k%d", r.intn(nkeys+3))
		if isCache {
			ttls := []int64{5, 5, 3_600_000_000_000, -2_000_000_000}
			if focus == "reader" {
				ttls = []int64{3_600_000_000_000, -2_000_000_000}
			}
			p.prefill = append(p.prefill, fmt.Sprintf("set %s %s %d", k, v(), ttls[r.intn(len(ttls))]))
		} else {
			p.prefill = append(p.prefill, fmt.Sprintf("store %s %s", k, v()))
		}
	}
	if isCache {
		p.prefill = append(p.prefill, fmt.Sprintf("tick %d", []int{0, 5, 6, 60}[r.intn(4)]))
	}
	mapOp := func() string {
		switch n := r.intn(100); {
		case n < 12:
			return "load " + key()
		case n < 32:
			return fmt.Sprintf("store %s %s", key(), v())
		case n < 42:
			return fmt.Sprintf("loadorstore %s %s", key(), v())
		case n < 50:
			return fmt.Sprintf("loadandstore %s %s", key(), v())
		case n < 58:
			return fmt.Sprintf("loadorcompute %s %s", key(), v())
		case n < 70:
			return fmt.Sprintf("compute %s %s %s", key(), act(), act())
		case n < 80:
			return "loadanddelete " + key()
		case n < 88:
			return "delete " + key()
		case n < 94:
			return "clear"
		default:
			return fmt.Sprintf("store extra%d %s", r.intn(6), v())
		}
	}
	cacheOp := func() string {
		switch n := r.intn(100); {
		case n < 10:
			return "get " + key()
		case n < 13:
			return "getttl " + key()
		case n < 28:
			return fmt.Sprintf("set %s %s %d", key(), v(), dur())
		case n < 36:
			return fmt.Sprintf("getorset %s %s %d", key(), v(), dur())
		case n < 44:
			return fmt.Sprintf("getandset %s %s %d", key(), v(), dur())
		case n < 50:
			return fmt.Sprintf("getandrefresh %s %d", key(), dur())
		case n < 57:
			return fmt.Sprintf("getorcompute %s %s %d", key(), v(), dur())
		case n < 67:
			return fmt.Sprintf("compute %s %s %s %d", key(), act(), act(), dur())
		case n < 75:
			return "getanddelete " + key()
		case n < 81:
			return "delete " + key()
		case n < 93:
			return "deleteexpired"
		case n < 96:
			return "clear"
		default:
			return fmt.Sprintf("set extra%d %s %d", r.intn(6), v(), dur())
		}
	}
	nthreads := 2 + r.intn(2)
	for i := 0; i < nthreads; i++ {
		var ops []string
		for j := 0; j < 1+r.intn(3); j++ {
			if isCache {
				ops = append(ops, cacheOp())
			} else {
				ops = append(ops, mapOp())
			}
		}
		p.threads = append(p.threads, ops)
	}
	if (focus == "" || focus == "reader") && r.chance(1, 4) {
		// long chains without resizes: a bigger table whose keys all collide in one bucket (and, for some
		// modes, in the top-hash / h2 bits too); holes in earlier buckets come from the deletes
		p.small = 8 + 8*r.intn(2)
		p.hashMd = []int{1, 3, 4}[r.intn(3)]
		if kind == "mapof" || kind == "cacheof" {
			p.hashMd = []int{1, 3}[r.intn(2)]
		}
		p.prefill = nil
		n := 4 + r.intn(9)
		nkeys = n
		for i := 0; i < n; i++ {
			if isCache {
				p.prefill = append(p.prefill, fmt.Sprintf("set k%d %s %d", i, v(), int64(3_600_000_000_000)))
			} else {
				p.prefill = append(p.prefill, fmt.Sprintf("store k%d %s", i, v()))
			}
		}
		// holes
		for i := 0; i < 1+r.intn(3); i++ {
			p.prefill = append(p.prefill, fmt.Sprintf("delete k%d", r.intn(n)))
		}
		p.threads = nil
		for i := 0; i < 2+r.intn(2); i++ {
			var ops []string
			for j := 0; j < 1+r.intn(3); j++ {
				if isCache {
					ops = append(ops, cacheOp())
				} else {
					ops = append(ops, mapOp())
				}
			}
			p.threads = append(p.threads, ops)
		}
	} else if (focus == "" || focus == "reader") && r.chance(1, 3) {
		// resize pressure: fill the table to the brink of a grow, then race an inserting thread (grow), a
		// deleting thread (shrink) and/or Clear with the others
		per := 3
		if kind == "mapof" || kind == "cacheof" {
			per = 5
		}
		p.prefill = nil
		for i := 0; i < per*p.small; i++ {
			if isCache {
				p.prefill = append(p.prefill, fmt.Sprintf("set k%d %s %d", i, v(), int64(3_600_000_000_000)))
			} else {
				p.prefill = append(p.prefill, fmt.Sprintf("store k%d %s", i, v()))
			}
		}
		var ins []string
		for j := 0; j < 1+r.intn(3); j++ {
			if isCache {
				ins = append(ins, fmt.Sprintf("set extra%d %s %d", j, v(), int64(3_600_000_000_000)))
			} else {
				ins = append(ins, fmt.Sprintf("store extra%d %s", j, v()))
			}
		}
		if focus == "" && r.chance(1, 2) {
			// a lookup of an entry that stays put, started just before the table is replaced
			look := "load "
			if isCache {
				look = "get "
			}
			p.threads = append(p.threads, []string{look + fmt.Sprintf("k%d", r.intn(per*p.small)), look + fmt.Sprintf("k%d", r.intn(per*p.small))})
		}
		wi := 0 // index of the inserting thread; thread 0 belongs to the reader in reader programs
		if focus == "reader" {
			wi = 1
			for len(p.threads) < 3 {
				p.threads = append(p.threads, nil)
			}
		}
		p.threads[wi] = ins
		if r.chance(1, 2) {
			p.threads[wi+1] = append([]string{"clear"}, p.threads[wi+1]...)
			if len(p.threads[wi+1]) > 3 {
				p.threads[wi+1] = p.threads[wi+1][:3]
			}
		} else {
			var del []string
			for j := 0; j < 1+r.intn(3); j++ {
				del = append(del, fmt.Sprintf("delete k%d", r.intn(per*p.small)))
			}
			p.threads[wi+1] = del
		}
	}
	switch focus {
	case "shrink":
		// one thread grows the smallest table and then empties it again (the table shrinks back to a
		// generation of the SAME length), while others sit between their table load and their bucket lock,
		// delete (stale shrink requests, the give-up branch of resize), store, or clear
		p.small = 1
		p.hashMd = 0
		p.prefill = nil
		per := 3
		if kind == "mapof" || kind == "cacheof" {
			per = 5
		}
		n := per + 1 + r.intn(3)
		st := func(k string) string {
			if isCache {
				return fmt.Sprintf("set %s %s %d", k, v(), int64(3_600_000_000_000))
			}
			return fmt.Sprintf("store %s %s", k, v())
		}
		var cyc []string
		for i := 0; i < n; i++ {
			cyc = append(cyc, st(fmt.Sprintf("g%d", i)))
		}
		for i := 0; i < n; i++ {
			cyc = append(cyc, fmt.Sprintf("delete g%d", i))
		}
		if r.chance(1, 3) {
			// the cycle starts from a grown table instead
			for i := 0; i < n; i++ {
				p.prefill = append(p.prefill, cyc[i])
			}
			cyc = cyc[n:]
		}
		p.threads = [][]string{cyc}
		if r.chance(1, 3) {
			// stale shrink request: a grown table with one entry left; its deleter asks for a shrink of a
			// table that a concurrent Clear has already replaced (resize gives up), while a third thread
			// runs into the raised resize flag
			p.prefill = nil
			for i := 0; i < n; i++ {
				p.prefill = append(p.prefill, st(fmt.Sprintf("g%d", i)))
			}
			for i := 1; i < n; i++ {
				p.prefill = append(p.prefill, fmt.Sprintf("delete g%d", i))
			}
			p.threads = [][]string{{"delete g0"}, {"clear"}, {st("x0")}}
			if r.chance(1, 2) {
				p.threads[2] = append(p.threads[2], st("x1"))
			}
			break
		}
		for i := 0; i < 1+r.intn(2); i++ {
			var ops []string
			for j := 0; j < 1+r.intn(2); j++ {
				k := fmt.Sprintf("g%d", r.intn(n))
				switch r.intn(6) {
				case 0, 1:
					ops = append(ops, st(k))
				case 2:
					ops = append(ops, "delete "+k)
				case 3:
					ops = append(ops, "clear")
				case 4:
					ops = append(ops, st(fmt.Sprintf("x%d", r.intn(3))))
				default:
					if isCache {
						ops = append(ops, "get "+k)
					} else {
						ops = append(ops, "load "+k)
					}
				}
			}
			p.threads = append(p.threads, ops)
		}
	case "settings":
		// the default TTL changes while calls that use it are in flight: a call must use ONE default in force during
		// the call (positive: now + default; below 1 ns: never), not a mixture of two readings
		if !isCache {
			break
		}
		p.dflt = 3_600_000_000_000
		p.prefill = nil
		for i := range p.threads {
			var ops []string
			for j := 0; j < 1+r.intn(2); j++ {
				k := key()
				if i%2 == 0 {
					switch r.intn(4) {
					case 0:
						ops = append(ops, fmt.Sprintf("setdefault %s %s", k, v()))
					case 1:
						ops = append(ops, fmt.Sprintf("set %s %s %d", k, v(), int64(-1_000_000_000)))
					case 2:
						ops = append(ops, fmt.Sprintf("getorset %s %s %d", k, v(), int64(-1_000_000_000)))
					default:
						ops = append(ops, fmt.Sprintf("getandset %s %s %d", k, v(), int64(-1_000_000_000)))
					}
					ops = append(ops, "getexp "+k)
				} else {
					ops = append(ops, fmt.Sprintf("setdefexp %d", []int64{-2_000_000_000, 0, -1, 3_600_000_000_000, 50}[r.intn(5)]))
				}
			}
			p.threads[i] = ops
		}
	case "knobs":
		// the two settings are written and read concurrently: SetDefaultExpiration, SetEvictedCallback and
		// DefaultExpiration are one atomic action each, so the history must be linearizable - in particular a completed
		// SetDefaultExpiration is not undone by a SetEvictedCallback that overlapped it
		if !isCache {
			break
		}
		p.dflt = 3_600_000_000_000
		p.prefill = nil
		for i := range p.threads {
			var ops []string
			for j := 0; j < 1+r.intn(3); j++ {
				switch (i + r.intn(2)) % 3 {
				case 0:
					ops = append(ops, fmt.Sprintf("setdefexp %d", []int64{-2_000_000_000, 7, 50, 3_600_000_000_000, 90}[r.intn(5)]))
				case 1:
					ops = append(ops, fmt.Sprintf("setevcb %d", 1+r.intn(2)))
				default:
					ops = append(ops, "defexp")
				}
			}
			p.threads[i] = ops
		}
	case "ticks":
		// the clock advances during the concurrent phase: entries expire between two steps of a call.  Only calls
		// that read the clock once per decision are used (Compute, GetAndSet, GetAndRefresh and GetWithTTL read it
		// twice and are specified for a clock that stands still during the call)
		if !isCache {
			break
		}
		p.prefill = nil
		for i := 0; i < nkeys; i++ {
			p.prefill = append(p.prefill, fmt.Sprintf("set k%d %s %d", i, v(), []int64{5, 5, 3_600_000_000_000}[r.intn(3)]))
		}
		if r.chance(1, 2) {
			p.prefill = append(p.prefill, "tick 6")
		}
		for i := range p.threads {
			var ops []string
			for j := 0; j < 1+r.intn(2); j++ {
				k := key()
				if i%2 == 0 {
					switch r.intn(6) {
					case 0:
						ops = append(ops, "get "+k)
					case 1:
						ops = append(ops, "getexp "+k)
					case 2, 3:
						ops = append(ops, fmt.Sprintf("getorset %s %s %d", k, v(), int64(3_600_000_000_000)))
					case 4:
						ops = append(ops, fmt.Sprintf("getorcompute %s %s %d", k, v(), int64(50)))
					default:
						ops = append(ops, "getanddelete "+k)
					}
				} else {
					ops = append(ops, fmt.Sprintf("set %s %s %d", k, v(), int64(5)), "tick 6")
				}
			}
			p.threads[i] = ops
		}
	case "sweeps":
		// cleanup passes that overlap or nest (C06): a warm-up pass that evicts at least two entries, then a batch
		// of expired entries swept by two passes at once, by a pass whose callback starts another pass (cb 8),
		// and by explicit deletes racing the passes
		if !isCache {
			break
		}
		p.cb = []int{1, 8, 8}[r.intn(3)]
		p.prefill = nil
		for i := 0; i < 2+r.intn(2); i++ {
			p.prefill = append(p.prefill, fmt.Sprintf("set w%d %s 5", i, v()))
		}
		p.prefill = append(p.prefill, "tick 6", "deleteexpired")
		nx := 2 + r.intn(3)
		for i := 0; i < nx; i++ {
			p.prefill = append(p.prefill, fmt.Sprintf("set x%d %s 5", i, v()))
		}
		if r.chance(1, 4) {
			// a bulk pass: more evicted entries than any plausible batch size, each reported to a callback that
			// writes to the cache again (the evicted key itself, or other keys)
			p.cb = []int{6, 9}[r.intn(2)]
			for i, top := nx, 66+r.intn(70); i < top; i++ {
				p.prefill = append(p.prefill, fmt.Sprintf("set x%d %s 5", i, v()))
			}
		}
		p.prefill = append(p.prefill, "tick 6")
		p.threads = [][]string{{"deleteexpired"}}
		if len(p.prefill) > 40 {
			if r.chance(1, 2) {
				p.threads = append(p.threads, []string{fmt.Sprintf("set y%d %s %d", r.intn(4), v(), int64(3_600_000_000_000))})
			}
			break
		}
		if r.chance(2, 3) {
			p.threads = append(p.threads, []string{"deleteexpired"})
		}
		if r.chance(1, 3) {
			p.threads = append(p.threads, []string{[]string{"delete", "getanddelete"}[r.intn(2)] + fmt.Sprintf(" x%d", r.intn(nx))})
		}
		if r.chance(1, 3) {
			// the callback is replaced (by itself) while passes are delivering
			p.threads = append(p.threads, []string{fmt.Sprintf("setevcb %d", p.cb)})
		}
	case "lazy":
		// every key is expired-but-uncleaned when the concurrent phase starts: lazy deletion on read and
		// DeleteExpired race writers that store fresh values
		p.prefill = nil
		for i := 0; i < nkeys; i++ {
			p.prefill = append(p.prefill, fmt.Sprintf("set k%d %s 5", i, v()))
		}
		p.prefill = append(p.prefill, "tick 6")
		for i := range p.threads {
			var ops []string
			for j := 0; j < 1+r.intn(2); j++ {
				k := key()
				if i%2 == 0 {
					ops = append(ops, []string{"get ", "getexp ", "getttl ", "get "}[r.intn(4)]+k)
					if r.chance(1, 4) {
						ops[len(ops)-1] = "deleteexpired"
					}
				} else {
					switch r.intn(5) {
					case 0:
						ops = append(ops, fmt.Sprintf("set %s %s %d", k, v(), int64(3_600_000_000_000)))
					case 1:
						ops = append(ops, fmt.Sprintf("getorset %s %s %d", k, v(), int64(3_600_000_000_000)))
					case 2:
						ops = append(ops, fmt.Sprintf("getandset %s %s %d", k, v(), int64(50)))
					case 3:
						ops = append(ops, fmt.Sprintf("compute %s s:%s s:%s %d", k, v(), v(), int64(3_600_000_000_000)))
					default:
						ops = append(ops, fmt.Sprintf("getorcompute %s %s %d", k, v(), int64(3_600_000_000_000)))
					}
				}
			}
			p.threads[i] = ops
		}
	case "range":
		// one traversal (sometimes with a re-entrant visitor) against writers
		stop := "*"
		if r.chance(1, 4) {
			stop = key()
		}
		p.small = 1 + r.intn(4)
		line := "range " + stop
		if r.chance(1, 2) {
			if isCache {
				line += fmt.Sprintf(" set extra%d %s %d;set extra%d %s %d;delete %s", r.intn(9), v(), int64(3_600_000_000_000), r.intn(9), v(), int64(3_600_000_000_000), key())
			} else {
				line += fmt.Sprintf(" store extra%d %s;store extra%d %s;delete %s;store extra%d %s", r.intn(9), v(), r.intn(9), v(), key(), r.intn(9), v())
			}
		}
		p.threads[0] = []string{line}
	case "racers":
		// k callers of a get-or-create call on one key
		k := key()
		for i := range p.threads {
			if isCache {
				if r.chance(1, 2) {
					p.threads[i] = []string{fmt.Sprintf("getorcompute %s %s %d", k, v(), dur())}
				} else {
					p.threads[i] = []string{fmt.Sprintf("getorset %s %s %d", k, v(), dur())}
				}
			} else {
				if r.chance(1, 2) {
					p.threads[i] = []string{fmt.Sprintf("loadorcompute %s %s", k, v())}
				} else {
					p.threads[i] = []string{fmt.Sprintf("loadorstore %s %s", k, v())}
				}
			}
		}
		if r.chance(1, 2) {
			// a writer to bucket mates that may trigger a grow in between
			var ops []string
			for j := 0; j < 2+r.intn(3); j++ {
				if isCache {
					ops = append(ops, fmt.Sprintf("set extra%d %s %d", j, v(), int64(3_600_000_000_000)))
				} else {
					ops = append(ops, fmt.Sprintf("store extra%d %s", j, v()))
				}
			}
			p.threads = append(p.threads, ops)
		}
	case "reader":
		// thread 0 only looks up (C16)
		var ops []string
		if !isCache {
			// keys no writer touches, stored last (in a colliding layout they sit in overflow buckets): the hit path of
			// LoadOrStore / LoadOrCompute on them is a lookup and must not wait either
			for i := 0; i < 3; i++ {
				p.prefill = append(p.prefill, fmt.Sprintf("store stable%d %s", i, v()))
			}
		}
		for j := 0; j < 2+r.intn(2); j++ {
			if isCache {
				ops = append(ops, []string{"get ", "getexp ", "getttl "}[r.intn(3)]+key())
			} else {
				switch r.intn(4) {
				case 0:
					ops = append(ops, fmt.Sprintf("loadorstore stable%d %s", r.intn(3), v()))
				case 1:
					ops = append(ops, fmt.Sprintf("loadorcompute stable%d %s", r.intn(3), v()))
				case 2:
					ops = append(ops, fmt.Sprintf("load stable%d", r.intn(3)))
				default:
					ops = append(ops, "load "+key())
				}
			}
		}
		if isCache {
			ops = append(ops, "count")
		} else {
			ops = append(ops, "size")
		}
		if r.chance(1, 3) {
			// the solo run covers the reader's first pending call: let that be Size / Count as well
			ops[0], ops[len(ops)-1] = ops[len(ops)-1], ops[0]
		}
		p.threads[0] = ops
		if !isCache {
			// the stable keys stay present: no writer clears the map in these programs (an absent key would send
			// LoadOrStore / LoadOrCompute down the writing path, which may wait)
			for i := 1; i < len(p.threads); i++ {
				for j, l := range p.threads[i] {
					if l == "clear" {
						p.threads[i][j] = "delete " + key()
					}
				}
			}
		}
	}
	return p
}

func (p *program) header() string {
	return fmt.Sprintf("prog kind=%s small=%d dflt=%d cb=%d hm=%d seed=%d now=%d", p.kind, p.small, p.dflt, p.cb, p.hashMd, p.seed, p.now)
}

// ---- one exploration -----------------------------------------------------------------------------------------

// protocol-level trace (M4a correspondence): classified events in execution order
type tracer struct {
	table, resizing, mu, growths, shrinks unsafe.Pointer
	evs                                   []string
	tid                                   func() int
	spin                                  bool // Map: the bucket lock is bit 0 of the word; MapOf uses a mutex
	unlocking                             bool
	m5                                    bool // cache-level trace (M5): only clock / setting events come through note
	dfltAddr, cbAddr                      unsafe.Pointer
}

func (tr *tracer) note(kind string, addr unsafe.Pointer, arg uint64) {
	tok := ""
	if tr.m5 {
		switch kind {
		case "Clock":
			tok = fmt.Sprintf("Clock %d", vshim.NowNanos())
		case "ValueLoad":
			if addr == tr.dfltAddr {
				tok = "LdDflt"
			} else if addr == tr.cbAddr {
				tok = "LdCb"
			}
		case "ValueStore":
			if addr == tr.dfltAddr {
				tok = "StDflt"
			} else if addr == tr.cbAddr {
				tok = "StCb"
			}
		}
		if tok != "" {
			tr.evs = append(tr.evs, fmt.Sprintf("ev %d %s", tr.tid(), tok))
		}
		return
	}
	switch kind {
	case "LoadPointer":
		if addr == tr.table {
			tok = "LdTable"
		}
	case "StorePointer":
		if addr == tr.table {
			tok = "StTable"
		} else {
			tok = "SlotStore"
		}
	case "StoreUint64":
		// word / meta store by the lock holder (the unlocking store of Map's spin lock is announced separately)
		if !tr.unlocking {
			tok = "SlotStore"
		}
		tr.unlocking = false
	case "LoadInt64":
		if addr == tr.resizing {
			tok = "LdResizing"
		} else {
			// a counter stripe: sumSize() reads them one atomic load at a time
			tok = "LdCtr"
		}
	case "StoreInt64":
		if addr == tr.resizing {
			tok = "StResizing"
		}
	case "CASInt64":
		if addr == tr.resizing {
			if arg == 1 {
				tok = "Cas ok"
			} else {
				tok = "Cas fail"
			}
		}
	case "AddInt64":
		if addr != tr.growths && addr != tr.shrinks {
			tok = fmt.Sprintf("AddSize %d", int64(arg))
		}
	case "SpinLock":
		if tr.spin {
			tok = "Lock"
		}
	case "SpinUnlock":
		if tr.spin {
			tok = "Unlock"
			tr.unlocking = true // the StoreUint64 note that follows is this very store
		}
	case "MutexLock":
		if addr == tr.mu {
			tok = "MuLock"
		} else {
			tok = "Lock"
		}
	case "MutexUnlock":
		if addr == tr.mu {
			tok = "MuUnlock"
		} else {
			tok = "Unlock"
		}
	case "CondPark":
		tok = "CondPark"
	case "Broadcast":
		tok = "Broadcast"
	}
	if tok != "" {
		tr.evs = append(tr.evs, fmt.Sprintf("ev %d %s", tr.tid(), tok))
	}
}

type outcome struct {
	order      []int
	protoTrace []string
	prog       *program
	strategy   int
	schedSd    uint64
	hist       []*opRec
	preRes     []string
	problem    string
	final      []string // quiescent observation lines
	steps      int
	cbLedger   []string
	solo       string
	trace      []string
}

// forcedSchedule, when set, is consumed by the next explore call (exact replay of a recorded schedule)
var forcedSchedule []int

func explore(p *program, strategy int, schedSeed uint64, budget int, keepTrace bool, freezeAt int) *outcome {
	if n := 400 * (len(p.prefill) + 8); n > budget {
		budget = n // long programs (bulk cleanup passes) need proportionally more steps
	}
	vshim.Hook = nil
	vshim.SetSeed(uint64(p.seed))
	vshim.HashMode = p.hashMd
	vshim.SetClock(p.now)
	var tr *tracer
	curTid := 9 // prefill runs as pseudo-thread 9
	isCacheKind := p.kind == "cache" || p.kind == "cacheof"
	m5sink = nil
	if keepTrace && isCacheKind {
		// M5 granularity: map calls (one step each), clock and setting reads, callbacks
		tr = &tracer{tid: func() int { return curTid }, m5: true}
		m5sink = func(e string) { tr.evs = append(tr.evs, fmt.Sprintf("ev %d %s", tr.tid(), e)) }
		vshim.Trace = tr.note
		defer func() { vshim.Trace = nil; m5sink = nil }()
	}
	tg := newTarget(p.kind, p.small, p.dflt, p.cb)
	if tr != nil && tr.m5 {
		tr.dfltAddr, tr.cbAddr = m5dflt, m5cb
		tg.c.onCb = func(k string, v interface{}) { m5sink(fmt.Sprintf("Cb %s %s", k, val(v))) }
	}
	out := &outcome{prog: p, strategy: strategy, schedSd: schedSeed}
	if keepTrace && !tg.isCache() {
		tr = &tracer{tid: func() int { return curTid }, spin: p.kind == "map"}
		tr.table, tr.resizing, tr.mu = tg.m.VerifAddrs()
		tr.growths, tr.shrinks = tg.m.VerifGrowthAddrs()
		vshim.Trace = tr.note
		defer func() { vshim.Trace = nil }()
	}
	// prefill, unscheduled
	for _, l := range p.prefill {
		if tr != nil && !strings.HasPrefix(l, "tick") {
			tr.evs = append(tr.evs, "ev 9 Start "+l)
		}
		f := strings.Fields(l)
		if f[0] == "tick" {
			vshim.Advance(atoi64(f[1]))
			out.preRes = append(out.preRes, "-")
			if tr != nil && tr.m5 {
				tr.evs = append(tr.evs, "ev 9 Tick "+f[1])
			}
			continue
		}
		var r string
		// the prefill runs outside the scheduler: a call that blocks there (a lock taken twice by a re-entrant
		// callback, say) would spin forever, so it runs under a watchdog
		fin := make(chan bool, 1)
		go func() {
			defer func() {
				if e := recover(); e != nil {
					r = fmt.Sprint("PANIC ", e)
				}
				fin <- true
			}()
			if tg.isCache() {
				r, _, _, _ = tg.cacheOp(f)
			} else {
				r, _, _ = tg.mapOp(f)
			}
		}()
		select {
		case <-fin:
		case <-time.After(10 * time.Second):
			out.problem = "HANG: the single-threaded call `" + l + "` of the prefill did not return (self-deadlock)"
			for len(out.preRes) < len(p.prefill) {
				out.preRes = append(out.preRes, "?")
			}
			return out
		}
		if strings.HasPrefix(r, "PANIC") {
			out.problem = r + " in prefill call `" + l + "`"
			for len(out.preRes) < len(p.prefill) {
				out.preRes = append(out.preRes, "?")
			}
			return out
		}
		if tr != nil {
			tr.evs = append(tr.evs, "ev 9 Ret "+r)
		}
		out.preRes = append(out.preRes, r)
	}
	if tg.isCache() {
		tg.c.cbs = nil
	}
	s := &sched{r: newRng(schedSeed), keepTr: false, forced: forcedSchedule, exh: schedSeed}
	forcedSchedule = nil
	if tr != nil {
		tr.tid = func() int {
			if s.cur != nil {
				return s.cur.id
			}
			return 9
		}
	}
	curOpDone := map[int]*bool{}
	for i, ops := range p.threads {
		i, ops := i, ops
		s.spawn(i, ops, func(t *sthread) {
			for _, l := range ops {
				vshim.Park("op-start")
				done := false
				curOpDone[i] = &done
				before := 0
				if tg.isCache() {
					before = len(tg.c.cbs)
				}
				if tr != nil {
					tr.evs = append(tr.evs, fmt.Sprintf("ev %d Start %s", i, l))
				}
				rec := tg.opExec(s, t, l)
				if tr != nil {
					tr.evs = append(tr.evs, fmt.Sprintf("ev %d Ret %s", i, rec.res))
				}
				if tg.isCache() {
					// callbacks fired while this call ran on this thread (only one thread runs at a time, and a
					// callback runs on the thread of the call that fires it) -- attribute by interval
					rec.cbs = append([]string(nil), tg.c.cbs[before:]...)
				}
				done = true
				s.hist = append(s.hist, rec)
			}
		})
	}
	vshim.Hook = s.hook
	if freezeAt >= 0 {
		// C16: run a random prefix, then freeze everybody but the reader thread 0, which must finish its
		// current (or next) lookup alone within a bounded number of its own steps
		for _, t := range s.threads {
			s.step(t)
		}
		// in half of the runs the reader is stopped in the MIDDLE of a lookup (after a few of its own atomic actions):
		// the others then run on - updating the very entry it is reading, taking bucket locks, resizing - before they are
		// frozen, and the reader must still finish that lookup alone
		if rd0 := s.threads[0]; s.r.chance(1, 2) {
			for k := 1 + s.r.intn(14); k > 0 && !rd0.done && rd0.runnable(); k-- {
				s.step(rd0)
			}
		}
		for s.steps < freezeAt {
			var rs []*sthread
			for _, t := range s.threads[1:] {
				if t.runnable() {
					rs = append(rs, t)
				}
			}
			if len(rs) == 0 {
				break
			}
			s.step(rs[s.r.intn(len(rs))])
		}
		rd := s.threads[0]
		if !rd.done {
			nDone := len(s.hist)
			n := s.soloFinish(rd, 400, func() bool {
				cnt := 0
				for _, h := range s.hist {
					if h.tid == 0 {
						cnt++
					}
				}
				_ = nDone
				return cnt >= 1 && rd.pending != nil && rd.pending.Kind == "User:op-start" || rd.done
			})
			if n < 0 {
				pk := "?"
				if rd.pending != nil {
					pk = rd.pending.Kind
				}
				out.solo = fmt.Sprintf("SOLO-STUCK: reader could not finish its lookup alone (pending %s) while the others were frozen after %d steps", pk, s.steps)
			} else {
				out.solo = fmt.Sprintf("solo-ok %d", n)
			}
		}
		// let everything finish
		s.threads = s.threads // unchanged
	}
	if out.solo == "" || strings.HasPrefix(out.solo, "solo-ok") {
		// continue (or start) the normal exploration
		if freezeAt >= 0 {
			s.runFrom(strategy, budget)
		} else {
			s.run(strategy, budget)
		}
	}
	vshim.Hook = nil
	out.problem = s.problem
	out.order = s.order
	out.hist = s.hist
	out.steps = s.steps
	out.trace = s.trace
	if tr != nil {
		out.protoTrace = tr.evs
	}
	if tg.isCache() {
		out.cbLedger = append([]string(nil), tg.c.cbs...)
	}
	if s.problem == "" && !strings.HasPrefix(out.solo, "SOLO-STUCK") {
		out.final = tg.quiescent()
	}
	return out
}

// runFrom continues an exploration whose threads are already at a yield point.
func (s *sched) runFrom(strategy int, budget int) {
	saved := s.threads
	// run() starts by stepping every thread to its first yield; they are already there, so inline the loop
	tmp := &sched{}
	_ = tmp
	s.threads = saved
	for s.steps < budget {
		var rs []*sthread
		alive := false
		for _, t := range s.threads {
			if !t.done {
				alive = true
				if t.runnable() {
					rs = append(rs, t)
				}
			}
		}
		if !alive {
			return
		}
		if len(rs) == 0 {
			s.problem = "DEADLOCK: no thread can move"
			return
		}
		s.step(rs[s.r.intn(len(rs))])
		if s.problem != "" {
			return
		}
	}
	s.problem = fmt.Sprintf("STEP-BUDGET: %d steps without completion", budget)
}

// quiescent observation after all threads finished (Hook off): every op must still work (no leaked lock),
// and the physical size must agree with what a traversal and point lookups see.
func (tg *target) quiescent() []string {
	var res []string
	done := make(chan bool, 1)
	go func() {
		defer func() {
			if e := recover(); e != nil {
				res = append(res, fmt.Sprint("PANIC ", e))
			}
			done <- true
		}()
		if tg.isCache() {
			c := tg.c.c
			n := c.Count()
			// raw traversal of the underlying map is not available through the API; Items() shows live entries
			items := c.Items()
			res = append(res, fmt.Sprintf("count=%d live=%d", n, len(items)))
			res = append(res, "items "+sortedPairs(items))
			c.DeleteExpired()
			n2 := c.Count()
			res = append(res, fmt.Sprintf("count-after-deleteexpired=%d", n2))
			for k, v := range items {
				g, ok := c.Get(k)
				if !ok || g != v {
					res = append(res, fmt.Sprintf("BAD-final-get %s: items says %v, Get says %v,%v", k, v, g, ok))
				}
			}
			// every key must still be writable (no leaked bucket lock)
			for i := 0; i < 8; i++ {
				c.Set(fmt.Sprintf("zz%d", i), 1, -2_000_000_000)
			}
			c.Clear()
			res = append(res, fmt.Sprintf("count-after-clear=%d", c.Count()))
		} else {
			m := tg.m
			n := m.Size()
			seen := map[string]interface{}{}
			dup := false
			m.Range(func(k string, v interface{}) bool {
				if _, ok := seen[k]; ok {
					dup = true
				}
				seen[k] = v
				return true
			})
			res = append(res, fmt.Sprintf("size=%d range=%d dup=%v", n, len(seen), dup))
			res = append(res, "items "+sortedPairs(seen))
			for k, v := range seen {
				g, ok := m.Load(k)
				if !ok || g != v {
					res = append(res, fmt.Sprintf("BAD-final-load %s: range says %v, Load says %v,%v", k, v, g, ok))
				}
			}
			for i := 0; i < 8; i++ {
				m.Store(fmt.Sprintf("zz%d", i), 1)
			}
			m.Clear()
			res = append(res, fmt.Sprintf("size-after-clear=%d", m.Size()))
		}
	}()
	select {
	case <-done:
	case <-time.After(5 * time.Second):
		res = append(res, "HANG: a call on the quiescent container did not return (leaked lock or stuck resize flag)")
	}
	return res
}

// ---- monitors (Go side); linearizability itself is checked by the Lean driver against Spec ---------------

func (o *outcome) monitors() []string {
	var bad []string
	if o.problem != "" {
		bad = append(bad, o.problem)
	}
	if strings.HasPrefix(o.solo, "SOLO-STUCK") {
		bad = append(bad, o.solo)
	}
	isCache := o.prog.kind == "cache" || o.prog.kind == "cacheof"
	for _, f := range o.final {
		if strings.HasPrefix(f, "BAD") || strings.HasPrefix(f, "HANG") || strings.HasPrefix(f, "PANIC") {
			bad = append(bad, f)
		}
		if strings.HasPrefix(f, "size=") {
			var n, rg int
			var dup bool
			fmt.Sscanf(f, "size=%d range=%d dup=%v", &n, &rg, &dup)
			if n != rg || dup {
				bad = append(bad, "SIZE: at quiescence "+f)
			}
		}
		if strings.HasPrefix(f, "count=") {
			var n, live int
			fmt.Sscanf(f, "count=%d live=%d", &n, &live)
			if n < live {
				bad = append(bad, "COUNT: under-reports live entries: "+f)
			}
		}
		if strings.HasPrefix(f, "count-after-deleteexpired=") {
			var n2, live int
			fmt.Sscanf(f, "count-after-deleteexpired=%d", &n2)
			for _, g := range o.final {
				if strings.HasPrefix(g, "count=") {
					var n int
					fmt.Sscanf(g, "count=%d live=%d", &n, &live)
				}
			}
			if n2 != live {
				bad = append(bad, fmt.Sprintf("COUNT: after DeleteExpired count=%d but live=%d", n2, live))
			}
		}
		if f == "size-after-clear=0" || f == "count-after-clear=0" {
			continue
		}
		if strings.HasPrefix(f, "size-after-clear=") || strings.HasPrefix(f, "count-after-clear=") {
			bad = append(bad, "CLEAR: "+f)
		}
	}
	// user-function invocation counts (C05)
	for _, h := range o.hist {
		f := strings.Fields(h.op)
		switch f[0] {
		case "compute":
			if h.fnCalls != 1 {
				bad = append(bad, fmt.Sprintf("FN: Compute invoked its function %d times: %s", h.fnCalls, h.op))
			}
		case "loadorcompute", "getorcompute":
			loaded := strings.Contains(h.res, "ok=true")
			if (loaded && h.fnCalls != 0) || (!loaded && h.fnCalls != 1) {
				bad = append(bad, fmt.Sprintf("FN: %s invoked its function %d times with result %s", f[0], h.fnCalls, h.res))
			}
		}
	}
	// callback ledger (C06): at most once per stored value (values are unique per store); key matches
	if isCache {
		seen := map[string]bool{}
		seenVal := map[string]string{}
		for _, c := range o.cbLedger {
			if seen[c] {
				bad = append(bad, "CALLBACK: fired twice: "+c)
			}
			seen[c] = true
			// every store writes a value of its own, so one value is reported at most once and under one key (callback 9
			// itself stores the evicted value again under a second key: not judged)
			if p := strings.SplitN(c, ":", 3); len(p) == 3 && o.prog.cb != 9 {
				if c0, dup := seenVal[p[2]]; dup && c0 != c {
					bad = append(bad, "CALLBACK: one stored value reported under two keys (an entry was reported with another entry's value): "+c0+" and "+c)
				}
				seenVal[p[2]] = c
			}
		}
		// a loaded GetAndDelete fires its value exactly once when a callback is installed
		for _, h := range o.hist {
			f := strings.Fields(h.op)
			if f[0] == "getanddelete" && strings.Contains(h.res, "ok=true") && o.prog.cb != 0 {
				v := strings.TrimPrefix(strings.Fields(h.res)[0], "v=")
				want := fmt.Sprintf("%d:%s:%s", o.prog.cb, f[1], v)
				n := 0
				for _, c := range h.cbs {
					if c == want {
						n++
					}
				}
				if n != 1 {
					bad = append(bad, fmt.Sprintf("CALLBACK: GetAndDelete %s returned %s but fired %v", f[1], h.res, h.cbs))
				}
			}
		}
		// a fired value must not be retrievable at the end
		for _, f := range o.final {
			if strings.HasPrefix(f, "items ") {
				for c := range seen {
					p := strings.SplitN(c, ":", 3)
					if strings.Contains(f, " "+p[1]+":"+p[2]+" ") || strings.Contains(f, "["+p[1]+":"+p[2]+" ") ||
						strings.Contains(f, " "+p[1]+":"+p[2]+"]") || strings.Contains(f, "["+p[1]+":"+p[2]+"]") {
						bad = append(bad, "CALLBACK: fired for a value that is still retrievable: "+c)
					}
				}
			}
		}
	}
	// default TTL replaced while calls that use it are in flight (C09, programs of focus=settings: threads made of
	// `setdefexp` only).  Set reads the default before it stores, so these histories need not be linearizable
	// against the atomic TTL semantics; what must hold for every value stored with the DefaultExpiration sentinel:
	// it is there (nobody deletes, the clock stands still) and its instant is "never" or clock + D for a positive
	// default D that was in force at some moment of the run - never a mixture of two readings
	if isCache && o.problem == "" {
		settingsProg := false
		defaults := map[int64]bool{o.prog.dflt: true}
		for _, th := range o.prog.threads {
			for _, l := range th {
				f := strings.Fields(l)
				if f[0] == "setdefexp" {
					settingsProg = true
					defaults[atoi64(f[1])] = true
				}
			}
		}
		if settingsProg {
			for _, h := range o.hist {
				f := strings.Fields(h.op)
				if f[0] != "getexp" {
					continue
				}
				if !strings.Contains(h.res, "ok=true") {
					bad = append(bad, "EXPIRY: a value stored with the default TTL is reported absent: "+h.op+" -> "+h.res)
					continue
				}
				var e int64
				for _, x := range strings.Fields(h.res) {
					if strings.HasPrefix(x, "e=") {
						e = atoi64(x[2:])
					}
				}
				okE := e == 0
				for d := range defaults {
					if d > 0 && e == o.prog.now+d {
						okE = true
					}
				}
				if !okE {
					bad = append(bad, fmt.Sprintf("EXPIRY: %s -> %s: the instant is neither 'never' nor clock + a default that was in force", h.op, h.res))
				}
			}
		}
	}
	// cleanup passes (C06, programs of focus=sweeps: a `deleteexpired` in the prefill): every entry stored after
	// the warm-up pass has expired before the threads start, nobody overwrites it, and every thread that sweeps
	// or deletes runs to completion: each of them must have been reported to the callback exactly once
	if isCache && o.prog.cb != 0 && o.problem == "" {
		last := -1
		for i, l := range o.prog.prefill {
			if l == "deleteexpired" {
				last = i
			}
		}
		if last >= 0 {
			for _, l := range o.prog.prefill[last+1:] {
				f := strings.Fields(l)
				if f[0] != "set" {
					continue
				}
				want := fmt.Sprintf("%d:%s:%s", o.prog.cb, f[1], f[2])
				n := 0
				for _, c := range o.cbLedger {
					if c == want {
						n++
					}
				}
				if n == 0 {
					bad = append(bad, "CALLBACK: entry removed by a cleanup pass was never reported: "+want+" (ledger "+strings.Join(o.cbLedger, " ")+")")
				}
			}
		}
	}
	// traversals (C07)
	bad = append(bad, o.rangeMonitor()...)
	return bad
}

// rangeMonitor: at most once per key; every visited pair was stored under that key by a write that was
// invoked before the traversal returned and not definitely overwritten/removed before it began; every key
// that is present for the whole traversal (prefilled and never touched by any concurrent writer) is visited.
func (o *outcome) rangeMonitor() []string {
	var bad []string
	isCache := o.prog.kind == "cache" || o.prog.kind == "cacheof"
	for _, h := range o.hist {
		if !strings.HasPrefix(h.op, "range ") {
			continue
		}
		f := strings.Fields(h.op)
		keys := map[string]string{}
		for _, kv := range h.visits {
			p := strings.SplitN(kv, ":", 2)
			if _, dup := keys[p[0]]; dup {
				bad = append(bad, "RANGE: key visited twice: "+p[0]+" in "+strings.Join(h.visits, " "))
			}
			keys[p[0]] = p[1]
		}
		// stop rule
		for i, kv := range h.visits {
			if strings.SplitN(kv, ":", 2)[0] == f[1] && i != len(h.visits)-1 {
				bad = append(bad, "RANGE: visitor called again after returning false")
			}
		}
		// provenance of every visited value
		writes := map[string]string{}   // value -> key, from prefill and all ops (values are unique)
		reWrites := map[string]string{} // base value of a re-entrant store (3 digits are appended per visit) -> key
		collect := func(op string) {
			g := strings.Fields(op)
			switch g[0] {
			case "store", "loadorstore", "loadandstore", "loadorcompute", "set", "setdefault", "getorset", "getandset", "getorcompute":
				writes[g[2]] = g[1]
			case "compute":
				for _, a := range g[2:4] {
					if strings.HasPrefix(a, "s:") {
						writes[a[2:]] = g[1]
					}
				}
			case "range":
				if len(g) > 2 {
					for _, re := range strings.Split(strings.Join(g[2:], " "), ";") {
						rf := strings.Fields(re)
						if len(rf) >= 3 && (rf[0] == "store" || rf[0] == "set") {
							reWrites[rf[2]] = rf[1]
						}
					}
				}
			}
		}
		for _, l := range o.prog.prefill {
			collect(l)
		}
		for _, th := range o.prog.threads {
			for _, l := range th {
				collect(l)
			}
		}
		for k, v := range keys {
			if len(v) > 3 {
				if wk, ok := reWrites[v[:len(v)-3]]; ok && wk == k {
					continue
				}
			}
			if wk, ok := writes[v]; !ok || wk != k {
				bad = append(bad, fmt.Sprintf("RANGE: visited %s:%s but that value was never stored under that key", k, v))
			}
		}
		// stable keys: prefilled, live (for caches: never-expiring or long TTL), untouched by every thread
		if f[1] == "*" && len(f) == 2 {
			touched := map[string]bool{}
			cleared := false
			for ti, th := range o.prog.threads {
				_ = ti
				for _, l := range th {
					g := strings.Fields(l)
					if g[0] == "clear" {
						cleared = true
					}
					if len(g) > 1 {
						touched[g[1]] = true
					}
				}
			}
			if !cleared {
				last := map[string]string{}
				for _, l := range o.prog.prefill {
					g := strings.Fields(l)
					if g[0] == "store" {
						last[g[1]] = g[2]
					}
					if g[0] == "set" {
						if isCache && g[3] == "5" {
							delete(last, g[1]) // short TTL: may be expired
						} else {
							last[g[1]] = g[2]
						}
					}
				}
				for k, v := range last {
					if touched[k] {
						continue
					}
					if got, ok := keys[k]; !ok || got != v {
						bad = append(bad, fmt.Sprintf("RANGE: stable entry %s:%s was not visited (visits: %s)", k, v, strings.Join(h.visits, " ")))
					}
				}
			}
		}
	}
	return bad
}

// ---- driver: generate programs x schedules, write histories for the Lean linearizability checker --------------

func (o *outcome) write(w *bufio.Writer, id int) {
	fmt.Fprintf(w, "hist %d %s strategy=%d sched=%d steps=%d\n", id, o.prog.header(), o.strategy, o.schedSd, o.steps)
	for i, l := range o.prog.prefill {
		fmt.Fprintf(w, "pre %s => %s\n", l, o.preRes[i])
	}
	sort.Slice(o.hist, func(i, j int) bool { return o.hist[i].inv < o.hist[j].inv })
	for _, h := range o.hist {
		fmt.Fprintf(w, "op %d %d %d | %s | %s\n", h.tid, h.inv, h.resp, h.op, h.res)
	}
	for _, f := range o.final {
		fmt.Fprintf(w, "final %s\n", f)
	}
	for i, th := range o.prog.threads {
		for _, l := range th {
			fmt.Fprintf(w, "thread %d %s\n", i, l)
		}
	}
	var ids []string
	for _, x := range o.order {
		ids = append(ids, fmt.Sprint(x))
	}
	fmt.Fprintf(w, "sched %s\n", strings.Join(ids, " "))
	fmt.Fprintln(w, "end")
}

func schedMode(a map[string]string) {
	seed := argInt(a, "seed", 1)
	nprog := argInt(a, "nprog", 50)
	nsched := argInt(a, "nsched", 8)
	kind := argStr(a, "kind", "map")
	focus := argStr(a, "focus", "")
	outdir := argStr(a, "out", ".")
	budget := argInt(a, "budget", 6000)
	exh := argInt(a, "exh", 0) // number of programs explored exhaustively with one pre-emption
	nExh := 0
	wantTrace := argInt(a, "trace", 0) == 1
	tf, _ := os.Create(outdir + "/trace.txt")
	tw := bufio.NewWriter(tf)
	defer func() { tw.Flush(); tf.Close() }()
	hf, _ := os.Create(outdir + "/hist.txt")
	bf, _ := os.Create(outdir + "/monitors.txt")
	hw, bw := bufio.NewWriter(hf), bufio.NewWriter(bf)
	defer func() { hw.Flush(); bw.Flush(); hf.Close(); bf.Close() }()
	r := newRng(uint64(seed))
	id := 0
	nSwitch := 0
	stuck := 0
	for p := 0; p < nprog; p++ {
		prog := genProgram(r, kind, focus)
		for sidx := 0; sidx < nsched; sidx++ {
			strategy := []int{0, 1, 2, 3, 6}[sidx%5]
			ss := r.next()
			freeze := -1
			if focus == "reader" {
				freeze = r.intn(150)
			}
			o := explore(prog, strategy, ss, budget, wantTrace, freeze)
			id++
			o.write(hw, id)
			if wantTrace && o.protoTrace != nil && o.problem == "" {
				fmt.Fprintf(tw, "trace %d %s\n", id, prog.header())
				for _, e := range o.protoTrace {
					fmt.Fprintln(tw, e)
				}
				fmt.Fprintln(tw, "end")
			}
			nSwitch += o.steps
			for _, b := range o.monitors() {
				fmt.Fprintf(bw, "%d %s\n", id, b)
				if strings.HasPrefix(b, "DEADLOCK") || strings.HasPrefix(b, "HANG") || strings.HasPrefix(b, "STEP-BUDGET") || strings.HasPrefix(b, "PANIC") {
					stuck++
				}
			}
		}
		if p < exh && stuck == 0 && focus != "reader" {
			// bounded-exhaustive: every schedule of this program with exactly one pre-emption (each thread stopped
			// after each number of its own steps, the others then run to completion)
			base := explore(prog, 5, 0+16*(1<<30), budget, false, -1)
			nsteps := map[int]int{}
			for _, t := range base.order {
				nsteps[t]++
			}
			for first := 0; first < len(prog.threads) && first < 16 && stuck == 0; first++ {
				for k := 1; k < nsteps[first] && k <= 150 && stuck == 0; k++ { // the first 150 steps of a long thread
					o := explore(prog, 5, uint64(first)+16*uint64(k), budget, wantTrace, -1)
					id++
					o.write(hw, id)
					if wantTrace && o.protoTrace != nil && o.problem == "" {
						fmt.Fprintf(tw, "trace %d %s\n", id, prog.header())
						for _, e := range o.protoTrace {
							fmt.Fprintln(tw, e)
						}
						fmt.Fprintln(tw, "end")
					}
					nSwitch += o.steps
					nExh++
					for _, b := range o.monitors() {
						fmt.Fprintf(bw, "%d %s\n", id, b)
						if strings.HasPrefix(b, "DEADLOCK") || strings.HasPrefix(b, "HANG") || strings.HasPrefix(b, "STEP-BUDGET") || strings.HasPrefix(b, "PANIC") {
							stuck++
						}
					}
				}
			}
		}
		// schedules that end stuck leave their goroutines behind (blocked or spinning): a handful is enough
		if stuck >= 6 {
			break
		}
	}
	fmt.Fprintf(bw, "# explored %d schedules, %d scheduled steps\n", id, nSwitch)
	fmt.Fprintf(bw, "# exhaustive-one-preemption schedules: %d\n", nExh)
}

// schedReplay re-runs recorded programs with their exact schedules (corpus of past failures, replays):
// file format = blocks of the history file ("hist … prog k=v…", "pre …", "thread i op", "sched ids…", "end").
func schedReplay(a map[string]string) {
	outdir := argStr(a, "out", ".")
	f, err := os.Open(argStr(a, "file", ""))
	if err != nil {
		panic(err)
	}
	hf, _ := os.Create(outdir + "/hist.txt")
	bf, _ := os.Create(outdir + "/monitors.txt")
	hw, bw := bufio.NewWriter(hf), bufio.NewWriter(bf)
	defer func() { hw.Flush(); bw.Flush(); hf.Close(); bf.Close() }()
	wantTrace := argInt(a, "trace", 0) == 1
	tf, _ := os.Create(outdir + "/trace.txt")
	tw := bufio.NewWriter(tf)
	defer func() { tw.Flush(); tf.Close() }()
	sc := bufio.NewScanner(f)
	sc.Buffer(make([]byte, 1<<20), 1<<24)
	var p *program
	var order []int
	id := 0
	for sc.Scan() {
		l := strings.TrimSpace(sc.Text())
		t := strings.Fields(l)
		if len(t) == 0 {
			continue
		}
		switch t[0] {
		case "hist":
			p = &program{}
			order = nil
			for _, kvs := range t {
				if i := strings.Index(kvs, "="); i > 0 {
					k, v := kvs[:i], kvs[i+1:]
					switch k {
					case "kind":
						p.kind = v
					case "small":
						p.small = int(atoi64(v))
					case "dflt":
						p.dflt = atoi64(v)
					case "cb":
						p.cb = int(atoi64(v))
					case "hm":
						p.hashMd = int(atoi64(v))
					case "seed":
						p.seed = int(atoi64(v))
					case "now":
						p.now = atoi64(v)
					}
				}
			}
		case "pre":
			p.prefill = append(p.prefill, strings.Split(strings.TrimPrefix(l, "pre "), " => ")[0])
		case "thread":
			i := int(atoi64(t[1]))
			for len(p.threads) <= i {
				p.threads = append(p.threads, nil)
			}
			p.threads[i] = append(p.threads[i], strings.Join(t[2:], " "))
		case "sched":
			for _, x := range t[1:] {
				order = append(order, int(atoi64(x)))
			}
		case "end":
			if p != nil && len(p.threads) > 0 {
				forcedSchedule = order
				o := explore(p, 0, 1, 20000, wantTrace, -1)
				id++
				o.write(hw, id)
				if wantTrace && o.protoTrace != nil && o.problem == "" {
					fmt.Fprintf(tw, "trace %d %s\n", id, p.header())
					for _, e := range o.protoTrace {
						fmt.Fprintln(tw, e)
					}
					fmt.Fprintln(tw, "end")
				}
				for _, b := range o.monitors() {
					fmt.Fprintf(bw, "%d %s\n", id, b)
				}
			}
			p = nil
		}
	}
	fmt.Fprintf(bw, "# explored %d schedules, 0 scheduled steps\n", id)
}

func init() { modes["sched"] = schedMode; modes["schedreplay"] = schedReplay }
