package main

// Native parallel modes (real goroutines, real scheduler):
//   race    - C14: all four containers under concurrent API use with pointer payloads; built with -race
//   janitor - C15: janitor enabled iff interval > 0, cleans on its own, dies with the cache

import (
	"fmt"
	"os"
	"runtime"
	"sync"
	"sync/atomic"
	"time"

	"github.com/fufuok/cache"
	"github.com/fufuok/cache/internal/vshim"
)

type payload struct {
	a, b int
	s    string
}

func newPayload(n int) *payload { return &payload{a: n, b: n, s: fmt.Sprint(n)} }

func checkPayload(v interface{}, where string, bad *int64) {
	if v == nil {
		return
	}
	p, ok := v.(*payload)
	if !ok || p == nil {
		return
	}
	if p.a != p.b || p.s != fmt.Sprint(p.a) {
		atomic.AddInt64(bad, 1)
		fmt.Printf("BAD-publication %s: payload fields differ: %d %d %q\n", where, p.a, p.b, p.s)
	}
}

func raceMode(a map[string]string) {
	seed := argInt(a, "seed", 1)
	ms := argInt(a, "ms", 300)
	vshim.RealClock()
	var bad int64
	r0 := newRng(uint64(seed))
	for round := 0; round < argInt(a, "rounds", 4); round++ {
		// the four containers of a round run at the same time (state shared between containers - package-level
		// variables, the seed source - is exercised too), next to a goroutine that keeps creating, growing and
		// clearing short-lived containers
		var outer sync.WaitGroup
		churnStop := make(chan struct{})
		outer.Add(1)
		go func() {
			defer outer.Done()
			for i := 0; ; i++ {
				select {
				case <-churnStop:
					return
				default:
				}
				mm := newMapInst([]string{"map", "mapof"}[i%2], -999999, false, false)
				for j := 0; j < 200; j++ {
					mm.Store(fmt.Sprint("c", j), j)
				}
				mm.Clear()
				cc := cache.New(cache.WithCleanupInterval(0))
				cc.Set("x", i, time.Hour)
				cc.Clear()
			}
		}()
		var kindsWg sync.WaitGroup
		for _, kind := range []string{"cache", "cacheof", "map", "mapof"} {
			kind := kind
			ng := []int{2, 4, 8, 16, 32}[r0.intn(5)]
			nkeys := []int{4, 40, 400, 4000}[r0.intn(4)]
			kindsWg.Add(1)
			go func() {
				defer kindsWg.Done()
				var wg sync.WaitGroup
				stop := make(chan struct{})
				isCache := kind == "cache" || kind == "cacheof"
				var c cacheAPI
				var m mapAPI
				if isCache {
					cb := func(k string, v interface{}) { checkPayload(v, "callback", &bad) }
					if kind == "cache" {
						c = plain{cache.New(cache.WithCleanupInterval(time.Millisecond), cache.WithDefaultExpiration(2*time.Millisecond), cache.WithEvictedCallback(cb), cache.WithMinCapacity(1))}
					} else {
						c = generic{cache.NewOf[string, interface{}](cache.WithCleanupIntervalOf[string, interface{}](time.Millisecond),
							cache.WithDefaultExpirationOf[string, interface{}](2*time.Millisecond), cache.WithEvictedCallbackOf[string, interface{}](cb), cache.WithMinCapacityOf[string, interface{}](1))}
					}
				} else {
					m = newMapInst(kind, -999999, false, false)
				}
				// a round lasts `ms` milliseconds AND at least `minops` operations per goroutine: on a loaded machine the
				// round takes longer instead of exercising less (the counts are read after wg.Wait, no extra
				// synchronisation inside the loop)
				minOps := argInt(a, "minops", 0)
				ops := make([]int, ng)
				for gi := 0; gi < ng; gi++ {
					wg.Add(1)
					go func(gi int) {
						defer wg.Done()
						r := newRng(uint64(seed*1000 + round*100 + gi))
						n := gi * 1_000_000
						defer func() { ops[gi] = n - gi*1_000_000 }()
						for {
							if n-gi*1_000_000 >= minOps {
								select {
								case <-stop:
									return
								default:
								}
							}
							n++
							k := fmt.Sprintf("k%d", r.intn(nkeys))
							if isCache {
								d := []time.Duration{cache.DefaultExpiration, cache.NoExpiration, time.Millisecond, time.Hour}[r.intn(4)]
								switch r.intn(22) {
								case 0, 1, 2:
									c.Set(k, newPayload(n), d)
								case 3, 4, 5:
									v, _ := c.Get(k)
									checkPayload(v, "Get", &bad)
								case 6:
									v, _, _ := c.GetWithExpiration(k)
									checkPayload(v, "GetWithExpiration", &bad)
								case 7:
									v, _, _ := c.GetWithTTL(k)
									checkPayload(v, "GetWithTTL", &bad)
								case 8:
									v, _ := c.GetOrSet(k, newPayload(n), d)
									checkPayload(v, "GetOrSet", &bad)
								case 9:
									v, _ := c.GetAndSet(k, newPayload(n), d)
									checkPayload(v, "GetAndSet", &bad)
								case 10:
									v, _ := c.GetAndRefresh(k, d)
									checkPayload(v, "GetAndRefresh", &bad)
								case 11:
									v, _ := c.GetOrCompute(k, func() interface{} { return newPayload(n) }, d)
									checkPayload(v, "GetOrCompute", &bad)
								case 12:
									v, _ := c.Compute(k, func(old interface{}, ok bool) (interface{}, bool) {
										checkPayload(old, "Compute-old", &bad)
										return newPayload(n), n%5 == 0
									}, d)
									checkPayload(v, "Compute", &bad)
								case 13:
									v, _ := c.GetAndDelete(k)
									checkPayload(v, "GetAndDelete", &bad)
								case 14:
									c.Delete(k)
								case 15:
									c.DeleteExpired()
								case 16:
									c.Range(func(k string, v interface{}) bool { checkPayload(v, "Range", &bad); return true })
								case 17:
									for _, v := range c.Items() {
										checkPayload(v, "Items", &bad)
									}
								case 18:
									c.SetDefaultExpiration([]time.Duration{time.Millisecond, time.Hour, 0}[r.intn(3)])
									_ = c.DefaultExpiration()
								case 19:
									if r.chance(1, 2) {
										c.SetCallback(func(k string, v interface{}) { checkPayload(v, "callback2", &bad) })
									} else {
										c.SetCallback(nil)
									}
									_ = c.HasCallback()
								case 20:
									_ = c.Count()
								case 21:
									if r.chance(1, 50) {
										c.Clear()
									}
								}
							} else {
								switch r.intn(14) {
								case 0, 1, 2:
									m.Store(k, newPayload(n))
								case 3, 4, 5:
									v, _ := m.Load(k)
									checkPayload(v, "Load", &bad)
								case 6:
									v, _ := m.LoadOrStore(k, newPayload(n))
									checkPayload(v, "LoadOrStore", &bad)
								case 7:
									v, _ := m.LoadAndStore(k, newPayload(n))
									checkPayload(v, "LoadAndStore", &bad)
								case 8:
									v, _ := m.LoadOrCompute(k, func() interface{} { return newPayload(n) })
									checkPayload(v, "LoadOrCompute", &bad)
								case 9:
									v, _ := m.Compute(k, func(old interface{}, ok bool) (interface{}, bool) {
										checkPayload(old, "Compute-old", &bad)
										return newPayload(n), n%5 == 0
									})
									checkPayload(v, "Compute", &bad)
								case 10:
									v, _ := m.LoadAndDelete(k)
									checkPayload(v, "LoadAndDelete", &bad)
								case 11:
									m.Delete(k)
								case 12:
									m.Range(func(k string, v interface{}) bool { checkPayload(v, "Range", &bad); return true })
								case 13:
									_ = m.Size()
									if r.chance(1, 100) {
										m.Clear()
									}
								}
							}
						}
					}(gi)
				}
				// the tide: one more goroutine grows the shared container far beyond its minimum and drains it again, over
				// and over, while the others keep writing their keys - grow and shrink windows with concurrent writers
				// on the same chains (at least two full tides per round)
				wg.Add(1)
				go func() {
					defer wg.Done()
					for tide := 0; ; tide++ {
						if tide >= 2 {
							select {
							case <-stop:
								return
							default:
							}
						}
						for j := 0; j < 600; j++ {
							tk := fmt.Sprint("tide", j)
							if isCache {
								c.Set(tk, newPayload(j), time.Hour)
							} else {
								m.Store(tk, newPayload(j))
							}
						}
						for j := 0; j < 600; j++ {
							tk := fmt.Sprint("tide", j)
							if isCache {
								c.Delete(tk)
							} else {
								m.Delete(tk)
							}
						}
					}
				}()
				time.Sleep(time.Duration(ms) * time.Millisecond)
				close(stop)
				wg.Wait()
				tot, least := 0, -1
				for _, o := range ops {
					tot += o
					if least < 0 || o < least {
						least = o
					}
				}
				fmt.Printf("round %d kind=%s goroutines=%d keys=%d ops=%d least=%d done\n", round, kind, ng, nkeys, tot, least)
			}()
		}
		kindsWg.Wait()
		close(churnStop)
		outer.Wait()
	}
	if bad > 0 {
		os.Exit(3)
	}
	fmt.Println("race-mode-ok")
}

// ---- janitor ------------------------------------------------------------------------------------------------

func janitorMode(a map[string]string) {
	vshim.RealClock()
	vshim.TickerScale = 10000 // a configured 10 s interval ticks every millisecond
	bad := 0
	type ctor struct {
		name string
		mk   func(interval time.Duration, cb func(k string, v interface{})) cacheAPI
		noCb bool // built without a callback: one is installed afterwards (SetEvictedCallback), and the janitor must use it
	}
	ctors := []ctor{
		{"New(opts)", func(i time.Duration, cb func(string, interface{})) cacheAPI {
			return plain{cache.New(cache.WithCleanupInterval(i), cache.WithEvictedCallback(cb))}
		}, false},
		{"NewDefault", func(i time.Duration, cb func(string, interface{})) cacheAPI {
			return plain{cache.NewDefault(time.Hour, i, cb)}
		}, false},
		{"NewOf(opts)", func(i time.Duration, cb func(string, interface{})) cacheAPI {
			return generic{cache.NewOf[string, interface{}](cache.WithCleanupIntervalOf[string, interface{}](i), cache.WithEvictedCallbackOf[string, interface{}](cb))}
		}, false},
		{"NewOfDefault", func(i time.Duration, cb func(string, interface{})) cacheAPI {
			return generic{cache.NewOfDefault[string, interface{}](time.Hour, i, cb)}
		}, false},
		{"New(opts, no callback)", func(i time.Duration, cb func(string, interface{})) cacheAPI {
			return plain{cache.New(cache.WithCleanupInterval(i))}
		}, true},
		{"NewDefault(no callback)", func(i time.Duration, cb func(string, interface{})) cacheAPI {
			return plain{cache.NewDefault(time.Hour, i)}
		}, true},
		{"NewDefault(nil callback)", func(i time.Duration, cb func(string, interface{})) cacheAPI {
			return plain{cache.NewDefault(time.Hour, i, nil)}
		}, true},
		{"NewOf(opts, no callback)", func(i time.Duration, cb func(string, interface{})) cacheAPI {
			return generic{cache.NewOf[string, interface{}](cache.WithCleanupIntervalOf[string, interface{}](i))}
		}, true},
		{"NewOfDefault(no callback)", func(i time.Duration, cb func(string, interface{})) cacheAPI {
			return generic{cache.NewOfDefault[string, interface{}](time.Hour, i)}
		}, true},
	}
	cbCtors := ctors[:4] // the variants that install the callback they are given
	intervals := []time.Duration{-time.Second, -1, 0, 10 * time.Second, 30 * time.Second}
	for _, ct := range ctors {
		for _, iv := range intervals {
			var fired int64
			var firedPtr *int64
			before := runtime.NumGoroutine()
			c := ct.mk(iv, func(k string, v interface{}) { atomic.AddInt64(&fired, 1) })
			started := runtime.NumGoroutine() - before
			want := 0
			if iv > 0 {
				want = 1
			}
			// no background activity may be started for an interval <= 0; for a positive interval what counts is the
			// behaviour checked below (how the janitor is implemented - goroutine or timers - is not the property's business)
			if started > want {
				bad++
				fmt.Printf("BAD-janitor-start %s interval=%d: %d goroutine(s) started, want %d\n", ct.name, iv, started, want)
			}
			// the callback in force is the one installed last (SetEvictedCallback), not the constructor's
			var fresh int64
			firedPtr = &fired
			swapped := iv == 30*time.Second || iv == -1 || ct.noCb
			if swapped {
				c.SetCallback(func(k string, v interface{}) { atomic.AddInt64(&fresh, 1) })
				firedPtr = &fresh
			}
			for i := 0; i < 10; i++ {
				c.Set(fmt.Sprint("k", i), i, time.Millisecond)
			}
			c.Set("forever", 1, cache.NoExpiration)
			// no user call touches the keys from here on; Count does not
			deadline := time.Now().Add(5 * time.Second) // generous: the machine may be loaded
			if iv <= 0 {
				deadline = time.Now().Add(150 * time.Millisecond) // nothing is expected to happen: a short observation window
			}
			cleaned := false
			for time.Now().Before(deadline) {
				if c.Count() == 1 {
					cleaned = true
					break
				}
				time.Sleep(2 * time.Millisecond)
			}
			if iv > 0 {
				for w := 0; w < 200 && atomic.LoadInt64(firedPtr) != 10; w++ {
					time.Sleep(5 * time.Millisecond) // the callbacks are fired after the removals of a pass
				}
				if !cleaned || atomic.LoadInt64(firedPtr) != 10 {
					bad++
					fmt.Printf("BAD-janitor-clean %s interval=%d: count=%d callbacks=%d after 5s (scaled intervals)\n", ct.name, iv, c.Count(), atomic.LoadInt64(firedPtr))
				}
			} else {
				time.Sleep(30 * time.Millisecond)
				if c.Count() != 11 || atomic.LoadInt64(firedPtr) != 0 {
					bad++
					fmt.Printf("BAD-janitor-off %s interval=%d: entries were removed without a user call: count=%d callbacks=%d\n", ct.name, iv, c.Count(), atomic.LoadInt64(firedPtr))
				}
				c.DeleteExpired()
				if c.Count() != 1 || atomic.LoadInt64(firedPtr) != 10 {
					bad++
					fmt.Printf("BAD-deleteexpired %s interval=%d: count=%d callbacks=%d\n", ct.name, iv, c.Count(), atomic.LoadInt64(firedPtr))
				}
			}
			if swapped && atomic.LoadInt64(&fired) != 0 {
				bad++
				fmt.Printf("BAD-janitor-callback %s interval=%d: the constructor's callback fired %d times after SetEvictedCallback replaced it\n", ct.name, iv, atomic.LoadInt64(&fired))
			}
			fmt.Printf("janitor %s interval=%d ok\n", ct.name, iv)
		}
	}
	// a callback that re-enters the cache (on the evicted key and on a new one) must not stall the janitor
	for _, ct := range cbCtors {
		var fired int64
		var c cacheAPI
		c = ct.mk(10*time.Second, func(k string, v interface{}) {
			c.Get(k)
			c.Set("re-"+k, v, cache.NoExpiration)
			c.Delete("absent-" + k)
			atomic.AddInt64(&fired, 1)
		})
		for i := 0; i < 10; i++ {
			c.Set(fmt.Sprint("k", i), i, time.Millisecond)
		}
		c.Set("forever", 1, cache.NoExpiration)
		ok := false
		for w := 0; w < 1000; w++ { // up to 5 s
			if atomic.LoadInt64(&fired) == 10 && c.Count() == 11 {
				ok = true
				break
			}
			time.Sleep(5 * time.Millisecond)
		}
		if !ok {
			bad++
			fmt.Printf("BAD-janitor-reentrant %s: with a callback that calls Get/Set/Delete the janitor removed and reported only %d of 10 expired entries in 5 s (count=%d, want 11)\n", ct.name, atomic.LoadInt64(&fired), c.Count())
		} else {
			fmt.Printf("janitor %s reentrant callback ok\n", ct.name)
		}
	}
	// "reload on eviction": the callback stores the evicted key again with a TTL (once).  Nothing else with a TTL is
	// left in the cache, and nobody calls the cache from outside: the janitor alone must collect the reloaded entry
	// and report it
	for _, ct := range cbCtors {
		var first, second int64
		var c cacheAPI
		c = ct.mk(10*time.Second, func(k string, v interface{}) {
			if s, _ := v.(string); s == "gen1" {
				atomic.AddInt64(&first, 1)
				c.Set(k, "gen2", time.Millisecond)
			} else {
				atomic.AddInt64(&second, 1)
			}
		})
		c.Set("a", "gen1", time.Millisecond)
		ok := false
		for w := 0; w < 1000; w++ { // up to 5 s
			if atomic.LoadInt64(&first) == 1 && atomic.LoadInt64(&second) == 1 {
				ok = true
				break
			}
			time.Sleep(5 * time.Millisecond)
		}
		if !ok || c.Count() != 0 {
			bad++
			fmt.Printf("BAD-janitor-reload %s: an entry stored with a TTL by the evicted callback was not collected by the janitor in 5 s (first=%d second=%d count=%d, want 1 1 0)\n", ct.name, atomic.LoadInt64(&first), atomic.LoadInt64(&second), c.Count())
		} else {
			fmt.Printf("janitor %s reload-on-eviction ok\n", ct.name)
		}
	}
	// a cache dropped while its janitor is in the middle of a pass (inside the evicted callback): once the pass is
	// over the janitor must stop and the contents must become collectable
	for _, ct := range cbCtors {
		gate := make(chan struct{})
		entered := make(chan struct{}, 1)
		finalized := make(chan struct{})
		func() {
			var c cacheAPI
			c = ct.mk(10*time.Second, func(k string, v interface{}) {
				if k == "first" {
					select {
					case entered <- struct{}{}:
					default:
					}
					<-gate
				}
			})
			payload := new([1 << 16]byte)
			runtime.SetFinalizer(payload, func(*[1 << 16]byte) { close(finalized) })
			c.Set("big", payload, time.Hour)
			c.Set("first", 1, time.Millisecond)
			select {
			case <-entered:
			case <-time.After(5 * time.Second):
				bad++
				fmt.Printf("BAD-janitor-drop %s: the janitor never reached the callback\n", ct.name)
			}
		}() // the cache and the payload are unreachable from here on, the janitor is parked inside its pass
		for i := 0; i < 4; i++ {
			runtime.GC()
			time.Sleep(10 * time.Millisecond)
		}
		close(gate)
		ok := false
		for w := 0; w < 100; w++ { // up to 5 s
			runtime.GC()
			select {
			case <-finalized:
				ok = true
			case <-time.After(50 * time.Millisecond):
			}
			if ok {
				break
			}
		}
		if !ok {
			bad++
			fmt.Printf("BAD-janitor-drop %s: a cache dropped while its janitor was inside a pass is kept alive (its contents were not collected within 5 s)\n", ct.name)
		} else {
			fmt.Printf("janitor %s dropped during a pass: collected\n", ct.name)
		}
	}
	// leak check: create and drop caches (with entries and callbacks, janitor on and off, interleaved), collect
	runtime.GC()
	time.Sleep(10 * time.Millisecond)
	base := runtime.NumGoroutine()
	var ms0 runtime.MemStats
	runtime.ReadMemStats(&ms0)
	for round := 0; round < 3; round++ {
		for i := 0; i < 60; i++ {
			ct := ctors[i%len(ctors)]
			iv := intervals[i%len(intervals)]
			c := ct.mk(iv, func(k string, v interface{}) {})
			for j := 0; j < 20; j++ {
				c.Set(fmt.Sprint("k", j), make([]byte, 4096), time.Hour)
			}
		}
		for i := 0; i < 6; i++ {
			runtime.GC()
			time.Sleep(15 * time.Millisecond)
		}
	}
	// finalizers run on their own goroutine: give them time (up to 10 s) before calling it a leak
	for w := 0; w < 200 && runtime.NumGoroutine() > base; w++ {
		runtime.GC()
		time.Sleep(50 * time.Millisecond)
	}
	n := runtime.NumGoroutine()
	if n > base {
		bad++
		fmt.Printf("BAD-goroutine-leak: %d goroutines before, %d after creating and dropping 180 caches\n", base, n)
	}
	var ms1 runtime.MemStats
	runtime.ReadMemStats(&ms1)
	if ms1.HeapAlloc > ms0.HeapAlloc+8<<20 {
		bad++
		fmt.Printf("BAD-memory-leak: heap grew from %d to %d bytes after dropping the caches\n", ms0.HeapAlloc, ms1.HeapAlloc)
	}
	if bad > 0 {
		os.Exit(3)
	}
	fmt.Println("janitor-mode-ok")
}

func init() {
	modes["race"] = raceMode
	modes["janitor"] = janitorMode
}
