// vharness: correspondence / exploration harness, overlaid into /repo/internal/vharness at build time.
package main

import (
	"fmt"
	"os"
)

func main() {
	if len(os.Args) < 2 {
		fmt.Fprintln(os.Stderr, "usage: vharness <mode> [key=value ...]")
		os.Exit(2)
	}
	args := map[string]string{}
	for _, a := range os.Args[2:] {
		for i := 0; i < len(a); i++ {
			if a[i] == '=' {
				args[a[:i]] = a[i+1:]
				break
			}
		}
	}
	switch os.Args[1] {
	case "seqcache":
		seqCache(args)
	default:
		if f, ok := modes[os.Args[1]]; ok {
			f(args)
			return
		}
		fmt.Fprintln(os.Stderr, "unknown mode", os.Args[1])
		os.Exit(2)
	}
}

var modes = map[string]func(map[string]string){}
