package cache

// White-box constructors for the /verif harness (overlaid into package cache at build time; never committed).

import (
	"time"

	"github.com/fufuok/cache/internal/xsync"
)

// VerifNewCacheSmall builds a Cache exactly like newXsyncMap(cfg) but over a table of n root buckets.
func VerifNewCacheSmall(n int, dflt time.Duration, ec EvictedCallback) Cache {
	c := newXsyncMap(Config{DefaultExpiration: dflt, CleanupInterval: 0, EvictedCallback: ec}).(*xsyncMapWrapper)
	c.items.(*xsync.Map).VerifShrinkTo(n)
	return c
}

func VerifNewCacheOfSmall(n int, dflt time.Duration, ec EvictedCallbackOf[string, interface{}]) CacheOf[string, interface{}] {
	c := newXsyncMapOf[string, interface{}](ConfigOf[string, interface{}]{DefaultExpiration: dflt, CleanupInterval: 0, EvictedCallback: ec}).(*xsyncMapOfWrapper[string, interface{}])
	c.items.(*xsync.MapOf[string, itemOf[interface{}]]).VerifShrinkTo(n)
	return c
}

// VerifNewMapOfWithHasher exposes xsync.NewMapOfWithHasher to the external key-type catalogue harness.
func VerifNewMapOfWithHasher[K comparable, V any](h func(K, uint64) uint64) MapOf[K, V] {
	return xsync.NewMapOfWithHasher[K, V](h)
}

// VerifDefaultHasher exposes the default hasher for K.
func VerifDefaultHasher[K comparable]() func(K, uint64) uint64 { return xsync.VerifDefaultHasher[K]() }
