package cache

// White-box constructors for the /verif harness (overlaid into package cache at build time; never committed).

import (
	"fmt"
	"reflect"
	"time"
	"unsafe"

	"github.com/fufuok/cache/internal/vshim"
	"github.com/fufuok/cache/internal/xsync"
)

// VerifNewCacheSmall builds a Cache exactly like newXsyncMap(cfg) but over a table of n root buckets.
func VerifNewCacheSmall(n int, dflt time.Duration, ec EvictedCallback) Cache {
	c := newXsyncMap(Config{DefaultExpiration: dflt, CleanupInterval: 0, EvictedCallback: ec}).(*xsyncMapWrapper)
	c.items.(*xsync.Map).VerifShrinkTo(n)
	return c
}

func VerifNewCacheOfSmall(n int, dflt time.Duration, ec EvictedCallbackOf[string, interface{}]) CacheOf[string, interface{}] {
	c := newXsyncMapOf[string, interface{}](ConfigOf[string, interface{}]{DefaultExpiration: dflt, CleanupInterval: 0, EvictedCallback: ec}).(*xsyncMapOfWrapper[string, interface{}])
	c.items.(*xsync.MapOf[string, itemOf[interface{}]]).VerifShrinkTo(n)
	return c
}

// verifFieldAddr: address of a (possibly promoted) field of the cache object, looked up by name at run time so that a
// working tree that renames or merges the settings still builds with the harness (nil when there is no such field:
// the trace acceptor then cannot classify the accesses to it and says so; every other mode is unaffected)
func verifFieldAddr(obj interface{}, name string) unsafe.Pointer {
	v := reflect.ValueOf(obj)
	for v.Kind() == reflect.Ptr {
		v = v.Elem()
	}
	if v.Kind() != reflect.Struct {
		return nil
	}
	f := v.FieldByName(name)
	if !f.IsValid() || !f.CanAddr() {
		return nil
	}
	return unsafe.Pointer(f.UnsafeAddr())
}

// VerifNewMapOfWithHasher exposes xsync.NewMapOfWithHasher to the external key-type catalogue harness.
func VerifNewMapOfWithHasher[K comparable, V any](h func(K, uint64) uint64) MapOf[K, V] {
	return xsync.NewMapOfWithHasher[K, V](h)
}

// VerifDefaultHasher exposes the default hasher for K.
func VerifDefaultHasher[K comparable]() func(K, uint64) uint64 { return xsync.VerifDefaultHasher[K]() }

// ---- M5-granularity tracing: every call on the underlying map is ONE scheduling step ---------------------

// tracedMap wraps the `items` map of a cache: a scheduling point before every call, the call itself (including
// the closure the cache passes to Compute, which runs under the bucket lock) as one atomic step, and an event
// describing it afterwards.
type tracedMap struct {
	inner Map
	ev    func(string)
}

func itemStr(v interface{}) string {
	if i, ok := v.(item); ok {
		if i.v == nil {
			return fmt.Sprintf("nil@%d", i.e)
		}
		return fmt.Sprintf("%v@%d", i.v, i.e)
	}
	return "?"
}

func (t tracedMap) Load(k string) (v interface{}, ok bool) {
	vshim.Park("items")
	vshim.Atomic(func() { v, ok = t.inner.Load(k) })
	t.ev("items.Load " + k)
	return
}
func (t tracedMap) Store(k string, v interface{}) {
	vshim.Park("items")
	vshim.Atomic(func() { t.inner.Store(k, v) })
	t.ev("items.Store " + k)
}
func (t tracedMap) LoadOrStore(k string, v interface{}) (a interface{}, l bool) {
	vshim.Park("items")
	vshim.Atomic(func() { a, l = t.inner.LoadOrStore(k, v) })
	t.ev("items.LoadOrStore " + k)
	return
}
func (t tracedMap) LoadAndStore(k string, v interface{}) (a interface{}, l bool) {
	vshim.Park("items")
	vshim.Atomic(func() { a, l = t.inner.LoadAndStore(k, v) })
	t.ev("items.LoadAndStore " + k)
	return
}
func (t tracedMap) LoadOrCompute(k string, f func() interface{}) (a interface{}, l bool) {
	vshim.Park("items")
	vshim.Atomic(func() { a, l = t.inner.LoadOrCompute(k, f) })
	t.ev("items.LoadOrCompute " + k)
	return
}
func (t tracedMap) Compute(k string, f func(interface{}, bool) (interface{}, bool)) (a interface{}, ok bool) {
	vshim.Park("items")
	vshim.Atomic(func() { a, ok = t.inner.Compute(k, f) })
	t.ev("items.Compute " + k)
	return
}
func (t tracedMap) LoadAndDelete(k string) (v interface{}, l bool) {
	vshim.Park("items")
	vshim.Atomic(func() { v, l = t.inner.LoadAndDelete(k) })
	t.ev("items.LoadAndDelete " + k)
	return
}
func (t tracedMap) Delete(k string) {
	vshim.Park("items")
	vshim.Atomic(func() { t.inner.Delete(k) })
	t.ev("items.Delete " + k)
}
func (t tracedMap) Range(f func(string, interface{}) bool) {
	vshim.Park("items")
	vshim.Atomic(func() {
		t.inner.Range(func(k string, v interface{}) bool {
			var r bool
			vshim.Unatomic(func() {
				vshim.Park("visit")
				t.ev("items.RangeVisit " + k + " " + itemStr(v))
				r = f(k, v)
			})
			return r
		})
	})
	t.ev("items.RangeEnd")
}
func (t tracedMap) Clear() {
	vshim.Park("items")
	vshim.Atomic(func() { t.inner.Clear() })
	t.ev("items.Clear")
}
func (t tracedMap) Size() (n int) {
	vshim.Park("items")
	vshim.Atomic(func() { n = t.inner.Size() })
	t.ev("items.Size")
	return
}

// VerifNewCacheTraced: like VerifNewCacheSmall, with the items map wrapped; returns the addresses of the two
// settings for trace classification.
func VerifNewCacheTraced(n int, dflt time.Duration, ec EvictedCallback, ev func(string)) (Cache, unsafe.Pointer, unsafe.Pointer) {
	c := newXsyncMap(Config{DefaultExpiration: dflt, CleanupInterval: 0, EvictedCallback: ec}).(*xsyncMapWrapper)
	c.items.(*xsync.Map).VerifShrinkTo(n)
	c.items = tracedMap{inner: c.items, ev: ev}
	return c, verifFieldAddr(c, "defaultExpiration"), verifFieldAddr(c, "evictedCallback")
}

type tracedMapOf[K comparable, V any] struct {
	inner MapOf[K, V]
	ev    func(string)
	key   func(K) string
	item  func(V) string
}

func (t tracedMapOf[K, V]) Load(k K) (v V, ok bool) {
	vshim.Park("items")
	vshim.Atomic(func() { v, ok = t.inner.Load(k) })
	t.ev("items.Load " + t.key(k))
	return
}
func (t tracedMapOf[K, V]) Store(k K, v V) {
	vshim.Park("items")
	vshim.Atomic(func() { t.inner.Store(k, v) })
	t.ev("items.Store " + t.key(k))
}
func (t tracedMapOf[K, V]) LoadOrStore(k K, v V) (a V, l bool) {
	vshim.Park("items")
	vshim.Atomic(func() { a, l = t.inner.LoadOrStore(k, v) })
	t.ev("items.LoadOrStore " + t.key(k))
	return
}
func (t tracedMapOf[K, V]) LoadAndStore(k K, v V) (a V, l bool) {
	vshim.Park("items")
	vshim.Atomic(func() { a, l = t.inner.LoadAndStore(k, v) })
	t.ev("items.LoadAndStore " + t.key(k))
	return
}
func (t tracedMapOf[K, V]) LoadOrCompute(k K, f func() V) (a V, l bool) {
	vshim.Park("items")
	vshim.Atomic(func() { a, l = t.inner.LoadOrCompute(k, f) })
	t.ev("items.LoadOrCompute " + t.key(k))
	return
}
func (t tracedMapOf[K, V]) Compute(k K, f func(V, bool) (V, bool)) (a V, ok bool) {
	vshim.Park("items")
	vshim.Atomic(func() { a, ok = t.inner.Compute(k, f) })
	t.ev("items.Compute " + t.key(k))
	return
}
func (t tracedMapOf[K, V]) LoadAndDelete(k K) (v V, l bool) {
	vshim.Park("items")
	vshim.Atomic(func() { v, l = t.inner.LoadAndDelete(k) })
	t.ev("items.LoadAndDelete " + t.key(k))
	return
}
func (t tracedMapOf[K, V]) Delete(k K) {
	vshim.Park("items")
	vshim.Atomic(func() { t.inner.Delete(k) })
	t.ev("items.Delete " + t.key(k))
}
func (t tracedMapOf[K, V]) Range(f func(K, V) bool) {
	vshim.Park("items")
	vshim.Atomic(func() {
		t.inner.Range(func(k K, v V) bool {
			var r bool
			vshim.Unatomic(func() {
				vshim.Park("visit")
				t.ev("items.RangeVisit " + t.key(k) + " " + t.item(v))
				r = f(k, v)
			})
			return r
		})
	})
	t.ev("items.RangeEnd")
}
func (t tracedMapOf[K, V]) Clear() {
	vshim.Park("items")
	vshim.Atomic(func() { t.inner.Clear() })
	t.ev("items.Clear")
}
func (t tracedMapOf[K, V]) Size() (n int) {
	vshim.Park("items")
	vshim.Atomic(func() { n = t.inner.Size() })
	t.ev("items.Size")
	return
}

func VerifNewCacheOfTraced(n int, dflt time.Duration, ec EvictedCallbackOf[string, interface{}], ev func(string)) (CacheOf[string, interface{}], unsafe.Pointer, unsafe.Pointer) {
	c := newXsyncMapOf[string, interface{}](ConfigOf[string, interface{}]{DefaultExpiration: dflt, CleanupInterval: 0, EvictedCallback: ec}).(*xsyncMapOfWrapper[string, interface{}])
	c.items.(*xsync.MapOf[string, itemOf[interface{}]]).VerifShrinkTo(n)
	c.items = tracedMapOf[string, itemOf[interface{}]]{inner: c.items, ev: ev,
		key: func(k string) string { return k },
		item: func(i itemOf[interface{}]) string {
			if i.v == nil {
				return fmt.Sprintf("nil@%d", i.e)
			}
			return fmt.Sprintf("%v@%d", i.v, i.e)
		}}
	return c, verifFieldAddr(c, "defaultExpiration"), verifFieldAddr(c, "evictedCallback")
}
