// Package vshim is overlaid into /repo/internal/vshim at build time by /verif (never committed to /repo).
// It provides (a) a virtual clock for package cache and (b) drop-in replacements for the sync/atomic,
// sync.Mutex, sync.Cond and runtime.Gosched calls of internal/xsync that announce every synchronisation
// action to a cooperative scheduler through Hook before performing it.  With Hook == nil every shim
// behaves like the primitive it replaces.
package vshim

import (
	"runtime"
	"sync/atomic"
	"time"
	"unsafe"
)

// ---- virtual clock ---------------------------------------------------------------------------

var (
	clockOn int32
	nowNs   int64
)

func SetClock(ns int64) { atomic.StoreInt32(&clockOn, 1); atomic.StoreInt64(&nowNs, ns) }
func Advance(d int64)   { atomic.AddInt64(&nowNs, d) }

// NowNanos is the virtual clock reading (no scheduling point, no trace note).
func NowNanos() int64 { return atomic.LoadInt64(&nowNs) }
func ClockNs() int64    { return atomic.LoadInt64(&nowNs) }
func RealClock()        { atomic.StoreInt32(&clockOn, 0) }

func Now() time.Time {
	if atomic.LoadInt32(&clockOn) == 0 {
		return time.Now()
	}
	y("Clock", nil, nil)
	note("Clock", nil, 0)
	return time.Unix(0, atomic.LoadInt64(&nowNs))
}
func Until(t time.Time) time.Duration { return t.Sub(Now()) }
func Since(t time.Time) time.Duration { return Now().Sub(t) }

// TickerScale divides janitor intervals (1 = unchanged).
var TickerScale int64 = 1

func NewTicker(d time.Duration) *time.Ticker {
	d = d / time.Duration(TickerScale)
	if d <= 0 {
		d = 1
	}
	return time.NewTicker(d)
}

// timers of a (re-written) janitor are scaled the same way
func AfterFunc(d time.Duration, f func()) *time.Timer {
	d = d / time.Duration(TickerScale)
	if d <= 0 {
		d = 1
	}
	return time.AfterFunc(d, f)
}

func NewTimer(d time.Duration) *time.Timer {
	d = d / time.Duration(TickerScale)
	if d <= 0 {
		d = 1
	}
	return time.NewTimer(d)
}

// ---- scheduler hook ---------------------------------------------------------------------------

// Ev describes the synchronisation action the calling goroutine is about to perform.
type Ev struct {
	Kind    string         // LoadPointer, StorePointer, LoadUint64, ..., Lock, Unlock, CondWait, Broadcast, Gosched, Clock, ValueLoad, ValueStore, User
	Addr    unsafe.Pointer // location acted on (nil if none)
	Blocked func() bool    // non-nil: the action cannot complete while this returns true
	Arg     uint64         // value about to be stored / delta, when meaningful
}

// Hook, when non-nil, is called before every action; it returns when the caller may perform it.
var Hook func(*Ev)

// noYield > 0: the running thread is inside an atomic section (one step of a coarser-grained model): no
// scheduling point and no trace note until it ends.  Only one scheduled thread runs at a time.
var noYield int32

// Atomic runs f as one indivisible step of the calling thread.
func Atomic(f func()) {
	noYield++
	defer func() { noYield-- }()
	f()
}

// Unatomic runs f (a user callback invoked from inside an atomic section) with scheduling re-enabled.
func Unatomic(f func()) {
	n := noYield
	noYield = 0
	defer func() { noYield = n }()
	f()
}

func y(kind string, addr unsafe.Pointer, blocked func() bool) {
	if noYield > 0 {
		return
	}
	if h := Hook; h != nil {
		h(&Ev{Kind: kind, Addr: addr, Blocked: blocked})
	}
}
func ya(kind string, addr unsafe.Pointer, arg uint64) {
	if noYield > 0 {
		return
	}
	if h := Hook; h != nil {
		h(&Ev{Kind: kind, Addr: addr, Arg: arg})
	}
}

// Trace, when non-nil, is told about every completed action that matters for the protocol-level trace
// (with its outcome where the outcome is not implied): it never blocks and never yields.
var Trace func(kind string, addr unsafe.Pointer, arg uint64)

func note(kind string, addr unsafe.Pointer, arg uint64) {
	if noYield > 0 {
		return
	}
	if t := Trace; t != nil {
		t(kind, addr, arg)
	}
}

// Park is a yield point callable from user functions (valueFn, visitors, callbacks).
func Park(tag string) { y("User:"+tag, nil, nil) }

func LoadPointer(p *unsafe.Pointer) unsafe.Pointer {
	y("LoadPointer", unsafe.Pointer(p), nil)
	note("LoadPointer", unsafe.Pointer(p), 0)
	return atomic.LoadPointer(p)
}
func StorePointer(p *unsafe.Pointer, v unsafe.Pointer) {
	ya("StorePointer", unsafe.Pointer(p), uint64(uintptr(v)))
	note("StorePointer", unsafe.Pointer(p), 0)
	atomic.StorePointer(p, v)
}
func LoadUint64(p *uint64) uint64 { y("LoadUint64", unsafe.Pointer(p), nil); return atomic.LoadUint64(p) }
func StoreUint64(p *uint64, v uint64) {
	ya("StoreUint64", unsafe.Pointer(p), v)
	if Trace != nil && atomic.LoadUint64(p)&1 == 1 && v&1 == 0 {
		note("SpinUnlock", unsafe.Pointer(p), 0) // the bucket spin lock of Map is bit 0 of the word
	}
	note("StoreUint64", unsafe.Pointer(p), v)
	atomic.StoreUint64(p, v)
}
func LoadInt64(p *int64) int64 {
	y("LoadInt64", unsafe.Pointer(p), nil)
	note("LoadInt64", unsafe.Pointer(p), 0)
	return atomic.LoadInt64(p)
}
func StoreInt64(p *int64, v int64) {
	ya("StoreInt64", unsafe.Pointer(p), uint64(v))
	note("StoreInt64", unsafe.Pointer(p), uint64(v))
	atomic.StoreInt64(p, v)
}
func AddInt64(p *int64, d int64) int64 {
	ya("AddInt64", unsafe.Pointer(p), uint64(d))
	note("AddInt64", unsafe.Pointer(p), uint64(d))
	return atomic.AddInt64(p, d)
}
func CompareAndSwapUint64(p *uint64, o, n uint64) bool {
	ya("CASUint64", unsafe.Pointer(p), n)
	ok := atomic.CompareAndSwapUint64(p, o, n)
	if ok && o&1 == 0 && n&1 == 1 {
		note("SpinLock", unsafe.Pointer(p), 0)
	}
	return ok
}
func CompareAndSwapInt64(p *int64, o, n int64) bool {
	ya("CASInt64", unsafe.Pointer(p), uint64(n))
	ok := atomic.CompareAndSwapInt64(p, o, n)
	if ok {
		note("CASInt64", unsafe.Pointer(p), 1)
	} else {
		note("CASInt64", unsafe.Pointer(p), 0)
	}
	return ok
}
func Gosched() {
	if Hook != nil {
		y("Gosched", nil, nil)
		return
	}
	runtime.Gosched()
}

// Mutex replaces sync.Mutex.  It must not be larger than sync.Mutex (8 bytes): bucketOf is padded to
// exactly one cache line by a compile-time array length.
type Mutex struct {
	locked int32
	_      int32
}

func (m *Mutex) Lock() {
	if Hook != nil {
		y("Lock", unsafe.Pointer(m), func() bool { return atomic.LoadInt32(&m.locked) != 0 })
	}
	for !atomic.CompareAndSwapInt32(&m.locked, 0, 1) {
		if Hook != nil {
			y("Lock", unsafe.Pointer(m), func() bool { return atomic.LoadInt32(&m.locked) != 0 })
		} else {
			runtime.Gosched()
		}
	}
	note("MutexLock", unsafe.Pointer(m), 0)
}
// TryLock: one attempt, never blocks (sync.Mutex has it since go1.18)
func (m *Mutex) TryLock() bool {
	y("TryLock", unsafe.Pointer(m), nil)
	if atomic.CompareAndSwapInt32(&m.locked, 0, 1) {
		note("MutexLock", unsafe.Pointer(m), 0)
		return true
	}
	return false
}
func (m *Mutex) Unlock() {
	y("Unlock", unsafe.Pointer(m), nil)
	note("MutexUnlock", unsafe.Pointer(m), 0)
	if atomic.SwapInt32(&m.locked, 0) != 1 {
		panic("vshim: unlock of unlocked mutex")
	}
}

type Locker interface {
	Lock()
	Unlock()
}

// Cond replaces sync.Cond (Wait / Signal / Broadcast).  Waiters hold tickets; Signal releases the oldest
// outstanding ticket, Broadcast all of them.
type Cond struct {
	L Locker
	s *condState
}

type condState struct {
	next     int64 // next ticket to hand out
	released int64 // tickets < released may proceed
}

func NewCond(l Locker) *Cond { return &Cond{L: l, s: new(condState)} }
func (c *Cond) Wait() {
	// sync.Cond.Wait enqueues the caller (notifyListAdd) as its first action; nothing orders that enqueue with
	// the caller's preceding instruction except the mutex the caller holds, so a scheduling point belongs here
	y("CondWaitEnter", unsafe.Pointer(c.s), nil)
	t := atomic.AddInt64(&c.s.next, 1) - 1
	y("CondWaitUnlock", unsafe.Pointer(c.s), nil)
	note("CondPark", unsafe.Pointer(c.s), 0)
	c.L.(*Mutex).unlockQuiet()
	for atomic.LoadInt64(&c.s.released) <= t {
		if Hook != nil {
			y("CondWait", unsafe.Pointer(c.s), func() bool { return atomic.LoadInt64(&c.s.released) <= t })
		} else {
			runtime.Gosched()
		}
	}
	c.L.Lock()
}
func (m *Mutex) unlockQuiet() {
	if atomic.SwapInt32(&m.locked, 0) != 1 {
		panic("vshim: unlock of unlocked mutex")
	}
}
func (c *Cond) Broadcast() {
	y("Broadcast", unsafe.Pointer(c.s), nil)
	note("Broadcast", unsafe.Pointer(c.s), 0)
	atomic.StoreInt64(&c.s.released, atomic.LoadInt64(&c.s.next))
}
func (c *Cond) Signal() {
	y("Signal", unsafe.Pointer(c.s), nil)
	if atomic.LoadInt64(&c.s.released) < atomic.LoadInt64(&c.s.next) {
		atomic.AddInt64(&c.s.released, 1)
	}
}

// Value replaces atomic.Value.
type Value struct{ v atomic.Value }

func (v *Value) Load() interface{} {
	y("ValueLoad", unsafe.Pointer(v), nil)
	note("ValueLoad", unsafe.Pointer(v), 0)
	return v.v.Load()
}
func (v *Value) Store(x interface{}) {
	y("ValueStore", unsafe.Pointer(v), nil)
	note("ValueStore", unsafe.Pointer(v), 0)
	v.v.Store(x)
}

// ---- deterministic table seeds (sched mode rewrites makeSeed to call this) ---------------------

var seedState uint64 = 0x9E3779B97F4A7C15

func SetSeed(s uint64) { seedState = s*0x9E3779B97F4A7C15 + 0x1234567 }
func Seed() uint64 {
	for {
		seedState ^= seedState << 13
		seedState ^= seedState >> 7
		seedState ^= seedState << 17
		if uint32(seedState>>32) != 0 {
			return seedState
		}
	}
}

// ---- deterministic, model-computable string hash (layout / sched modes) -------------------------

// HashMode: 0 = well-mixed; 1 = constant (everything collides); 2 = MapOf h2 (low 7 bits) constant;
// 3 = MapOf h1 constant (one bucket, distinct h2); 4 = Map top-hash (top 20 bits) constant.
var HashMode int

func HashString(s string, seed uint64) uint64 {
	h := seed ^ 0xcbf29ce484222325
	for i := 0; i < len(s); i++ {
		h ^= uint64(s[i])
		h *= 0x100000001b3
	}
	h ^= h >> 29
	h *= 0xbf58476d1ce4e5b9
	h ^= h >> 32
	switch HashMode {
	case 1:
		return 0
	case 2:
		return h &^ 0x7f
	case 3:
		return h & 0x7f
	case 4:
		return h & (1<<44 - 1)
	}
	return h
}
